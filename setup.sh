#!/bin/sh
# Offline setup: verify the toolchain this machinery needs is on disk, build native helpers, byte-compile.
set -e
cd "$(dirname "$0")"
test -x /venv/bin/python || { echo "missing /venv/bin/python"; exit 1; }
command -v gcc >/dev/null || { echo "missing gcc"; exit 1; }
command -v clang >/dev/null || echo "warning: clang missing (sanitised C17/C18 runs unavailable)"
mkdir -p build evidence
if [ -f native/Makefile ]; then make -s -C native; fi
/venv/bin/python -m compileall -q vf >/dev/null
echo "setup ok"
