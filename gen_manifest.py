#!/usr/bin/env python3
"""Regenerates MANIFEST.json from the table below (kept valid at all times)."""
import json, os
HERE = os.path.dirname(os.path.abspath(__file__))
BASE = "cd /repo && /venv/bin/python -m pytest -ra -q -p no:cacheprovider --timeout=900 --continue-on-collection-errors"

CHECKS = {
 "C05": dict(level="exploration", engine="I",
   technique="exhaustive enumeration of ALL process tables of N processes (every parent function x every weak ordering of start times) in a simulated kernel, real tree-walking code, MUST/MAY reference",
   text="All process tables with N=3 (thorough N=4: 1296 parent functions x 75 weak orderings = 97200 worlds) processes: every assignment of parent pids into {0,1..N,N+1} (forests, self-loops, cycles, unlisted parents) x every weak ordering of start times; in each world every process calls children(), children(recursive=True), parent(), parents(); plus adversarial process names (the tree is read from name-bearing stat records) and the caller's own pid recycled. Oracle: exact set for children(); MUST (walk expanding only included processes) <= result <= MAY (reachable, not older, not the caller), no duplicates, termination within an access budget for the recursive form; parent()/parents() per the statement's rule.",
   note="parents(): worlds whose reference chain is itself cyclic (equal start times on a cycle) are outside the statement and skipped (counted in evidence); processes vanishing during the walk are covered by C03's fault enumeration.",
   ref="DESIGN.md §4 C05"),
 "C15": dict(level="fault_enumeration", engine="F",
   technique="exhaustive placement of the exit instant relative to every polling instant and the deadline in virtual time, x EINTR faults and sleep overshoots, on the real wait loop",
   text="Process.wait(timeout) for timeout in {None,0,0.0001,0.05,0.3,-1,-0.001,nan} x subject in {child exiting with code 0/1/255, child killed by signal 1/9/15/64, non-child, gone before the call}: a dry run yields the polling instants; the exit instant then ranges over every polling instant, every midpoint, the deadline, deadline+-0.1 ms, +20 ms, +41 ms, +1 s and never; plus EINTR on any one or two waitpid calls and sleeps overshooting by 3/20 ms. Oracle: status value, never returns before the exit instant, TimeoutExpired(seconds,pid) only if the exit instant >= deadline and raised within deadline+40 ms, sleeps 0.1 ms doubling to 40 ms, timeout=0 never sleeps, invalid timeouts raise ValueError before any OS call, second call returns the cached value without OS calls. wait_procs: 1-3 processes x child/non-child x exit-instant vectors from a 7-point grid x timeout {None,0,0.3} x callback: partition, returncode, callback exactly once, return time <= timeout+40 ms.",
   note="Virtual monotonic clock; the subject's state changes only at its scheduled exit instant; blocking waitpid is modelled by advancing virtual time to the exit event.",
   ref="DESIGN.md §4 C15"),
 "C17": dict(level="exploration", engine="I",
   technique="bounded-exhaustive argument/record enumeration on the compiled extension built with ASan+UBSan, sacrificial worker processes, independent decoders",
   text="The staged C extension is compiled with clang -fsanitize=address,undefined -fno-sanitize-recover; (A) every entry point of both extension modules (+9 Python forwarders) x argument tuples from a 60-value (thorough 84) lattice of C-boundary ints, floats, None, strings/bytes of critical lengths, sequences, objects: full product for arity <= 2, arity 3 pairwise (thorough full), wrong arities; (B) utmp files: every record type x user/line/host in {empty, short, full width without NUL, ':0', ':0.0', ':0.1'}^3, boundary pids/times, 0-3 records, partial records, read through utmpname(); (C) mounts files with escapes, long lines, comments through the C function and psutil.disk_partitions(all); (D) interface lists through an LD_PRELOAD shim faking getifaddrs/ioctl: address families, NULL members, MAC lengths, MTU, every flag bit, ethtool answers. Oracle: no sanitizer report or crash (aborts are bisected to one call), and values equal an independent decoding of the same bytes.",
   note="Sanitizers prove absence of reports on the enumerated inputs only; setters are only ever applied to a sacrificial child or unused pids.",
   ref="DESIGN.md §4 C17"),
 "C18": dict(level="exploration", engine="I",
   technique="exhaustive enumeration of set requests on live sacrificial children (real kernel, read back through psutil and the OS) + simulated-kernel enumeration of Cpus_allowed_list shapes and syscall refusals",
   text="Live (root, two sacrificial sleep children): every nice -20..19; every I/O class x level 0..7 spelled as enum and as int plus the invalid ring (level outside 0-7, level with IDLE/NONE, level without class, unknown classes); every non-empty subset of 4 CPUs (thorough: all 2^16-1 subsets of the 16 CPUs), duplicates, [], nonexistent CPUs, -1; every RLIMIT_* x (soft,hard) from {0,1,1024,cur,INFINITY} with soft<=hard and non-pairs; each set is read back through psutil, os.getpriority/os.sched_getaffinity/resource.prlimit/raw ioprio_get, every other setting of the subject and the sibling must be unchanged. Simulated kernel: 8 Cpus_allowed_list shapes x requests (incl. narrowing first), 7 syscalls x {EPERM,EACCES,ESRCH,EINVAL}.",
   note="Live part depends on what this kernel lets root set (only accepted requests are judged for read-back).",
   ref="DESIGN.md §4 C18"),
 "C19": dict(level="exploration", engine="I",
   technique="exhaustive products over /sys and /proc layouts in a simulated kernel where every optional file is {ok, missing, unreadable, non-numeric}; real code; reference from the statement",
   text="hwmon temperatures: 3 tree shapes (flat, device/ nesting, coretemp duplicate tree) x {input,max,crit,label} each in 4 states (256) x Celsius/Fahrenheit beside healthy neighbours on the same and another chip; thermal_zone fallback x 7 trip-point sets x 4 states; fans; battery: full product of file alternatives (energy/charge, power/current, full, time_to_empty, capacity, 5 statuses, AC0/AC/none x online) = 19200 layouts + battery naming/absence variants; cpu_count logical/cores over sysconf failing -> cpuinfo -> /proc/stat and both topology file names; cpu_stats and boot_time boundaries; cpu_freq from cpuinfo and (in a separate interpreter importing psutil with the cpufreq tree present) the sysfs implementation over policy/per-cpu layouts with offline CPUs and cpuinfo count match/mismatch.",
   note="A threshold value of 0 is outside the statement; a sensor's name file is always present.",
   ref="DESIGN.md §4 C19"),
 "C20": dict(level="fault_enumeration", engine="F",
   technique="exhaustive fault enumeration (platform x method x native call x errno x zombie answer) over the real platform modules driven on Linux with stub native extensions",
   text="Each of 7 platform flavours (FreeBSD, OpenBSD, NetBSD, macOS, Solaris, AIX, Windows) is imported in a fresh interpreter with stub native modules whose records hold a distinct value in every slot; every public Process method is run through the front end with no fault (tuples compared by field name/value against the module's own slot map), then with every errno in {ESRCH, ENOENT, EPERM, EACCES, EIO, EINVAL} (+ Windows error codes) injected at every native call it makes x zombie probe answer x pid 0 variants; thorough adds two-fault sequences, repeated faults and name-not-cached variants; plus front-end post-processing (Windows broadcast, MAC padding) and the documented names in __all__ per platform.",
   note="Only the Python layers are driven (native code of other platforms cannot run here); system-wide natives are scripted but not faulted; ENOENT outside procfs platforms accepted either way.",
   ref="DESIGN.md §4 C20"),
 "C06": dict(level="exploration", engine="I",
   technique="bounded-exhaustive enumeration of kernel-formatted inputs rendered by an independent simulated kernel, real parser code, reference decoder",
   text="Every process/thread name that is a string of <= 3 (thorough 4) tokens over an alphabet containing the parsers' own delimiters ('(' ')' blank newline tab backslash non-UTF-8, 2-byte UTF-8, 'Uid:\\t7\\t7\\t7', 'Gid:...', 'Threads:...', ') S 1 ') within 15 bytes, 15-byte truncations, every boundary value of each numeric stat/status field, every state letter, short (44/41-field) records and 1-3 threads with their own names are rendered into stat/status/task files exactly as fs/proc/array.c does and queried through 12 Process methods; the oracle is the abstract facts the record was rendered from.",
   note='simk renders the name raw in stat and escapes only \\n and \\\\ in status (kernel behaviour); unmapped state letters are not judged.',
   ref="DESIGN.md §4 C06"),
 "C07": dict(level="exploration", engine="I",
   technique="bounded-exhaustive enumeration of kernel-formatted inputs rendered by an independent simulated kernel, real parser code, reference decoder",
   text='cpu_times (1-3 CPUs x 7-10 fields x boundary counters); every pair of snapshots whose per-field tick deltas form the complete {0,1,50} product (7-10 fields) or any pair of fields over {-5,0,1,7,50,10^6}, under the kernel invariant guest<=user, through cpu_percent and cpu_times_percent in blocking (virtual sleep) and non-blocking, system-wide and per-CPU forms; Process.cpu_percent over all blocking/non-blocking 3-call sequences on (dproc,dwall) grids with 1 and 16 CPUs and negative intervals.',
   note='Shares are compared with the exact quotient within 0.05 (one decimal); 100 ticks/s; virtual clock. Schedule part: two threads calling cpu_percent()/cpu_times_percent() while every /proc/stat read returns a later snapshot (<= 2, thorough 3 pre-emptions): each result must be computed from the two samples of that same thread.',
   ref="DESIGN.md §4 C07"),
 "C08": dict(level="exploration", engine="I",
   technique="bounded-exhaustive enumeration of kernel-formatted inputs rendered by an independent simulated kernel, real parser code, reference decoder",
   text='All 2^14 subsets of the optional /proc/meminfo keys for 3 (thorough 6) value regimes (normal, container-distorted cached+buffers>total and available>total, MemAvailable=0, total=0, free>total, below the low watermark) plus zoneinfo {absent,1,3 zones,huge} and vmstat {both,absent,one,neither,reversed} variants; every field, the used/available clamps, percent, the fallback estimate (re-implemented from kernel commit 34e431b0ae) and the set of metric names in the RuntimeWarning are compared with a reference written from the statement.',
   note='When the estimate falls outside [0,total] any clamped value inside [0,total] is accepted.',
   ref="DESIGN.md §4 C08"),
 "C09": dict(level="exploration", engine="I",
   technique="bounded-exhaustive enumeration of kernel-formatted inputs rendered by an independent simulated kernel, real parser code, reference decoder",
   text="/proc/net/dev with 0-3 interfaces (names with ':' '.' 15 chars) and every counter column at every boundary; /proc/diskstats in all five line layouts (14/18/20/7/15 fields) x all sets of <= 2 (thorough 4) devices from 14 names whose whole-disk status is given by /sys/block (incl. prefix-sharing names sda/sdaa, loop1/loop10, md1/md10, cciss/c0d0) with distinct prime-scaled columns; per-device, totals and empty conventions; disk_usage over a 5^3 statvfs grid x (frsize,bsize) pairs.",
   note="15-field (2.4) layout: psutil's in-code description is the only specification available.",
   ref="DESIGN.md §4 C09"),
 "C11": dict(level="exploration", engine="I+F+S",
   technique="bounded-exhaustive enumeration of kernel-formatted inputs rendered by an independent simulated kernel, real parser code, reference decoder + fd-closing fault enumeration",
   text='Socket tables rendered from network-order address bytes: every (local, remote) address x port combination for tcp/udp/tcp6/udp6, all 11 TCP states, UNIX sockets of 3 types x 6 paths (none, abstract, with space, with colon, non-ASCII) x 5 holder sets (none, one, two fds, two processes), all multisets of <= 2 (thorough 3) sockets from a 6-entry menu x all 11 kinds, IPv6 tables absent, 8 invalid kinds; system-wide and per-process forms; plus every descriptor closing before every access of the fd scan.',
   note='Rows compared as sets; a shared inet socket may be attributed to any of its holders; newline in a UNIX path is outside the alphabet.',
   ref="DESIGN.md §4 C11"),
 "C12": dict(level="exploration", engine="I",
   technique="bounded-exhaustive enumeration of kernel-formatted inputs rendered by an independent simulated kernel, real parser code, reference decoder",
   text="All argv lists of <= 2 (thorough 3) items over {'', a, 'a b', /bin/x, \\xff, -c} in the three kernel layouts (NUL-separated, title overwritten with blanks, blanks + trailing NUL), zombie; all environment blocks of <= 3 (4) entries over 8 entry shapes incl. duplicates, '=' in values, missing '=', empty entry + trailing garbage; exe/cwd link targets (plain, ' (deleted)' with/without the suffixed file existing, NUL garbage, with blank, withheld) x state (ok, denied, gone) x 7 cmdlines for the exe fallback incl. cache check; (comm, argv[0]) pairs for 14/15-byte names x state.",
   note="A single NUL-terminated argument containing a blank is indistinguishable from an overwritten title (documented split expected); '=v' may be reported or ignored.",
   ref="DESIGN.md §4 C12"),
 "C13": dict(level="exploration", engine="I",
   technique="bounded-exhaustive enumeration of kernel-formatted inputs rendered by an independent simulated kernel, real parser code, reference decoder",
   text="statm boundary values; all lists of <= 2 (thorough 3) mappings over 9 paths (none, repeated path, blank, colon, ' (deleted)' stale and literal, [heap], non-UTF-8) x 3 roll-up modes (smaps_rollup present, ENOENT fallback, kernel without roll-up); all subsets of 6 optional smaps lines; figures up to tens of TB; memory_percent for every field and 7 invalid names x 3 totals; reference = sums over the mapping list.",
   note='smaps rendered like fs/proc/task_mmu.c; roll-up = field-wise sums.',
   ref="DESIGN.md §4 C13"),
 "C14": dict(level="exploration", engine="I",
   technique="bounded-exhaustive enumeration of kernel-formatted inputs rendered by an independent simulated kernel, real parser code, reference decoder + fd-closing fault enumeration",
   text="One descriptor x all 256 flag words (4 access modes x 6 flag bits), each descriptor kind x boundary offsets, all tables of <= 3 (4) descriptors over 9-10 kinds (regular, deleted, '(deleted)' stale/literal, socket, pipe, anon inode, device, relative, directory); /proc/<pid>/io with blank/garbage/unknown/double-separator lines at every position and permuted order; every descriptor closing before every access of the scan (singles and pairs).",
   note="Access mode 3: any of the five mode strings accepted, failure is not; 'X (deleted)' where only X exists: psutil's documented heuristic accepted.",
   ref="DESIGN.md §4 C14"),
 "C10": dict(level="model_checking", engine="H+S",
   technique="explicit-state BFS over raw-counter histories through the public functions (real code over a simulated kernel) against a reference accumulator, non-initial root states; + stateless pre-emption-bounded exploration of two threads calling concurrently",
   text="All histories (depth 6-7 per function, 4-5 for both functions interleaved, also started from states that already carry a wrap reminder) of raw counter changes including decreases, devices unplugged/re-plugged (two pluggable NICs, a disk and a partition), cache_clear(), and calls with every nowrap x per-device combination; every returned value is compared with a reference accumulator (raw + sum of previous values at each decrease since (re)appearance/clear), totals with the field-wise sum, and monotonicity is checked independently of the reference. Schedule part: two threads calling net_io_counters()/disk_io_counters()/cache_clear() while the raw counters only grow (every read returns a larger snapshot), all schedules with <= 1-2 (thorough 2-3) pre-emptions: every returned value must be a raw value its own call read, no exception, and a later sequential call must return the raw value.",
   note="'Went backwards'/'disappeared' are as observed between successive nowrap=True calls of the same function; counters take values {1,5,9}; untouched fields carry distinct constants.",
   ref="DESIGN.md §4 C10"),
 "C16": dict(level="model_checking", engine="H+S",
   technique="explicit-state BFS over oneshot/as_dict event histories + stateless pre-emption-bounded exploration of real thread interleavings (baton scheduler, line-level points)",
   text="H: all histories (depth 5-6) of enter/exit/exit-by-exception/nested enter/9-14 method calls/source version bumps/zombie/deny/vanish/10 as_dict forms on one object, against a reference per-block cache of first-read versions (values, read counts per source per block, validation-before-query, ad_value, NoSuchProcess propagation). S: 5 two/three-thread programs (block owner vs plain callers, as_dict vs plain, block vs block) under a cooperative scheduler with scheduling points at every source line of the memoize wrapper/oneshot/as_dict code, every simulated OS access and every lock operation; every schedule with <= 2 (thorough 3) pre-emptions is executed; each read yields a new version so each returned value names its read; oracle: no exception/deadlock, value read inside the allowed window, block owner reads each source at most once.",
   note="Pure-Python state under the GIL: accesses between scheduling points are atomic, so line-level points on the code that touches the shared cache cover all interleavings up to the bound (opcode-level points for two scenarios in the thorough tier). statm is not one of the cached shared sources.",
   ref="DESIGN.md §4 C16"),
 "C01": dict(level="model_checking", engine="H",
   technique="explicit-state BFS over process-lifetime event histories, every transition executed on the real code in a simulated kernel; syscall log as oracle",
   text="All histories (to the stated depth) over kernel events spawn/exit(zombie)/reap/die on 1-2 recyclable pids and user events new/is_running/name/ppid/process_iter/oneshot enter+exit/10 signal+setter actions on up to 2 held objects, plus at most one permission fault (one incarnation's stat becomes unreadable); after every event the simulated kernel's log of delivered kill/setpriority/ioprio_set/sched_setaffinity/prlimit calls is checked: nothing with pid<=0, exact pid and value, delivered only to the incarnation the object was created for, NoSuchProcess and no delivery when the pid belongs to another incarnation. Plus an exhaustive list of non-positive/out-of-range pids.",
   note="Kernel events happen between API calls (the identity-check/kill TOCTOU inside one call is inherent to POSIX pids); a recycled pid's new owner starts at a later jiffy; canonical state = relabelled incarnations + every mutable field of held objects, _pmap, _pids_reused.",
   ref="DESIGN.md §4 C01"),
 "C02": dict(level="model_checking", engine="H+S",
   technique="explicit-state BFS over histories incl. wall-clock steps, real code in a simulated kernel; reference identity (pid, incarnation); + stateless pre-emption-bounded exploration of two threads building objects concurrently",
   text="All histories over spawn/die(/exit/reap)/tick100/clock step +-1 s and new/is_running/process_iter/boot_time()/create_time()/oneshot enter+exit with up to 2-3 held objects; after every event ==, != and hash() of every pair of held objects are compared with the reference identity, hash stability is checked, and every is_running() answer is compared with whether the object's incarnation is still in the table.",
   note="Numeric canonical state (start jiffies, published btime, cached BOOT_TIME, every identity tuple); clock steps of +-1 s at 100 ticks/s make the adversarial alignment reachable.",
   ref="DESIGN.md §4 C02"),
 "C04": dict(level="model_checking", engine="H+F+S",
   technique="explicit-state BFS over process-table histories with partially consumed generators; real code in a simulated kernel; reference cache model",
   text="All histories over spawn/zombie/reap/die on 2-3 pids, thread creation, full process_iter(attrs) iterations, up to 1-2 partially consumed generators with kernel events between next() calls, cache_clear() and is_running() on yielded objects, also started from a state whose cache entry stands for a previous owner of its pid; a fault part (process exiting at every access of pid_exists/pids/process_iter, singles and pairs) and a schedule part (two threads iterating, with a spawn/exit as third participant or cache_clear, <= 2 pre-emptions); pids() and pid_exists(n) (n in {-1,0,each pid,a thread id,absent,2^31-1,2^31,2^64}) are evaluated in every reached state; iterations are checked for order, coverage, info keys and object identity against a reference cache.",
   note="Object identity across iterations is required only between complete iterations not overlapping a live generator; a cached entry whose pid was recycled without notice may be yielded stale (documented psutil behaviour).",
   ref="DESIGN.md §4 C04"),
 "C03": dict(level="fault_enumeration", engine="F",
   technique="exhaustive deviation-bounded fault enumeration (every OS access x {vanish, zombie, EACCES, EPERM, half-gone}, all deny-then-vanish pairs) of the real code inside a simulated kernel",
   text="Every Process query operation (43 methods/forms, as_dict whole and per attribute, children/parent/parents, is_running, str, process_iter) is executed on the real psutil code inside the simulated kernel; the 0-deviation run fixes the list of OS accesses, then every single fault {vanish, zombie, EACCES, EPERM, half-gone entry} at every access and every pair (deny at i, vanish at any later access of the re-run) is executed and judged (thorough: also three variants of the subject: no smaps_rollup, kernel without roll-up, minimal subject): only NoSuchProcess/ZombieProcess/AccessDenied with the right pid and explained by the injected fault, values equal to what the process really had, and NoSuchProcess from every later query once the process is gone.",
   note="Trusts simk's liveness table (live/zombie/reaped x access -> errno/empty/content), calibrated against this machine's kernel; kernel events are atomic w.r.t. one OS access; one subject process layout.",
   ref="DESIGN.md §4 C03"),
}


# what rounds 4-6 of independently seeded changes added to each check (appended to the level text)
ADDED = {
 "C01": " Also: the same search over psutil.Popen objects, over an object whose pid is the interpreter's own, and over objects handed out by process_iter() with a one-shot EMFILE failure of the identity probe; signal 0, an invalid signal number and cpu_affinity([]) are in the alphabet; the state key keeps every attribute of the objects, module globals, function attributes and closure cells it does not treat by hand.",
 "C02": " Also: a variant with objects built while stat was unreadable and the permission restored later (oracle: a mere query never changes ==/hash() of held objects); send_signal(invalid) must not mark a live process gone; a schedule part (two threads building and comparing objects of two processes, line-level pre-emption inside the stat parser and identity code, <= 1-2 pre-emptions).",
 "C03": " Also: the set forms (cpu_affinity([]), cpu_affinity([0]), nice, ionice, rlimit) as operations; errors must carry the object's own pid (tree walks included); after a vanish the pid is recycled (with a child) and the guarded methods must still raise NoSuchProcess on the faulted object and on a second object that noticed the death through is_running(); a zombie the call ran into is reaped afterwards; a part whose subject is a zombie from the start that is reaped before access k.",
 "C04": " Also: search roots with a stale cache entry and with an attrs-iteration under way over a warm cache; the issue-2418 half-gone window as a third deviation of the fault part; a schedule scenario where one thread iterates while another's is_running() notices a recycled pid.",
 "C05": " Also: objects created before a re-parenting/recycling are queried again afterwards; a fault part (a relative vanishing before every access of children()); worlds whose /proc listing is in descending order after an earlier pids() call; the recycled caller being the interpreter's own pid; every case runs under a wall-clock allowance (non-termination is a violation).",
 "C06": " Also: pty minors >= 256, thread stat records wider than 128 bytes, and ONE long-lived Process object queried while the record of the same process changes (ppid, state, times, name, uids, tty, zombie), with and without oneshot().",
 "C07": " Also: 12-CPU tables, interval spelled None/0/0.0, a failing call in the middle of a Process.cpu_percent() sequence, children's and I/O-wait columns moving between calls, a thread not created through the threading module interleaved with the main thread.",
 "C08": " Also: exactly one of SwapTotal/SwapFree missing.",
 "C09": " Also: the glued 'eth0:123' layout, and sequences of default-form calls (nowrap=True) while interfaces/disks come and go without any counter wrapping.",
 "C11": " Also: UNIX paths containing characters some line splitters treat as line ends, tables of a big-endian host, and call sequences in which the descriptor tables change between two calls of the same program.",
 "C12": " Also: links withheld with ESRCH; every case is also put to a long-lived Process object (except where the statement itself says the answer is cached).",
 "C13": " Also: smaps_rollup that opens but fails with ESRCH on read, unlinked files whose name ends in letters of ' (deleted)', every case also on a long-lived object.",
 "C14": " Also: relative link targets (anon_inode:inotify, rel/path) with decoy regular files of the same name in the caller's working directory; every case also on a long-lived object.",
 "C15": " Also: the pid recycled right after the probe that found it free (wait_procs), wall-clock steps during the wait, signals 32/35/63, wait(-1) after a cached result, and psutil.Popen over real children (5 endings x 7 sequences of wait/poll/communicate/context exit).",
 "C16": " Also: repr()/str() of the object inside its block, another object of the same process opening/leaving a block of its own, empty shared records (zombie smaps); the state key covers function attributes and closure cells of the psutil modules.",
 "C17": " Workers run with PYTHONMALLOC=malloc (reference-count slips become ASan heap-use-after-free reports). (E) hand-off schedules: through the preload shim a partner thread is offered the processor after every call k of getmntent()/getutent() made by disk_partitions()/users() and makes one complete call of the same API if the extension released the GIL there.",
 "C18": " Also: Cpus_allowed_list shapes with a hole in the online numbering, the get forms against every (class, data) / nice / mask answer of the simulated kernel, and the compiled affinity get path under an LD_PRELOAD sched_getaffinity answering like kernels with 64..65536 possible CPUs.",
 "C19": " Also: boot_time() call sequences while the published boot time steps by 0/+-1/+-2/3600 s.",
 "C20": " Also: for a queryable PID 0 that the OpenBSD kernel does not list, AccessDenied is the only accepted translation of an unexplained error; records without a computable broadcast address placed right after one with.",
 "C10": " Also: counters changing while a device is unplugged, the kernel listing the same devices in another order (order derived from the counters), roots where the wrap was seen on a later snapshot, a schedule scenario with two disk_io_counters() callers.",
}

ALT_NOTE = (" Second configuration: the whole check is run once more (shorter histories for the expensive searches) in a "
            "python -O interpreter with procfs mounted at /hostproc (psutil.PROCFS_PATH; nothing answers under /proc) and PSUTIL_DEBUG on.")
ALT_IDS = {"C01", "C02", "C03", "C04", "C05", "C06", "C07", "C08", "C09", "C10", "C11", "C12", "C13", "C14", "C15", "C16", "C18", "C19"}
ADDED7 = {
 "C01": " A clock variant (wall-clock steps, boot_time()/cpu_stats() between death and recycling).",
 "C02": " Events for other system-wide functions reading the same tables (cpu_stats, cpu_times, cpu_count); comparisons with objects of other types; subclass instances among the held objects.",
 "C03": " Objects that have answered before the faulted call; a zombie subject whose name contains ') R ('.",
 "C04": " attrs given as tuple / set / empty collection; a pid above the default pid_max of 32768.",
 "C05": " The fault part also has a MUST set (relatives not behind the vanished process stay); wait() called before the pid is recycled.",
 "C06": " Names under filesystem encodings ascii / latin-1 / utf-8; long-named zombies.",
 "C07": " Process.cpu_percent() sequences rotate plain, psutil.Popen and subclass objects and hostile process names.",
 "C08": " Page sizes of 16 and 64 KiB on the fallback path; /proc/vmstat unreadable (EACCES).",
 "C09": " 4K-native drives (sysfs sector-size files present); an interface wrapped, replaced by another one and re-created.",
 "C11": " Schedule part: system-wide and per-process calls overlapping in two threads (<= 1-2 pre-emptions).",
 "C12": " Inside one oneshot() block answers do not depend on what the caller did to earlier answers; PROCFS_PATH re-pointed after the object was created.",
 "C13": " Repeated memory_maps()/memory_full_info() inside one block; memory_percent() after MemTotal changed; PROCFS_PATH re-pointed after object creation.",
 "C14": " PROCFS_PATH re-pointed after object creation.",
 "C15": " Process objects built on a thread id.",
 "C16": " An exception striking while the block is being entered.",
 "C17": " The shim's ioctl rejects dead descriptors; value violations carry the worker's call history.",
 "C18": " After fork() the child configures itself through Process(); PSUTIL_DEBUG=1 with an unwritable stderr.",
 "C19": " Several fan chips in either nesting; a second cpu_freq() call after the limits changed.",
 "C20": " System-wide connection records owned by pid 0; SunOS threads() when the process died after the first thread was read.",
}

NOT_YET = {
}

def main():
    props = [json.loads(l) for l in open(os.path.join(HERE, "properties.jsonl"))]
    checks, na = [], []
    for p in props:
        i = p["id"]
        c = CHECKS.get(i)
        if c is None:
            na.append({"property_id": i, "reason": NOT_YET.get(i, "check not built yet in this round (planned: see DESIGN.md §4); not claimed until it runs green on the unchanged tree")})
            continue
        checks.append({
            "property_id": i,
            "quick_cmd": "./check %s --tier quick" % i,
            "thorough_cmd": "./check %s --tier thorough" % i,
            "evidence_file": "/verif/evidence/%s.json" % i,
            "replay_cmd_template": "./check %s --replay {path}" % i,
            "engine": c["engine"],
            "level_claimed": {"category": c["level"], "text": c["text"] + ADDED.get(i, "") + ADDED7.get(i, "") + (ALT_NOTE if i in ALT_IDS else ""), "design_ref": c["ref"]},
            "level_note": c["note"],
            "technique": c["technique"],
        })
    m = {
        "version": 1,
        "setup_cmd": "./setup.sh",
        "hooks": {
            "guard": "PSUTIL_VERIF",
            "enable": "no source hooks are needed: the checks rebind psutil's module-level OS names (os, glob, time, resource, open, cext, cext_posix) from outside after importing a staged copy of /repo's working tree; the guard name is reserved and unused",
            "baseline_off_cmd": BASE,
            "source_commits": [],
            "add_only": True,
        },
        "engines": [
            {"name": "H", "path": "vf/explore/history.py", "serves_properties": ["C01", "C02", "C04", "C10", "C16"],
             "kind_free_text": "explicit-state breadth-first search over event histories; every transition re-executes the real code (replay from the initial state), states canonicalised and de-duplicated, parallel per level"},
            {"name": "S", "path": "vf/explore/sched.py", "serves_properties": ["C16", "C10", "C07", "C04"],
             "kind_free_text": "stateless exploration of thread interleavings of the real code: real threads under a baton scheduler, sys.settrace line points + simulated-kernel accesses + cooperative locks, CHESS-style iterative pre-emption bounding, replay-checked"},
            {"name": "F", "path": "vf/explore/deviate.py", "serves_properties": ["C03", "C14", "C15", "C19", "C20"],
             "kind_free_text": "deviation-bounded exhaustive fault enumeration over the OS accesses of the real code (stateless, replay-checked)"},
            {"name": "simk", "path": "vf/simk/", "serves_properties": [c for c in CHECKS],
             "kind_free_text": "simulated Linux kernel (process table, /proc + /sys renderers, syscalls) behind psutil's module-level seams"},
        ],
        "checks": checks,
        "not_applicable": na,
        "notes": "All checks: stage /repo's working tree into /var/tmp, rebuild both C extensions there, explore in a child interpreter importing the staged copy; exit 0 held / 1 VIOLATION / 2 machinery failure. known_findings.txt lists recorded genuine defects.",
    }
    json.dump(m, open(os.path.join(HERE, "MANIFEST.json"), "w"), indent=1)
    print("MANIFEST.json: %d checks, %d not_applicable" % (len(checks), len(na)))

main()
