#!/usr/bin/env python3
"""Regenerates MANIFEST.json from the table below (kept valid at all times)."""
import json, os
HERE = os.path.dirname(os.path.abspath(__file__))
BASE = "cd /repo && /venv/bin/python -m pytest -ra -q -p no:cacheprovider --timeout=900 --continue-on-collection-errors"

CHECKS = {
 "C10": dict(level="model_checking", engine="H",
   technique="explicit-state BFS over raw-counter histories through the public functions (real code over a simulated kernel) against a reference accumulator; non-initial root states",
   text="All histories (depth 6-7 per function, 4-5 for both functions interleaved, also started from states that already carry a wrap reminder) of raw counter changes including decreases, devices unplugged/re-plugged (two pluggable NICs, a disk and a partition), cache_clear(), and calls with every nowrap x per-device combination; every returned value is compared with a reference accumulator (raw + sum of previous values at each decrease since (re)appearance/clear), totals with the field-wise sum, and monotonicity is checked independently of the reference.",
   note="'Went backwards'/'disappeared' are as observed between successive nowrap=True calls of the same function; counters take values {1,5,9}; untouched fields carry distinct constants.",
   ref="DESIGN.md §4 C10"),
 "C16": dict(level="model_checking", engine="H+S",
   technique="explicit-state BFS over oneshot/as_dict event histories + stateless pre-emption-bounded exploration of real thread interleavings (baton scheduler, line-level points)",
   text="H: all histories (depth 5-6) of enter/exit/exit-by-exception/nested enter/9-14 method calls/source version bumps/zombie/deny/vanish/10 as_dict forms on one object, against a reference per-block cache of first-read versions (values, read counts per source per block, validation-before-query, ad_value, NoSuchProcess propagation). S: 5 two/three-thread programs (block owner vs plain callers, as_dict vs plain, block vs block) under a cooperative scheduler with scheduling points at every source line of the memoize wrapper/oneshot/as_dict code, every simulated OS access and every lock operation; every schedule with <= 2 (thorough 3) pre-emptions is executed; each read yields a new version so each returned value names its read; oracle: no exception/deadlock, value read inside the allowed window, block owner reads each source at most once.",
   note="Pure-Python state under the GIL: accesses between scheduling points are atomic, so line-level points on the code that touches the shared cache cover all interleavings up to the bound (opcode-level points for two scenarios in the thorough tier). statm is not one of the cached shared sources.",
   ref="DESIGN.md §4 C16"),
 "C01": dict(level="model_checking", engine="H",
   technique="explicit-state BFS over process-lifetime event histories, every transition executed on the real code in a simulated kernel; syscall log as oracle",
   text="All histories (to the stated depth) over kernel events spawn/exit(zombie)/reap/die on 1-2 recyclable pids and user events new/is_running/name/ppid/process_iter/10 signal+setter actions on up to 2 held objects; after every event the simulated kernel's log of delivered kill/setpriority/ioprio_set/sched_setaffinity/prlimit calls is checked: nothing with pid<=0, exact pid and value, delivered only to the incarnation the object was created for, NoSuchProcess and no delivery when the pid belongs to another incarnation. Plus an exhaustive list of non-positive/out-of-range pids.",
   note="Kernel events happen between API calls (the identity-check/kill TOCTOU inside one call is inherent to POSIX pids); a recycled pid's new owner starts at a later jiffy; canonical state = relabelled incarnations + every mutable field of held objects, _pmap, _pids_reused.",
   ref="DESIGN.md §4 C01"),
 "C02": dict(level="model_checking", engine="H",
   technique="explicit-state BFS over histories incl. wall-clock steps, real code in a simulated kernel; reference identity (pid, incarnation)",
   text="All histories over spawn/die(/exit/reap)/tick100/clock step +-1 s and new/is_running/process_iter/boot_time()/create_time() with up to 2-3 held objects; after every event ==, != and hash() of every pair of held objects are compared with the reference identity, hash stability is checked, and every is_running() answer is compared with whether the object's incarnation is still in the table.",
   note="Numeric canonical state (start jiffies, published btime, cached BOOT_TIME, every identity tuple); clock steps of +-1 s at 100 ticks/s make the adversarial alignment reachable.",
   ref="DESIGN.md §4 C02"),
 "C04": dict(level="model_checking", engine="H",
   technique="explicit-state BFS over process-table histories with partially consumed generators; real code in a simulated kernel; reference cache model",
   text="All histories over spawn/zombie/reap/die on 2-3 pids, thread creation, full process_iter(attrs) iterations, up to 1-2 partially consumed generators with kernel events between next() calls, cache_clear() and is_running() on yielded objects; pids() and pid_exists(n) (n in {-1,0,each pid,a thread id,absent,2^31-1,2^31,2^64}) are evaluated in every reached state; iterations are checked for order, coverage, info keys and object identity against a reference cache.",
   note="Object identity across iterations is required only between complete iterations not overlapping a live generator; a cached entry whose pid was recycled without notice may be yielded stale (documented psutil behaviour).",
   ref="DESIGN.md §4 C04"),
 "C03": dict(level="fault_enumeration", engine="F",
   technique="exhaustive deviation-bounded fault enumeration (every OS access x {vanish, zombie, EACCES, EPERM}, all pairs) of the real code inside a simulated kernel",
   text="Every Process query operation (43 methods/forms, as_dict whole and per attribute, children/parent/parents, is_running, str, process_iter) is executed on the real psutil code inside the simulated kernel; the 0-deviation run fixes the list of OS accesses, then every single fault at every access and every pair of faults (first anywhere, second at any later access of the re-run) is executed and judged: only NoSuchProcess/ZombieProcess/AccessDenied with the right pid and explained by the injected fault, values equal to what the process really had, and NoSuchProcess from every later query once the process is gone.",
   note="Trusts simk's liveness table (live/zombie/reaped x access -> errno/empty/content), calibrated against this machine's kernel; kernel events are atomic w.r.t. one OS access; one subject process layout.",
   ref="DESIGN.md §4 C03"),
}

NOT_YET = {
}

def main():
    props = [json.loads(l) for l in open(os.path.join(HERE, "properties.jsonl"))]
    checks, na = [], []
    for p in props:
        i = p["id"]
        c = CHECKS.get(i)
        if c is None:
            na.append({"property_id": i, "reason": NOT_YET.get(i, "check not built yet in this round (planned: see DESIGN.md §4); not claimed until it runs green on the unchanged tree")})
            continue
        checks.append({
            "property_id": i,
            "quick_cmd": "./check %s --tier quick" % i,
            "thorough_cmd": "./check %s --tier thorough" % i,
            "evidence_file": "/verif/evidence/%s.json" % i,
            "replay_cmd_template": "./check %s --replay {path}" % i,
            "engine": c["engine"],
            "level_claimed": {"category": c["level"], "text": c["text"], "design_ref": c["ref"]},
            "level_note": c["note"],
            "technique": c["technique"],
        })
    m = {
        "version": 1,
        "setup_cmd": "./setup.sh",
        "hooks": {
            "guard": "PSUTIL_VERIF",
            "enable": "no source hooks are needed: the checks rebind psutil's module-level OS names (os, glob, time, resource, open, cext, cext_posix) from outside after importing a staged copy of /repo's working tree; the guard name is reserved and unused",
            "baseline_off_cmd": BASE,
            "source_commits": [],
            "add_only": True,
        },
        "engines": [
            {"name": "H", "path": "vf/explore/history.py", "serves_properties": ["C01", "C02", "C04", "C10", "C16"],
             "kind_free_text": "explicit-state breadth-first search over event histories; every transition re-executes the real code (replay from the initial state), states canonicalised and de-duplicated, parallel per level"},
            {"name": "S", "path": "vf/explore/sched.py", "serves_properties": ["C16", "C10", "C07", "C04"],
             "kind_free_text": "stateless exploration of thread interleavings of the real code: real threads under a baton scheduler, sys.settrace line points + simulated-kernel accesses + cooperative locks, CHESS-style iterative pre-emption bounding, replay-checked"},
            {"name": "F", "path": "vf/explore/deviate.py", "serves_properties": ["C03", "C14", "C15", "C19", "C20"],
             "kind_free_text": "deviation-bounded exhaustive fault enumeration over the OS accesses of the real code (stateless, replay-checked)"},
            {"name": "simk", "path": "vf/simk/", "serves_properties": [c for c in CHECKS],
             "kind_free_text": "simulated Linux kernel (process table, /proc + /sys renderers, syscalls) behind psutil's module-level seams"},
        ],
        "checks": checks,
        "not_applicable": na,
        "notes": "All checks: stage /repo's working tree into /var/tmp, rebuild both C extensions there, explore in a child interpreter importing the staged copy; exit 0 held / 1 VIOLATION / 2 machinery failure. known_findings.txt lists recorded genuine defects.",
    }
    json.dump(m, open(os.path.join(HERE, "MANIFEST.json"), "w"), indent=1)
    print("MANIFEST.json: %d checks, %d not_applicable" % (len(checks), len(na)))

main()
