#!/usr/bin/env python3
"""Regenerates MANIFEST.json from the table below (kept valid at all times)."""
import json, os
HERE = os.path.dirname(os.path.abspath(__file__))
BASE = "cd /repo && /venv/bin/python -m pytest -ra -q -p no:cacheprovider --timeout=900 --continue-on-collection-errors"

CHECKS = {
 "C06": dict(level="exploration", engine="I",
   technique="bounded-exhaustive enumeration of kernel-formatted inputs rendered by an independent simulated kernel, real parser code, reference decoder",
   text="Every process/thread name that is a string of <= 3 (thorough 4) tokens over an alphabet containing the parsers' own delimiters ('(' ')' blank newline tab backslash non-UTF-8, 2-byte UTF-8, 'Uid:\\t7\\t7\\t7', 'Gid:...', 'Threads:...', ') S 1 ') within 15 bytes, 15-byte truncations, every boundary value of each numeric stat/status field, every state letter, short (44/41-field) records and 1-3 threads with their own names are rendered into stat/status/task files exactly as fs/proc/array.c does and queried through 12 Process methods; the oracle is the abstract facts the record was rendered from.",
   note='simk renders the name raw in stat and escapes only \\n and \\\\ in status (kernel behaviour); unmapped state letters are not judged.',
   ref="DESIGN.md §4 C06"),
 "C07": dict(level="exploration", engine="I",
   technique="bounded-exhaustive enumeration of kernel-formatted inputs rendered by an independent simulated kernel, real parser code, reference decoder",
   text='cpu_times (1-3 CPUs x 7-10 fields x boundary counters); every pair of snapshots whose per-field tick deltas form the complete {0,1,50} product (7-10 fields) or any pair of fields over {-5,0,1,7,50,10^6}, under the kernel invariant guest<=user, through cpu_percent and cpu_times_percent in blocking (virtual sleep) and non-blocking, system-wide and per-CPU forms; Process.cpu_percent over all blocking/non-blocking 3-call sequences on (dproc,dwall) grids with 1 and 16 CPUs and negative intervals.',
   note='Shares are compared with the exact quotient within 0.05 (one decimal); 100 ticks/s; virtual clock. Thread-keyed previous samples (schedules) are not yet explored.',
   ref="DESIGN.md §4 C07"),
 "C08": dict(level="exploration", engine="I",
   technique="bounded-exhaustive enumeration of kernel-formatted inputs rendered by an independent simulated kernel, real parser code, reference decoder",
   text='All 2^14 subsets of the optional /proc/meminfo keys for 3 (thorough 6) value regimes (normal, container-distorted cached+buffers>total and available>total, MemAvailable=0, total=0, free>total, below the low watermark) plus zoneinfo {absent,1,3 zones,huge} and vmstat {both,absent,one,neither,reversed} variants; every field, the used/available clamps, percent, the fallback estimate (re-implemented from kernel commit 34e431b0ae) and the set of metric names in the RuntimeWarning are compared with a reference written from the statement.',
   note='When the estimate falls outside [0,total] any clamped value inside [0,total] is accepted.',
   ref="DESIGN.md §4 C08"),
 "C09": dict(level="exploration", engine="I",
   technique="bounded-exhaustive enumeration of kernel-formatted inputs rendered by an independent simulated kernel, real parser code, reference decoder",
   text="/proc/net/dev with 0-3 interfaces (names with ':' '.' 15 chars) and every counter column at every boundary; /proc/diskstats in all five line layouts (14/18/20/7/15 fields) x all sets of <= 2 (thorough 4) devices from 14 names whose whole-disk status is given by /sys/block (incl. prefix-sharing names sda/sdaa, loop1/loop10, md1/md10, cciss/c0d0) with distinct prime-scaled columns; per-device, totals and empty conventions; disk_usage over a 5^3 statvfs grid x (frsize,bsize) pairs.",
   note="15-field (2.4) layout: psutil's in-code description is the only specification available.",
   ref="DESIGN.md §4 C09"),
 "C11": dict(level="exploration", engine="I",
   technique="bounded-exhaustive enumeration of kernel-formatted inputs rendered by an independent simulated kernel, real parser code, reference decoder + fd-closing fault enumeration",
   text='Socket tables rendered from network-order address bytes: every (local, remote) address x port combination for tcp/udp/tcp6/udp6, all 11 TCP states, UNIX sockets of 3 types x 6 paths (none, abstract, with space, with colon, non-ASCII) x 5 holder sets (none, one, two fds, two processes), all multisets of <= 2 (thorough 3) sockets from a 6-entry menu x all 11 kinds, IPv6 tables absent, 8 invalid kinds; system-wide and per-process forms; plus every descriptor closing before every access of the fd scan.',
   note='Rows compared as sets; a shared inet socket may be attributed to any of its holders; newline in a UNIX path is outside the alphabet.',
   ref="DESIGN.md §4 C11"),
 "C12": dict(level="exploration", engine="I",
   technique="bounded-exhaustive enumeration of kernel-formatted inputs rendered by an independent simulated kernel, real parser code, reference decoder",
   text="All argv lists of <= 2 (thorough 3) items over {'', a, 'a b', /bin/x, \\xff, -c} in the three kernel layouts (NUL-separated, title overwritten with blanks, blanks + trailing NUL), zombie; all environment blocks of <= 3 (4) entries over 8 entry shapes incl. duplicates, '=' in values, missing '=', empty entry + trailing garbage; exe/cwd link targets (plain, ' (deleted)' with/without the suffixed file existing, NUL garbage, with blank, withheld) x state (ok, denied, gone) x 7 cmdlines for the exe fallback incl. cache check; (comm, argv[0]) pairs for 14/15-byte names x state.",
   note="A single NUL-terminated argument containing a blank is indistinguishable from an overwritten title (documented split expected); '=v' may be reported or ignored.",
   ref="DESIGN.md §4 C12"),
 "C13": dict(level="exploration", engine="I",
   technique="bounded-exhaustive enumeration of kernel-formatted inputs rendered by an independent simulated kernel, real parser code, reference decoder",
   text="statm boundary values; all lists of <= 2 (thorough 3) mappings over 9 paths (none, repeated path, blank, colon, ' (deleted)' stale and literal, [heap], non-UTF-8) x 3 roll-up modes (smaps_rollup present, ENOENT fallback, kernel without roll-up); all subsets of 6 optional smaps lines; figures up to tens of TB; memory_percent for every field and 7 invalid names x 3 totals; reference = sums over the mapping list.",
   note='smaps rendered like fs/proc/task_mmu.c; roll-up = field-wise sums.',
   ref="DESIGN.md §4 C13"),
 "C14": dict(level="exploration", engine="I",
   technique="bounded-exhaustive enumeration of kernel-formatted inputs rendered by an independent simulated kernel, real parser code, reference decoder + fd-closing fault enumeration",
   text="One descriptor x all 256 flag words (4 access modes x 6 flag bits), each descriptor kind x boundary offsets, all tables of <= 3 (4) descriptors over 9-10 kinds (regular, deleted, '(deleted)' stale/literal, socket, pipe, anon inode, device, relative, directory); /proc/<pid>/io with blank/garbage/unknown/double-separator lines at every position and permuted order; every descriptor closing before every access of the scan (singles and pairs).",
   note="Access mode 3: any of the five mode strings accepted, failure is not; 'X (deleted)' where only X exists: psutil's documented heuristic accepted.",
   ref="DESIGN.md §4 C14"),
 "C10": dict(level="model_checking", engine="H",
   technique="explicit-state BFS over raw-counter histories through the public functions (real code over a simulated kernel) against a reference accumulator; non-initial root states",
   text="All histories (depth 6-7 per function, 4-5 for both functions interleaved, also started from states that already carry a wrap reminder) of raw counter changes including decreases, devices unplugged/re-plugged (two pluggable NICs, a disk and a partition), cache_clear(), and calls with every nowrap x per-device combination; every returned value is compared with a reference accumulator (raw + sum of previous values at each decrease since (re)appearance/clear), totals with the field-wise sum, and monotonicity is checked independently of the reference.",
   note="'Went backwards'/'disappeared' are as observed between successive nowrap=True calls of the same function; counters take values {1,5,9}; untouched fields carry distinct constants.",
   ref="DESIGN.md §4 C10"),
 "C16": dict(level="model_checking", engine="H+S",
   technique="explicit-state BFS over oneshot/as_dict event histories + stateless pre-emption-bounded exploration of real thread interleavings (baton scheduler, line-level points)",
   text="H: all histories (depth 5-6) of enter/exit/exit-by-exception/nested enter/9-14 method calls/source version bumps/zombie/deny/vanish/10 as_dict forms on one object, against a reference per-block cache of first-read versions (values, read counts per source per block, validation-before-query, ad_value, NoSuchProcess propagation). S: 5 two/three-thread programs (block owner vs plain callers, as_dict vs plain, block vs block) under a cooperative scheduler with scheduling points at every source line of the memoize wrapper/oneshot/as_dict code, every simulated OS access and every lock operation; every schedule with <= 2 (thorough 3) pre-emptions is executed; each read yields a new version so each returned value names its read; oracle: no exception/deadlock, value read inside the allowed window, block owner reads each source at most once.",
   note="Pure-Python state under the GIL: accesses between scheduling points are atomic, so line-level points on the code that touches the shared cache cover all interleavings up to the bound (opcode-level points for two scenarios in the thorough tier). statm is not one of the cached shared sources.",
   ref="DESIGN.md §4 C16"),
 "C01": dict(level="model_checking", engine="H",
   technique="explicit-state BFS over process-lifetime event histories, every transition executed on the real code in a simulated kernel; syscall log as oracle",
   text="All histories (to the stated depth) over kernel events spawn/exit(zombie)/reap/die on 1-2 recyclable pids and user events new/is_running/name/ppid/process_iter/10 signal+setter actions on up to 2 held objects; after every event the simulated kernel's log of delivered kill/setpriority/ioprio_set/sched_setaffinity/prlimit calls is checked: nothing with pid<=0, exact pid and value, delivered only to the incarnation the object was created for, NoSuchProcess and no delivery when the pid belongs to another incarnation. Plus an exhaustive list of non-positive/out-of-range pids.",
   note="Kernel events happen between API calls (the identity-check/kill TOCTOU inside one call is inherent to POSIX pids); a recycled pid's new owner starts at a later jiffy; canonical state = relabelled incarnations + every mutable field of held objects, _pmap, _pids_reused.",
   ref="DESIGN.md §4 C01"),
 "C02": dict(level="model_checking", engine="H",
   technique="explicit-state BFS over histories incl. wall-clock steps, real code in a simulated kernel; reference identity (pid, incarnation)",
   text="All histories over spawn/die(/exit/reap)/tick100/clock step +-1 s and new/is_running/process_iter/boot_time()/create_time() with up to 2-3 held objects; after every event ==, != and hash() of every pair of held objects are compared with the reference identity, hash stability is checked, and every is_running() answer is compared with whether the object's incarnation is still in the table.",
   note="Numeric canonical state (start jiffies, published btime, cached BOOT_TIME, every identity tuple); clock steps of +-1 s at 100 ticks/s make the adversarial alignment reachable.",
   ref="DESIGN.md §4 C02"),
 "C04": dict(level="model_checking", engine="H",
   technique="explicit-state BFS over process-table histories with partially consumed generators; real code in a simulated kernel; reference cache model",
   text="All histories over spawn/zombie/reap/die on 2-3 pids, thread creation, full process_iter(attrs) iterations, up to 1-2 partially consumed generators with kernel events between next() calls, cache_clear() and is_running() on yielded objects; pids() and pid_exists(n) (n in {-1,0,each pid,a thread id,absent,2^31-1,2^31,2^64}) are evaluated in every reached state; iterations are checked for order, coverage, info keys and object identity against a reference cache.",
   note="Object identity across iterations is required only between complete iterations not overlapping a live generator; a cached entry whose pid was recycled without notice may be yielded stale (documented psutil behaviour).",
   ref="DESIGN.md §4 C04"),
 "C03": dict(level="fault_enumeration", engine="F",
   technique="exhaustive deviation-bounded fault enumeration (every OS access x {vanish, zombie, EACCES, EPERM}, all pairs) of the real code inside a simulated kernel",
   text="Every Process query operation (43 methods/forms, as_dict whole and per attribute, children/parent/parents, is_running, str, process_iter) is executed on the real psutil code inside the simulated kernel; the 0-deviation run fixes the list of OS accesses, then every single fault at every access and every pair of faults (first anywhere, second at any later access of the re-run) is executed and judged: only NoSuchProcess/ZombieProcess/AccessDenied with the right pid and explained by the injected fault, values equal to what the process really had, and NoSuchProcess from every later query once the process is gone.",
   note="Trusts simk's liveness table (live/zombie/reaped x access -> errno/empty/content), calibrated against this machine's kernel; kernel events are atomic w.r.t. one OS access; one subject process layout.",
   ref="DESIGN.md §4 C03"),
}

NOT_YET = {
}

def main():
    props = [json.loads(l) for l in open(os.path.join(HERE, "properties.jsonl"))]
    checks, na = [], []
    for p in props:
        i = p["id"]
        c = CHECKS.get(i)
        if c is None:
            na.append({"property_id": i, "reason": NOT_YET.get(i, "check not built yet in this round (planned: see DESIGN.md §4); not claimed until it runs green on the unchanged tree")})
            continue
        checks.append({
            "property_id": i,
            "quick_cmd": "./check %s --tier quick" % i,
            "thorough_cmd": "./check %s --tier thorough" % i,
            "evidence_file": "/verif/evidence/%s.json" % i,
            "replay_cmd_template": "./check %s --replay {path}" % i,
            "engine": c["engine"],
            "level_claimed": {"category": c["level"], "text": c["text"], "design_ref": c["ref"]},
            "level_note": c["note"],
            "technique": c["technique"],
        })
    m = {
        "version": 1,
        "setup_cmd": "./setup.sh",
        "hooks": {
            "guard": "PSUTIL_VERIF",
            "enable": "no source hooks are needed: the checks rebind psutil's module-level OS names (os, glob, time, resource, open, cext, cext_posix) from outside after importing a staged copy of /repo's working tree; the guard name is reserved and unused",
            "baseline_off_cmd": BASE,
            "source_commits": [],
            "add_only": True,
        },
        "engines": [
            {"name": "H", "path": "vf/explore/history.py", "serves_properties": ["C01", "C02", "C04", "C10", "C16"],
             "kind_free_text": "explicit-state breadth-first search over event histories; every transition re-executes the real code (replay from the initial state), states canonicalised and de-duplicated, parallel per level"},
            {"name": "S", "path": "vf/explore/sched.py", "serves_properties": ["C16", "C10", "C07", "C04"],
             "kind_free_text": "stateless exploration of thread interleavings of the real code: real threads under a baton scheduler, sys.settrace line points + simulated-kernel accesses + cooperative locks, CHESS-style iterative pre-emption bounding, replay-checked"},
            {"name": "F", "path": "vf/explore/deviate.py", "serves_properties": ["C03", "C14", "C15", "C19", "C20"],
             "kind_free_text": "deviation-bounded exhaustive fault enumeration over the OS accesses of the real code (stateless, replay-checked)"},
            {"name": "simk", "path": "vf/simk/", "serves_properties": [c for c in CHECKS],
             "kind_free_text": "simulated Linux kernel (process table, /proc + /sys renderers, syscalls) behind psutil's module-level seams"},
        ],
        "checks": checks,
        "not_applicable": na,
        "notes": "All checks: stage /repo's working tree into /var/tmp, rebuild both C extensions there, explore in a child interpreter importing the staged copy; exit 0 held / 1 VIOLATION / 2 machinery failure. known_findings.txt lists recorded genuine defects.",
    }
    json.dump(m, open(os.path.join(HERE, "MANIFEST.json"), "w"), indent=1)
    print("MANIFEST.json: %d checks, %d not_applicable" % (len(checks), len(na)))

main()
