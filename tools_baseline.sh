#!/bin/sh
# usage: tools_baseline.sh <repo dir>   -- run the pinned baseline in <repo dir>, compare with BASELINE.json stable_pass
# TestFetchAllProcesses::test_all (not in stable_pass; it hangs for 900 s in this sandbox) is deselected.
# (builds the extension in place if missing). Exit 0 iff every stable_pass test passed.
D=${1:-/repo}
cd "$D" || exit 2
if ! ls psutil/_psutil_linux*.so >/dev/null 2>&1; then
  /venv/bin/python setup.py build_ext -i >/dev/null 2>&1 || { echo "BUILD FAILED"; exit 2; }
fi
J=$(mktemp /var/tmp/junit.XXXXXX.xml)
timeout -k 5 ${BASELINE_TIMEOUT:-300} /venv/bin/python -m pytest -ra -q -p no:cacheprovider --timeout=900 --continue-on-collection-errors --deselect psutil/tests/test_process_all.py::TestFetchAllProcesses::test_all --junitxml=$J >/dev/null 2>&1
/venv/bin/python - "$J" <<'PY'
import json,sys,xml.etree.ElementTree as ET
b=json.load(open('/root/.vp/BASELINE.json'))
want=set(b['stable_pass'])
t=ET.parse(sys.argv[1])
passed=set()
for tc in t.iter('testcase'):
    if not any(ch.tag in ('failure','error','skipped') for ch in tc):
        passed.add(tc.get('classname')+'::'+tc.get('name'))
missing=sorted(want-passed)
print("baseline: %d/%d stable tests pass"%(len(want)-len(missing),len(want)))
for m in missing[:20]: print("  NOT PASSING:",m)
sys.exit(1 if missing else 0)
PY
rc=$?
rm -f $J
exit $rc
