#!/bin/sh
# usage: tools_baseline.sh <repo dir>   -- run the pinned baseline in <repo dir>, compare with BASELINE.json stable_pass
# TestFetchAllProcesses::test_all (not in stable_pass; it hangs for 900 s in this sandbox) is deselected.
# (builds the extension in place if missing). Exit 0 iff every stable_pass test passed.
D=${1:-/repo}
cd "$D" || exit 2
if ! ls psutil/_psutil_linux*.so >/dev/null 2>&1; then
  /venv/bin/python setup.py build_ext -i >/dev/null 2>&1 || { echo "BUILD FAILED"; exit 2; }
fi
J=$(mktemp /var/tmp/junit.XXXXXX.xml)
timeout -k 5 ${BASELINE_TIMEOUT:-300} /venv/bin/python -m pytest -ra -q -p no:cacheprovider --timeout=900 --continue-on-collection-errors --deselect psutil/tests/test_process_all.py::TestFetchAllProcesses::test_all --junitxml=$J >/dev/null 2>&1
/venv/bin/python - "$J" <<'PY'
import json,sys,xml.etree.ElementTree as ET
b=json.load(open('/root/.vp/BASELINE.json'))
want=set(b['stable_pass'])
t=ET.parse(sys.argv[1])
passed=set()
for tc in t.iter('testcase'):
    if not any(ch.tag in ('failure','error','skipped') for ch in tc):
        passed.add(tc.get('classname')+'::'+tc.get('name'))
missing=sorted(want-passed)
if missing and len(missing) <= 12:
    # other jobs on this machine disturb a few socket/process tests: re-run the non-passing ones alone
    import subprocess
    still=[]
    for m in missing:
        mod,_,rest=m.partition('::')
        parts=mod.split('.')
        node='/'.join(parts[:-1])+'.py::'+parts[-1]+'::'+rest
        ok=False
        for attempt in range(2):
            r=subprocess.run(['/venv/bin/python','-m','pytest','-q','-p','no:cacheprovider','--timeout=300',node],capture_output=True,text=True)
            if r.returncode==0: ok=True; break
        if not ok: still.append(m)
    print("re-ran %d non-passing tests alone: %d still failing"%(len(missing),len(still)))
    missing=still
print("baseline: %d/%d stable tests pass"%(len(want)-len(missing),len(want)))
for m in missing[:20]: print("  NOT PASSING:",m)
sys.exit(1 if missing else 0)
PY
rc=$?
rm -f $J
exit $rc
