/*
 * ifshim.so -- LD_PRELOAD shim used by check C17 (part D).
 *
 * When the environment variable VF_IFSHIM names a description file, the
 * interface list seen by the process is the one written in that file:
 *   getifaddrs()/freeifaddrs()                      -> the "A" lines, in file order
 *   ioctl(SIOCGIFMTU | SIOCGIFFLAGS | SIOCETHTOOL)  -> the "I" line of ifr_name
 * Everything else (and everything when VF_IFSHIM is unset) is passed through
 * to the next definition (dlsym(RTLD_NEXT)).  The file is re-read on every
 * call, so a worker can rewrite it between cases.
 *
 * File format (one record per line, fields separated by single spaces):
 *   I <name> <mtu> <flags> <eth>
 *        <mtu>   = decimal int          | E<errno>
 *        <flags> = decimal (short) int  | E<errno>
 *        <eth>   = <duplex>,<speed>,<speed_hi> (decimal) | E<errno>
 *   A <name> <ifa_flags> <addr> <netmask> <ifu>
 *        <addr>/<netmask>/<ifu> = '-' (NULL pointer) or the raw bytes of the
 *        sockaddr in hex.  Each one is malloc()ed with EXACTLY that many bytes
 *        (so that AddressSanitizer sees any read past it); <ifu> is the
 *        ifa_broadaddr/ifa_dstaddr union member.
 * An interface name not described by an "I" line answers ENODEV.
 */
#define _GNU_SOURCE
#include <dlfcn.h>
#include <errno.h>
#include <ifaddrs.h>
#include <stdarg.h>
#include <stdio.h>
#include <stdlib.h>
#include <string.h>
#include <sys/ioctl.h>
#include <sys/socket.h>
#include <sys/stat.h>
#include <net/if.h>
#include <linux/sockios.h>
#include <linux/ethtool.h>

#define LINE_MAX_ 8192

static const char *desc_path(void) {
    const char *p = getenv("VF_IFSHIM");
    if (p == NULL || *p == '\0')
        return NULL;
    return p;
}

static int hexval(int c) {
    if (c >= '0' && c <= '9') return c - '0';
    if (c >= 'a' && c <= 'f') return c - 'a' + 10;
    if (c >= 'A' && c <= 'F') return c - 'A' + 10;
    return -1;
}

/* '-' -> NULL (ok), hex -> exact-size malloc; returns 0 ok, -1 error */
static int parse_sa(const char *tok, struct sockaddr **out) {
    size_t n, i;
    unsigned char *buf;
    *out = NULL;
    if (strcmp(tok, "-") == 0)
        return 0;
    n = strlen(tok);
    if (n == 0 || (n % 2) != 0)
        return -1;
    buf = malloc(n / 2);
    if (buf == NULL)
        return -1;
    for (i = 0; i < n / 2; i++) {
        int a = hexval(tok[2 * i]), b = hexval(tok[2 * i + 1]);
        if (a < 0 || b < 0) {
            free(buf);
            return -1;
        }
        buf[i] = (unsigned char)(a * 16 + b);
    }
    *out = (struct sockaddr *)buf;
    return 0;
}

static void free_list(struct ifaddrs *ifa) {
    while (ifa != NULL) {
        struct ifaddrs *next = ifa->ifa_next;
        free(ifa->ifa_name);
        free(ifa->ifa_addr);
        free(ifa->ifa_netmask);
        free(ifa->ifa_ifu.ifu_broadaddr);
        free(ifa);
        ifa = next;
    }
}

int getifaddrs(struct ifaddrs **ifap) {
    static int (*real)(struct ifaddrs **) = NULL;
    const char *path = desc_path();
    FILE *f;
    char *line;
    struct ifaddrs *head = NULL, *tail = NULL;

    if (path == NULL) {
        if (real == NULL)
            real = dlsym(RTLD_NEXT, "getifaddrs");
        return real(ifap);
    }
    f = fopen(path, "r");
    if (f == NULL) {
        errno = ENOENT;
        return -1;
    }
    line = malloc(LINE_MAX_);
    if (line == NULL) {
        fclose(f);
        errno = ENOMEM;
        return -1;
    }
    while (fgets(line, LINE_MAX_, f) != NULL) {
        char *save = NULL, *t[6];
        int k;
        struct ifaddrs *e;
        if (line[0] != 'A' || line[1] != ' ')
            continue;
        line[strcspn(line, "\n")] = '\0';
        t[0] = strtok_r(line, " ", &save);
        for (k = 1; k < 6; k++)
            t[k] = strtok_r(NULL, " ", &save);
        if (t[5] == NULL)
            goto bad;
        e = calloc(1, sizeof(*e));
        if (e == NULL)
            goto bad;
        if (tail) tail->ifa_next = e; else head = e;
        tail = e;
        e->ifa_name = malloc(strlen(t[1]) + 1);
        if (e->ifa_name == NULL)
            goto bad;
        strcpy(e->ifa_name, t[1]);
        e->ifa_flags = (unsigned int)strtoul(t[2], NULL, 10);
        if (parse_sa(t[3], &e->ifa_addr) || parse_sa(t[4], &e->ifa_netmask)
                || parse_sa(t[5], &e->ifa_ifu.ifu_broadaddr))
            goto bad;
    }
    free(line);
    fclose(f);
    *ifap = head;
    return 0;
bad:
    free(line);
    fclose(f);
    free_list(head);
    errno = EPROTO;   /* malformed description: visible as OSError(EPROTO) */
    return -1;
}

void freeifaddrs(struct ifaddrs *ifa) {
    static void (*real)(struct ifaddrs *) = NULL;
    if (desc_path() == NULL) {
        if (real == NULL)
            real = dlsym(RTLD_NEXT, "freeifaddrs");
        real(ifa);
        return;
    }
    free_list(ifa);
}

/* find the "I" line of `name`; fills the three answer tokens. 1 found, 0 not */
static int find_if(const char *path, const char *name,
                   char *mtu, char *flags, char *eth, size_t toksz) {
    FILE *f = fopen(path, "r");
    char line[1024];
    int found = 0;
    if (f == NULL)
        return 0;
    while (fgets(line, sizeof line, f) != NULL) {
        char *save = NULL, *t[5];
        int k;
        if (line[0] != 'I' || line[1] != ' ')
            continue;
        line[strcspn(line, "\n")] = '\0';
        t[0] = strtok_r(line, " ", &save);
        for (k = 1; k < 5; k++)
            t[k] = strtok_r(NULL, " ", &save);
        if (t[4] == NULL || strcmp(t[1], name) != 0)
            continue;
        snprintf(mtu, toksz, "%s", t[2]);
        snprintf(flags, toksz, "%s", t[3]);
        snprintf(eth, toksz, "%s", t[4]);
        found = 1;
        break;
    }
    fclose(f);
    return found;
}

int ioctl(int fd, unsigned long request, ...) {
    static int (*real)(int, unsigned long, ...) = NULL;
    va_list ap;
    void *arg;
    const char *path;

    va_start(ap, request);
    arg = va_arg(ap, void *);
    va_end(ap);

    path = desc_path();
    if (path != NULL && arg != NULL
            && (request == SIOCGIFMTU || request == SIOCGIFFLAGS
                || request == SIOCETHTOOL)) {
        struct ifreq *ifr = (struct ifreq *)arg;
        char name[IFNAMSIZ + 1];
        char mtu[64], flags[64], eth[64];
        const char *ans;
        struct stat st_;

        /* like the kernel: the descriptor must be an open socket */
        if (fstat(fd, &st_) != 0) {
            errno = EBADF;
            return -1;
        }
        if (!S_ISSOCK(st_.st_mode)) {
            errno = ENOTTY;
            return -1;
        }
        memcpy(name, ifr->ifr_name, IFNAMSIZ);
        name[IFNAMSIZ] = '\0';
        if (!find_if(path, name, mtu, flags, eth, sizeof mtu)) {
            errno = ENODEV;
            return -1;
        }
        ans = request == SIOCGIFMTU ? mtu : request == SIOCGIFFLAGS ? flags : eth;
        if (ans[0] == 'E') {
            errno = atoi(ans + 1);
            return -1;
        }
        if (request == SIOCGIFMTU) {
            ifr->ifr_mtu = (int)strtol(ans, NULL, 10);
        }
        else if (request == SIOCGIFFLAGS) {
            ifr->ifr_flags = (short)strtol(ans, NULL, 10);
        }
        else {
            struct ethtool_cmd *ec = (struct ethtool_cmd *)ifr->ifr_data;
            unsigned int duplex = 0, speed = 0, speed_hi = 0;
            if (ec == NULL) {
                errno = EFAULT;
                return -1;
            }
            if (ec->cmd != ETHTOOL_GSET) {
                errno = EOPNOTSUPP;
                return -1;
            }
            if (sscanf(ans, "%u,%u,%u", &duplex, &speed, &speed_hi) != 3) {
                errno = EPROTO;
                return -1;
            }
            ec->duplex = (__u8)duplex;
            ec->speed = (__u16)speed;
            ec->speed_hi = (__u16)speed_hi;
        }
        return 0;
    }
    if (real == NULL)
        real = dlsym(RTLD_NEXT, "ioctl");
    return real(fd, request, arg);
}

/* ------------------------------------------------------------------------
 * Hand-off points (check C17, part E): libc functions whose result lives in
 * static storage (getmntent, getutent).  A thread that called
 * vf_handoff_arm(k) offers the processor to a partner thread right after its
 * k-th (0-based) call of such a function has returned, i.e. while it holds a
 * pointer into the static buffer, and waits (bounded) until the partner has
 * made one complete call of the same API.  The partner needs the GIL to do
 * that: if the extension still holds it (as it must while it uses the static
 * buffer) the partner cannot move, the wait times out and the outcome is 0
 * ("no such schedule exists"); if the extension released the GIL around the
 * libc call the partner runs, outcome 1, and the armed thread goes on with a
 * buffer the partner has overwritten.
 */
#include <mntent.h>
#include <utmp.h>
#include <semaphore.h>
#include <time.h>

static __thread int vf_armed = -1;
static sem_t vf_go, vf_done;
static int vf_inited = 0;
static volatile int vf_outcome = -1;
static int vf_wait_ms = 300;

void vf_handoff_init(int wait_ms) {
    if (vf_inited) {
        sem_destroy(&vf_go);
        sem_destroy(&vf_done);
    }
    sem_init(&vf_go, 0, 0);
    sem_init(&vf_done, 0, 0);
    vf_inited = 1;
    vf_outcome = -1;
    vf_wait_ms = wait_ms;
}

void vf_handoff_arm(int k) { vf_armed = k; }
int vf_handoff_outcome(void) { return vf_outcome; }
void vf_handoff_release(void) { sem_post(&vf_go); }
void vf_handoff_done(void) { sem_post(&vf_done); }

static int timed_wait(sem_t *s, int ms) {
    struct timespec ts;
    clock_gettime(CLOCK_REALTIME, &ts);
    ts.tv_sec += ms / 1000;
    ts.tv_nsec += (long)(ms % 1000) * 1000000L;
    if (ts.tv_nsec >= 1000000000L) { ts.tv_sec++; ts.tv_nsec -= 1000000000L; }
    for (;;) {
        if (sem_timedwait(s, &ts) == 0) return 0;
        if (errno != EINTR) return -1;
    }
}

/* partner side: called through ctypes (which releases the GIL for the call) */
int vf_handoff_wait(int ms) { return timed_wait(&vf_go, ms); }

static void maybe_handoff(void) {
    if (!vf_inited || vf_armed < 0)
        return;
    if (vf_armed-- > 0)
        return;
    vf_armed = -1;
    sem_post(&vf_go);
    vf_outcome = (timed_wait(&vf_done, vf_wait_ms) == 0) ? 1 : 0;
}

struct mntent *getmntent(FILE *stream) {
    static struct mntent *(*real)(FILE *) = NULL;
    struct mntent *r;
    if (real == NULL)
        real = (struct mntent *(*)(FILE *))dlsym(RTLD_NEXT, "getmntent");
    r = real(stream);
    maybe_handoff();
    return r;
}

struct utmp *getutent(void) {
    static struct utmp *(*real)(void) = NULL;
    struct utmp *r;
    if (real == NULL)
        real = (struct utmp *(*)(void))dlsym(RTLD_NEXT, "getutent");
    r = real();
    maybe_handoff();
    return r;
}

/* ------------------------------------------------------------------------
 * A kernel with more possible CPUs than this machine (check C18, "bigkernel"):
 * when VF_AFFINITY_FILE names a file "<nbits> <cpu> <cpu> ...", sched_getaffinity()
 * answers like a kernel whose nr_cpu_ids is <nbits>: EINVAL when the caller's
 * mask is shorter than that, otherwise exactly the listed CPUs.
 */
#include <sched.h>

int sched_getaffinity(pid_t pid, size_t cpusetsize, cpu_set_t *mask) {
    static int (*real)(pid_t, size_t, cpu_set_t *) = NULL;
    const char *path = getenv("VF_AFFINITY_FILE");
    FILE *f;
    long nbits, cpu;
    if (real == NULL)
        real = (int (*)(pid_t, size_t, cpu_set_t *))dlsym(RTLD_NEXT, "sched_getaffinity");
    if (path == NULL || *path == '\0' || (f = fopen(path, "r")) == NULL)
        return real(pid, cpusetsize, mask);
    if (fscanf(f, "%ld", &nbits) != 1) {
        fclose(f);
        return real(pid, cpusetsize, mask);
    }
    if (cpusetsize * 8 < (size_t)nbits || (cpusetsize & (sizeof(unsigned long) - 1))) {
        fclose(f);
        errno = EINVAL;
        return -1;
    }
    memset(mask, 0, cpusetsize);
    while (fscanf(f, "%ld", &cpu) == 1)
        if (cpu >= 0 && cpu < nbits)
            CPU_SET_S((size_t)cpu, cpusetsize, mask);
    fclose(f);
    return 0;
}

/* The set side of the same simulated kernel (check C18, "bigkernel" set cases): with
 * VF_AFFINITY_FILE naming "<nbits> ...", sched_setaffinity() behaves like a kernel whose
 * nr_cpu_ids is <nbits>: it reads min(cpusetsize, nbits/8) bytes of the caller's mask,
 * treats the rest as zero, fails with EINVAL when no possible CPU is left, and otherwise
 * makes exactly those CPUs the mask that sched_getaffinity() above reports.
 */
int sched_setaffinity(pid_t pid, size_t cpusetsize, const cpu_set_t *mask) {
    static int (*real)(pid_t, size_t, const cpu_set_t *) = NULL;
    const char *path = getenv("VF_AFFINITY_FILE");
    FILE *f;
    long nbits, cpu, n = 0;
    const unsigned char *bytes = (const unsigned char *)mask;
    if (real == NULL)
        real = (int (*)(pid_t, size_t, const cpu_set_t *))dlsym(RTLD_NEXT, "sched_setaffinity");
    if (path == NULL || *path == '\0' || (f = fopen(path, "r")) == NULL)
        return real(pid, cpusetsize, mask);
    if (fscanf(f, "%ld", &nbits) != 1) {
        fclose(f);
        return real(pid, cpusetsize, mask);
    }
    fclose(f);
    for (cpu = 0; cpu < nbits && (size_t)(cpu / 8) < cpusetsize; cpu++)
        if (bytes[cpu / 8] & (1u << (cpu % 8)))
            n++;
    if (n == 0) {
        errno = EINVAL;
        return -1;
    }
    if ((f = fopen(path, "w")) == NULL)
        return -1;
    fprintf(f, "%ld", nbits);
    for (cpu = 0; cpu < nbits && (size_t)(cpu / 8) < cpusetsize; cpu++)
        if (bytes[cpu / 8] & (1u << (cpu % 8)))
            fprintf(f, " %ld", cpu);
    fprintf(f, "\n");
    fclose(f);
    return 0;
}
