#!/usr/bin/env python3
"""Seeded-change tooling.
  tools_seed.py verify <dir>          dir has patch.diff + demo.py: in a scratch worktree of /repo HEAD check that
                                      demo passes clean, patch applies, builds, demo fails mutated, baseline still passes.
  tools_seed.py detect <dir> <ID>...  apply <dir>/patch.diff to /repo, run ./check <ID> --tier quick for each ID,
                                      undo the patch; prints which checks exit 1.
"""
import json, os, subprocess, sys, shutil, time
HERE = os.path.dirname(os.path.abspath(__file__))
PY = "/venv/bin/python"


def sh(cmd, **kw):
    return subprocess.run(cmd, shell=isinstance(cmd, str), capture_output=True, text=True, **kw)


def verify(d, baseline=True):
    d = os.path.abspath(d)
    wt = "/tmp/sv-%d" % os.getpid()
    r = sh(["git", "-C", "/repo", "worktree", "add", "-q", "--detach", wt, "HEAD"])
    assert r.returncode == 0, r.stderr
    res = {}
    try:
        sh([sys.executable, os.path.join(HERE, "vf/stage.py"), "--build-inplace", wt])
        shutil.copy(os.path.join(d, "demo.py"), os.path.join(wt, "demo.py"))   # run as: cd <tree> && python demo.py
        r = sh([PY, "demo.py"], cwd=wt, timeout=600)
        res["demo_clean_rc"] = r.returncode
        res["demo_clean_tail"] = (r.stdout + r.stderr)[-300:]
        r = sh(["git", "-C", wt, "apply", os.path.join(d, "patch.diff")])
        res["apply_rc"] = r.returncode
        if r.returncode != 0:
            res["apply_err"] = r.stderr[-500:]
            return res
        sh([sys.executable, os.path.join(HERE, "vf/stage.py"), "--build-inplace", wt])
        r = sh([PY, "demo.py"], cwd=wt, timeout=600)
        res["demo_mut_rc"] = r.returncode
        res["demo_mut_tail"] = (r.stdout + r.stderr)[-600:]
        if baseline:
            r = sh([os.path.join(HERE, "tools_baseline.sh"), wt], timeout=1500)
            res["baseline_rc"] = r.returncode
            res["baseline_tail"] = r.stdout[-400:]
        res["ok"] = (res["demo_clean_rc"] == 0 and res["demo_mut_rc"] != 0 and (not baseline or res["baseline_rc"] == 0))
    finally:
        sh(["git", "-C", "/repo", "worktree", "remove", "--force", wt])
        shutil.rmtree(wt, ignore_errors=True)
    return res


def detect(d, ids, tier="quick"):
    """run checks against the seeded change applied to a scratch worktree of /repo HEAD (VF_REPO points the
    checks at it; /repo itself is never touched, so several detections may run at once)"""
    d = os.path.abspath(d)
    import threading
    wt = "/tmp/det-%d-%d" % (os.getpid(), threading.get_ident() % 100000)
    r = sh(["git", "-C", "/repo", "worktree", "add", "-q", "--detach", wt, "HEAD"])
    assert r.returncode == 0, r.stderr
    out = {}
    try:
        r = sh(["git", "-C", wt, "apply", os.path.join(d, "patch.diff")])
        assert r.returncode == 0, r.stderr
        for i in ids:
            t0 = time.time()
            env = dict(os.environ, VF_NO_EVIDENCE="1", VF_REPO=wt, VF_REPLAY_TAG=os.path.basename(wt)[4:])
            r = subprocess.run([os.path.join(HERE, "check"), i, "--tier", tier], capture_output=True, text=True, env=env)
            lines = [l for l in r.stdout.splitlines() if l.startswith(("VIOLATION", "  cause="))]
            out[i] = {"rc": r.returncode, "wall": round(time.time() - t0, 1), "lines": [l[:300] for l in lines[:6]]}
    finally:
        sh(["git", "-C", "/repo", "worktree", "remove", "--force", wt])
        shutil.rmtree(wt, ignore_errors=True)
    return out


if __name__ == "__main__":
    if sys.argv[1] == "verify":
        print(json.dumps(verify(sys.argv[2], baseline="--no-baseline" not in sys.argv), indent=1))
    elif sys.argv[1] == "detect":
        print(json.dumps(detect(sys.argv[2], sys.argv[3:]), indent=1))


def import_all(src="/tmp/mut", tag="m"):
    """copy verified mutations from the agents' output dirs into /verif/seeded/<ID>-m<k>/"""
    import glob, re
    for d in sorted(glob.glob(os.path.join(src, "C??", "m?"))):
        pid = os.path.basename(os.path.dirname(d))
        k = os.path.basename(d)
        vf = os.path.join(src, "verify_%s_%s.json" % (pid, k))
        dst = os.path.join(HERE, "seeded", "%s-%s" % (pid, k.replace("m", tag)))
        os.makedirs(dst, exist_ok=True)
        for fn in ("patch.diff", "demo.py", "notes.md", "patch.orig.diff"):
            if os.path.exists(os.path.join(d, fn)):
                shutil.copy(os.path.join(d, fn), os.path.join(dst, fn))
        ver = {}
        if os.path.exists(vf):
            try:
                ver = json.load(open(vf))
            except Exception:
                ver = {}
        notes = open(os.path.join(d, "notes.md")).read() if os.path.exists(os.path.join(d, "notes.md")) else ""
        meta = {"property": pid, "source": "independent sub-agent given only the property text and a scratch worktree",
                "rebased": os.path.exists(os.path.join(d, "patch.orig.diff")),
                "needs_to_manifest": (re.search(r"(?is)(needs?|manifest)[^\n]*\n(.{0,600})", notes) or [None, None, ""])[2].strip()[:600],
                "verified_by": "tools_seed.py verify (scratch worktree of /repo HEAD: demo passes clean, patch applies, extension rebuilt, "
                               "demo fails mutated, 492-test baseline passes mutated)",
                "verify_result": {k2: v for k2, v in ver.items() if not k2.endswith("tail")}}
        json.dump(meta, open(os.path.join(dst, "meta.json"), "w"), indent=1)
    print("imported", len(glob.glob(os.path.join(HERE, "seeded", "*", "patch.diff"))))


def matrix(ids=None, tier="quick", pattern="*-*m*"):
    import glob
    rows = {}
    mp = os.path.join(HERE, "seeded", "MATRIX.json")
    if os.path.exists(mp):
        rows = json.load(open(mp))
    only = [i for i in (ids or []) if "-" in i]
    ids = [i for i in (ids or []) if "-" not in i] or None
    todo = []
    for d in sorted(glob.glob(os.path.join(HERE, "seeded", pattern))):
        if only and os.path.basename(d) not in only:
            continue
        name = os.path.basename(d)
        pid = name.split("-")[0]
        if ids and pid not in ids:
            continue
        todo.append((d, name, pid))

    def one(t):
        try:
            return detect(t[0], [t[2]], tier)
        except AssertionError as e:
            return {"error": str(e)[:200]}
    from concurrent.futures import ThreadPoolExecutor
    with ThreadPoolExecutor(int(os.environ.get("MATRIX_JOBS", "3"))) as ex:
        results = list(ex.map(one, todo))
    for (d, name, pid), r in zip(todo, results):
        if "error" in r:
            rows[name] = r
            print(name, "ERROR", r["error"], flush=True)
            continue
        rows[name] = {"check": pid, "rc": r[pid]["rc"], "wall": r[pid]["wall"],
                      "causes": [l.strip()[:160] for l in r[pid]["lines"] if l.strip().startswith("cause=")][:3]}
        print(name, rows[name]["rc"], rows[name]["causes"][:1], flush=True)
        meta_p = os.path.join(d, "meta.json")
        meta = json.load(open(meta_p))
        meta["detected_by"] = {"check": pid, "tier": tier, "exit": r[pid]["rc"], "causes": rows[name]["causes"]}
        json.dump(meta, open(meta_p, "w"), indent=1)
    json.dump(rows, open(os.path.join(HERE, "seeded", "MATRIX.json"), "w"), indent=1)
    return rows


if __name__ == "__main__" and sys.argv[1] == "import":
    import_all(*sys.argv[2:])
if __name__ == "__main__" and sys.argv[1] == "matrix":
    matrix(sys.argv[2:] or None)
