"""Stage /repo's *working tree* copy of psutil into a scratch directory and
build both C extensions there.  Nothing is ever written under /repo.

    stage = Stage.create(sanitize=False)   # -> /var/tmp/vf-stage-XXXX
    ... PYTHONPATH=stage.path ...
    stage.remove()
"""
import glob
import os
import shutil
import subprocess
import sys
import sysconfig
import tempfile

REPO = os.environ.get("VF_REPO", "/repo")
PY = "/venv/bin/python"
SCRATCH_ROOT = "/var/tmp"
ASAN_RT = None
for _p in glob.glob("/usr/lib/llvm-14/lib/clang/14*/lib/linux/libclang_rt.asan-x86_64.so"):
    ASAN_RT = _p


class BuildError(Exception):
    pass


def _py_include():
    out = subprocess.run(
        [PY, "-c", "import sysconfig;print(sysconfig.get_paths()['include'])"],
        check=True, capture_output=True, text=True).stdout.strip()
    return out


class Stage:
    def __init__(self, path, sanitize):
        self.path = path
        self.sanitize = sanitize

    @classmethod
    def create(cls, sanitize=False, repo=None):
        repo = repo or REPO
        path = tempfile.mkdtemp(prefix="vf-stage-", dir=SCRATCH_ROOT)
        st = cls(path, sanitize)
        try:
            st._copy(repo)
            st._build()
        except Exception:
            st.remove()
            raise
        return st

    def _copy(self, repo):
        src = os.path.join(repo, "psutil")
        dst = os.path.join(self.path, "psutil")

        def ignore(d, names):
            ig = []
            for n in names:
                if n in ("tests", "__pycache__") or n.endswith((".so", ".o", ".pyc")):
                    ig.append(n)
            return ig

        shutil.copytree(src, dst, ignore=ignore)

    def _build(self):
        pk = os.path.join(self.path, "psutil")
        inc = _py_include()
        macros = ["-DPSUTIL_POSIX=1", "-DPSUTIL_SIZEOF_PID_T=4",
                  "-DPSUTIL_VERSION=%s" % self._version(), "-DPy_LIMITED_API=0x03060000",
                  "-DPSUTIL_LINUX=1"]
        common = [os.path.join(pk, "_psutil_common.c"), os.path.join(pk, "_psutil_posix.c")]
        linux = common + [os.path.join(pk, "_psutil_linux.c")] + sorted(
            glob.glob(os.path.join(pk, "arch", "linux", "*.c")))
        if self.sanitize:
            cc = ["clang", "-O1", "-g", "-fno-omit-frame-pointer",
                  "-fsanitize=address,undefined", "-fno-sanitize-recover=all",
                  "-shared-libasan"]
        else:
            cc = ["gcc", "-O1"]
        base = cc + ["-shared", "-fPIC", "-w", "-I", inc, "-I", pk] + macros
        jobs = [
            (base + linux + ["-o", os.path.join(pk, "_psutil_linux.abi3.so")]),
            (base + common + ["-o", os.path.join(pk, "_psutil_posix.abi3.so")]),
        ]
        procs = [subprocess.Popen(j, stdout=subprocess.PIPE, stderr=subprocess.STDOUT, text=True)
                 for j in jobs]
        for p, j in zip(procs, jobs):
            out, _ = p.communicate()
            if p.returncode != 0:
                raise BuildError("C build failed:\n%s\n%s" % (" ".join(j), out[-4000:]))

    def _version(self):
        import re
        with open(os.path.join(self.path, "psutil", "__init__.py")) as f:
            m = re.search(r'__version__ = "([\d.]+)"', f.read())
        return m.group(1).replace(".", "")

    def env(self, extra=None):
        e = dict(os.environ)
        e["PYTHONPATH"] = self.path + os.pathsep + os.path.dirname(os.path.dirname(os.path.abspath(__file__)))
        e["PYTHONHASHSEED"] = "0"
        e["VF_STAGE"] = self.path
        e.pop("PSUTIL_DEBUG", None)
        if self.sanitize:
            e["LD_PRELOAD"] = ASAN_RT
            e["ASAN_OPTIONS"] = "detect_leaks=0:abort_on_error=1:handle_abort=1:allocator_may_return_null=1"
            e["UBSAN_OPTIONS"] = "print_stacktrace=1:halt_on_error=1"
        if extra:
            e.update(extra)
        return e

    def remove(self):
        shutil.rmtree(self.path, ignore_errors=True)


def build_inplace(repo_dir):
    """compile both extensions into <repo_dir>/psutil (for scratch worktrees)"""
    st = Stage(repo_dir, False)
    st._build()


if __name__ == "__main__":
    if len(sys.argv) > 2 and sys.argv[1] == "--build-inplace":
        build_inplace(sys.argv[2])
    else:
        s = Stage.create(sanitize="--san" in sys.argv)
        print(s.path)
