"""Child interpreter: imports the *staged* psutil and runs one check."""
import argparse
import importlib
import json
import os
import sys
import time
import traceback


def main():
    ap = argparse.ArgumentParser()
    ap.add_argument("id")
    ap.add_argument("--tier", default="quick")
    ap.add_argument("--seed", type=int, default=0)
    ap.add_argument("--replay")
    ap.add_argument("--out", required=True)
    a = ap.parse_args()
    stage = os.environ.get("VF_STAGE")
    mod = importlib.import_module("vf.checks.%s" % a.id.lower())
    if getattr(mod, "NEEDS_PSUTIL", True):
        import psutil
        assert stage and os.path.realpath(psutil.__file__).startswith(os.path.realpath(stage)), \
            "psutil not imported from the stage: %s" % psutil.__file__
    from vf.harness import Ctx
    ctx = Ctx(a.tier, a.seed)
    try:
        if a.replay:
            rp = json.load(open(a.replay))
            res = mod.replay(ctx, rp["case"])
        else:
            res = mod.run(ctx)
            res.setdefault("level", mod.LEVEL)
    finally:
        ctx.close()
    with open(a.out, "w") as f:
        json.dump(res, f, default=str)
    return 0


if __name__ == "__main__":
    try:
        sys.exit(main())
    except SystemExit:
        raise
    except BaseException:
        traceback.print_exc()
        sys.exit(3)
