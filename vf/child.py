"""Child interpreter: imports the *staged* psutil and runs one check."""
import argparse
import importlib
import json
import os
import sys
import time
import traceback


def main():
    ap = argparse.ArgumentParser()
    ap.add_argument("id")
    ap.add_argument("--tier", default="quick")
    ap.add_argument("--seed", type=int, default=0)
    ap.add_argument("--replay")
    ap.add_argument("--alt-only", action="store_true")
    ap.add_argument("--out", required=True)
    a = ap.parse_args()
    try:
        import faulthandler, signal
        faulthandler.register(signal.SIGUSR1, all_threads=True)       # (kill -USR1 <pid>: where is everybody?)
    except Exception:  # noqa: BLE001
        pass
    stage = os.environ.get("VF_STAGE")
    mod = importlib.import_module("vf.checks.%s" % a.id.lower())
    if getattr(mod, "NEEDS_PSUTIL", True):
        import psutil
        assert stage and os.path.realpath(psutil.__file__).startswith(os.path.realpath(stage)), \
            "psutil not imported from the stage: %s" % psutil.__file__
    from vf.harness import Ctx
    ctx = Ctx(a.tier, a.seed)
    ALT = "/hostproc/"       # (with a trailing slash: psutil then builds paths with a doubled one, which the kernel accepts)
    ALT_TCK = "1024"        # (Linux/alpha's USER_HZ: ten ticks per 1/100 s, and not a divisor of anything decimal)

    def alt_on():
        """second configuration of a check: procfs mounted elsewhere (psutil.PROCFS_PATH), PSUTIL_DEBUG on, and -- the
        interpreter having been started with -O -- assert statements compiled away"""
        from vf.simk import world
        from vf import harness
        world.DEFAULT_PROCFS, ctx.alt = ALT, True
        harness.ALT_SETTINGS["debug"] = True

    try:
        if a.replay:
            rp = json.load(open(a.replay))
            case = rp["case"]
            if isinstance(case, dict) and "_mount" in case:
                if not sys.flags.optimize:
                    ctx.close()
                    os.environ["VF_CLK_TCK"] = ALT_TCK
                    os.execv(sys.executable, [sys.executable, "-O", "-m", "vf.child"] + sys.argv[1:])
                alt_on()
                os.dup2(os.open(os.devnull, os.O_WRONLY), 2)
                case = case["case"]
            res = mod.replay(ctx, case)
        elif a.alt_only:
            import tempfile
            alt_on()
            # psutil's debug output goes to stderr: keep it out of the way, show its tail only if the pass dies
            sys.stderr.flush()
            saved_fd, tmpf = os.dup(2), tempfile.TemporaryFile()
            os.dup2(tmpf.fileno(), 2)
            try:
                res = mod.run(ctx)
            except BaseException:
                sys.stderr.flush()
                os.dup2(saved_fd, 2)
                tmpf.seek(0, 2)
                tmpf.seek(max(0, tmpf.tell() - 4000))
                sys.stderr.write(tmpf.read().decode("utf-8", "replace"))
                raise
            finally:
                sys.stderr.flush()
                os.dup2(saved_fd, 2)
            for v in res.get("violations", []):
                v["case"] = {"_mount": ALT, "case": v.get("case")}
                if isinstance(v.get("alt_case"), dict):
                    v["alt_case"] = {"_mount": ALT, "history": v["alt_case"]["history"]}
                v["msg"] = "[procfs at %s, PSUTIL_DEBUG, python -O, %s ticks/s] %s" % (ALT, ALT_TCK, v.get("msg"))
        else:
            res = mod.run(ctx)
            res.setdefault("level", mod.LEVEL)
            if getattr(mod, "ALT_MOUNT", False):
                import subprocess
                ctx.close()
                out2 = a.out + ".alt"
                p = subprocess.run([sys.executable, "-O", "-m", "vf.child", a.id, "--tier", a.tier, "--seed", str(a.seed),
                                    "--alt-only", "--out", out2], env=dict(os.environ, VF_CLK_TCK=ALT_TCK))
                if p.returncode != 0 or not os.path.exists(out2):
                    raise RuntimeError("second-configuration pass failed (rc=%s)" % p.returncode)
                res2 = json.load(open(out2))
                os.unlink(out2)
                res["violations"] = res.get("violations", []) + res2.get("violations", [])
                c2 = res2.get("coverage", {})
                res["coverage"]["alt_procfs_mount"] = {"mount": ALT, "PSUTIL_DEBUG": True, "python_optimize": 1, "clock_ticks_per_second": int(ALT_TCK),
                                                       "violations": len(res2.get("violations", [])),
                                                       **{k: c2[k] for k in ("evaluations", "distinct_nontrivial", "states", "transitions") if k in c2}}
    finally:
        ctx.close()
    with open(a.out, "w") as f:
        json.dump(res, f, default=str)
    return 0


if __name__ == "__main__":
    try:
        sys.exit(main())
    except SystemExit:
        raise
    except BaseException:
        traceback.print_exc()
        sys.exit(3)
