"""C18 — nice/ionice/cpu_affinity/rlimit: get reads the kernel, set changes exactly that.
Explorer I on (a) two live sacrificial children of this process on the real kernel, read back
through psutil AND through the OS directly, sibling checked unchanged; (b) the simulated kernel
for Cpus_allowed_list shapes, kernel refusals and the exact syscall arguments."""
import ctypes
import errno
import itertools
import json
import os
import resource
import signal
import subprocess
import sys

from vf.harness import use_world, outcome, freeze, sample, seams
from vf.simk.world import World

ID = "C18"
LEVEL = "exploration"
ALT_MOUNT = True
NR_IOPRIO_GET = 252          # x86_64
_libc = ctypes.CDLL(None, use_errno=True)


def raw_ioprio(pid):
    v = _libc.syscall(NR_IOPRIO_GET, 1, pid)
    return (v >> 13, v & 0x1FFF)


def spawn():
    return subprocess.Popen(["sleep", "600"], stdout=subprocess.DEVNULL, stderr=subprocess.DEVNULL)


def snapshot(pid):
    r = {}
    r["nice"] = os.getpriority(os.PRIO_PROCESS, pid)
    r["ioprio"] = raw_ioprio(pid)
    r["aff"] = sorted(os.sched_getaffinity(pid))
    r["rl"] = {n: resource.prlimit(pid, getattr(resource, n)) for n in dir(resource) if n.startswith("RLIMIT_") and n != "RLIMIT_OFILE"}
    return r


def live(arg):
    """kind, list of requests -> (viols, n, labels)"""
    kind, reqs = arg
    try:
        seams().uninstall()
    except Exception:  # noqa: BLE001
        pass
    import psutil
    a, b = spawn(), spawn()
    bad, labels = [], {}
    try:
        pa = psutil.Process(a.pid)
        sib0 = snapshot(b.pid)
        for rq in reqs:
            before = snapshot(a.pid)
            lab = "?"
            if kind == "nice":
                out = outcome(pa.nice, rq)
                lab = "set:" + out[0]
                if out[0] == "ok":
                    g = outcome(pa.nice)
                    k = os.getpriority(os.PRIO_PROCESS, a.pid)
                    if g != ("ok", rq) or k != rq:
                        bad.append(("nice:readback:%s" % ("minus1" if rq == -1 else "x"), "nice(%d) set ok; nice() -> %r, kernel %r" % (rq, g, k)))
                else:
                    bad.append(("nice:set-failed", "nice(%d) -> %r" % (rq, out)))
            elif kind == "ionice":
                cls, val, valid, spell = rq
                cobj = psutil._pslinux.IOPriority(cls) if (spell == "enum" and cls in (0, 1, 2, 3)) else cls
                out = outcome(pa.ionice, cobj, val) if cls is not None else outcome(pa.ionice, None, val)
                after = raw_ioprio(a.pid)
                lab = "%s:%s" % ("valid" if valid else "invalid", out[0] if out[0] == "ok" else out[1])
                if valid:
                    if out[0] != "ok":
                        bad.append(("ionice:valid-refused", "ionice(%r,%r) -> %r" % (cls, val, out)))
                    else:
                        want = (cls, val or 0)
                        g = outcome(pa.ionice)
                        if after != want or g[0] != "ok" or (int(g[1].ioclass), g[1].value) != want:
                            bad.append(("ionice:readback", "ionice(%r,%r): kernel %r, ionice() -> %r" % (cls, val, after, freeze(g))))
                elif valid is False:
                    if not (out[0] == "exc" and out[1] == "ValueError"):
                        bad.append(("ionice:invalid-not-ValueError:%s" % spell, "ionice(%r,%r) [%s] -> %r" % (cls, val, spell, freeze(out))))
                    if after != before["ioprio"]:
                        bad.append(("ionice:invalid-changed-something:%s" % spell, "ionice(%r,%r): kernel %r -> %r" % (cls, val, before["ioprio"], after)))
                else:       # unknown class etc.: only "changes nothing unless it succeeds"
                    if out[0] != "ok" and after != before["ioprio"]:
                        bad.append(("ionice:failed-but-changed", "ionice(%r,%r) -> %r, kernel %r -> %r" % (cls, val, out, before["ioprio"], after)))
                g = outcome(pa.ionice)
                if g[0] != "ok" or (int(g[1].ioclass), g[1].value) != raw_ioprio(a.pid):
                    bad.append(("ionice:get-mismatch", "ionice() -> %r, kernel %r" % (freeze(g), raw_ioprio(a.pid))))
            elif kind == "affinity":
                cpus, valid = rq
                elig = before["_elig"] if "_elig" in before else sorted(os.sched_getaffinity(0))
                out = outcome(pa.cpu_affinity, list(cpus))
                after = sorted(os.sched_getaffinity(a.pid))
                lab = "%s:%s" % (valid, out[0] if out[0] == "ok" else out[1])
                if valid == "valid":
                    want = sorted(set(cpus)) if cpus else ALL_CPUS
                    g = outcome(pa.cpu_affinity)
                    if out[0] != "ok" or after != want or g != ("ok", want):
                        narrowed = (not cpus) and before["aff"] != ALL_CPUS and after == before["aff"]
                        bad.append(("affinity:%s" % ("empty-list-is-a-no-op-once-affinity-was-narrowed" if narrowed else
                                                     ("readback:empty-list" if not cpus else "readback")),
                                    "cpu_affinity(%r) -> %r; kernel %r, cpu_affinity() -> %r, wanted %r" % (list(cpus), out, after, g, want)))
                else:
                    if not (out[0] == "exc" and out[1] == "ValueError"):
                        bad.append(("affinity:invalid-not-ValueError", "cpu_affinity(%r) -> %r" % (list(cpus), freeze(out))))
                    if after != before["aff"]:
                        bad.append(("affinity:invalid-changed-something", "cpu_affinity(%r): %r -> %r" % (list(cpus), before["aff"], after)))
            elif kind == "rlimit":
                name, lim, valid = rq
                res = getattr(psutil, name)
                out = outcome(pa.rlimit, res, lim)
                after = resource.prlimit(a.pid, getattr(resource, name))
                lab = "%s:%s" % (valid, out[0] if out[0] == "ok" else out[1])
                if valid == "pair":
                    if out[0] == "ok":
                        g = outcome(pa.rlimit, res)
                        if tuple(after) != tuple(lim) or g != ("ok", tuple(lim)):
                            bad.append(("rlimit:readback", "rlimit(%s,%r): kernel %r, rlimit() -> %r" % (name, lim, after, g)))
                    elif after != before["rl"][name]:
                        bad.append(("rlimit:failed-but-changed", "rlimit(%s,%r) -> %r, kernel %r -> %r" % (name, lim, out, before["rl"][name], after)))
                else:
                    if not (out[0] == "exc" and out[1] in ("ValueError",)):
                        bad.append(("rlimit:non-pair-not-ValueError", "rlimit(%s,%r) -> %r" % (name, lim, freeze(out))))
                    if after != before["rl"][name]:
                        bad.append(("rlimit:invalid-changed-something", repr((name, lim))))
            labels[lab] = labels.get(lab, 0) + 1
            # every other setting of the subject, and the sibling, unchanged
            now = snapshot(a.pid)
            for k2 in ("nice", "ioprio", "aff"):
                own = {"nice": "nice", "ionice": "ioprio", "affinity": "aff"}.get(kind)
                if k2 != own and now[k2] != before[k2]:
                    bad.append(("%s-changed-%s" % (kind, k2), "%r: %s %r -> %r" % (rq, k2, before[k2], now[k2])))
            if snapshot(b.pid) != sib0:
                bad.append(("%s:sibling-changed" % kind, "after %r the sibling changed" % (rq,)))
                sib0 = snapshot(b.pid)
    finally:
        for p in (a, b):
            p.kill()
            p.wait()
    return bad, len(reqs), labels


ALL_CPUS = sorted(os.sched_getaffinity(0))


def live_requests(thorough):
    out = []
    out.append(("nice", list(range(-20, 20)) + [0, -1, 19, -20]))
    io = []
    for spell in ("enum", "int"):
        for cls in (1, 2):
            for v in range(0, 8):
                io.append((cls, v, True, spell))
        io.append((3, 0, True, spell))
        io.append((3, None, True, spell))
        io.append((0, 0, True, spell))
        io.append((2, None, True, spell))
        for cls in (0, 3):
            for v in range(1, 8):
                io.append((cls, v, False, spell))
        for cls in (1, 2):
            for v in (-1, 8, 100, -8):
                io.append((cls, v, False, spell))
    io.append((None, 3, False, "none"))
    io.append((None, 0, False, "none"))
    io.append((None, 7, False, "none"))
    for cls in (4, 7, 8):
        io.append((cls, 0, None, "int"))
    out.append(("ionice", io))
    cp = ALL_CPUS
    subsets = []
    k = 4 if not thorough else len(cp)
    for r in range(1, k + 1):
        subsets += [c for c in itertools.combinations(cp[:k], r)]
    subsets += [(c,) for c in cp] + [tuple(cp)]
    aff = [(s, "valid") for s in subsets]
    aff += [((cp[0], cp[0]), "valid"), ((cp[1], cp[0], cp[1]), "valid")]
    aff = [((), "valid")] + aff + [(tuple(cp), "valid"), ((), "valid"), ((cp[0], cp[1]), "valid"), ((), "valid")]
    hi = max(cp) + 1
    aff += [((hi,), "invalid"), ((hi + 5, hi + 9), "invalid"), ((4096,), "invalid"), ((-1,), "invalid"),
            ((2 ** 32,), "invalid"), ((2 ** 32 + 1,), "invalid"), ((2 ** 40,), "invalid"), ((-2 ** 32,), "invalid"), ((2 ** 31,), "invalid")]
    n = 16
    step = max(1, len(aff) // n)
    for i in range(0, len(aff), step):
        # every chunk starts from the full mask and ends with: narrow, then [] (documented: selects all eligible CPUs)
        out.append(("affinity", [(tuple(cp), "valid")] + aff[i:i + step] + [((cp[0], cp[1]), "valid"), ((), "valid")]))
    rl = []
    INF = resource.RLIM_INFINITY
    import psutil as _ps
    for name in sorted(x for x in dir(resource) if x.startswith("RLIMIT_") and hasattr(_ps, x)):
        cur = resource.getrlimit(getattr(resource, name))
        vals = sorted({0, 1, 1024, cur[0] if cur[0] != INF else 4096}) + [INF]
        for s, h in itertools.product(vals, repeat=2):
            s_, h_ = (s if s != INF else float("inf")), (h if h != INF else float("inf"))
            if s_ <= h_:
                rl.append((name, (s, h), "pair"))
        rl += [(name, (5,), "nonpair"), (name, (1, 2, 3), "nonpair"), (name, (), "nonpair")]
    for i in range(0, len(rl), max(1, len(rl) // 8)):
        out.append(("rlimit", rl[i:i + max(1, len(rl) // 8)]))
    return out


# ------------------------------------------------------------------ simulated kernel part
def sim(arg):
    import psutil
    shape, ncpu, eligible, req = arg
    w = World(ncpus=ncpu)
    w.spawn(1, ppid=0, comm=b"init", start=1)
    w.spawn(w.mypid, ppid=1, comm=b"caller", start=50)
    p = w.spawn(4700, ppid=w.mypid, comm=b"subj", start=900)
    q = w.spawn(4701, ppid=w.mypid, comm=b"sib", start=901)
    p.cpus_allowed_list = shape
    if shape == "none":
        p.status_extra = {"nocpuslist": True}      # (a kernel older than 2.6.24 / a reduced procfs: no Cpus_allowed_list line)
    if ncpu < max(eligible) + 1:
        # a CPU in the middle was hot-unplugged: ncpu rows in /proc/stat, numbered like the eligible CPUs
        w.online_cpu_ids = list(eligible)
    w.eligible_cpus = lambda proc: list(eligible) if proc is p else list(range(ncpu))
    use_world(w)
    bad = []
    pr = psutil.Process(4700)
    narrowed = False
    if req and req[0] == "narrow-then":
        pr.cpu_affinity([eligible[0]])
        p.affinity is not None
        narrowed = True
        req = tuple(req[1:])
    n0 = len(w.effects)
    out = outcome(pr.cpu_affinity, list(req))
    eff = w.effects[n0:]
    want = sorted(set(req) & set(eligible)) if req else sorted(eligible)
    valid = bool(want) and all(0 <= c < max(ncpu, max(eligible) + 1) for c in req)
    if valid:
        if out[0] != "ok" or sorted(p.affinity or []) != want:
            what = "empty-list" if not req else "x"
            if narrowed and not req:
                what = "empty-list-is-a-no-op-once-affinity-was-narrowed"
            bad.append(("sim:affinity:%s:shape-%s" % (what, "range" if shape.count("-") == 1 and "," not in shape else "complex"),
                        "Cpus_allowed_list %r, cpu_affinity(%r) -> %r; kernel affinity %r, all eligible %r"
                        % (shape, list(req), out, sorted(p.affinity or []), sorted(eligible))))
        for e in eff:
            if e[1] != 4700:
                bad.append(("sim:affinity:wrong-pid", repr(e)))
    else:
        if narrowed:
            return bad
        if not (out[0] == "exc" and out[1] == "ValueError"):
            bad.append(("sim:affinity:invalid-not-ValueError", "cpu_affinity(%r) (eligible %r of %d) -> %r" % (list(req), eligible, ncpu, freeze(out))))
        if p.affinity is not None:
            bad.append(("sim:affinity:invalid-changed", repr(p.affinity)))
    if q.affinity is not None or q.nice != 0:
        bad.append(("sim:sibling-changed", "x"))
    return bad


def live_self_after_fork(_arg=None):
    """the pre-fork worker pattern: psutil is imported, the program forks, the child configures ITSELF through Process() with
    no pid.  What it sets must land on the child, what it reads must be the child's, and the parent stays as it was."""
    try:
        seams().uninstall()
    except Exception:  # noqa: BLE001
        pass
    import psutil
    bad = []
    parent_before = (os.getpriority(os.PRIO_PROCESS, 0), sorted(os.sched_getaffinity(0)), resource.getrlimit(resource.RLIMIT_NOFILE))
    r, wfd = os.pipe()
    pid = os.fork()
    if pid == 0:
        try:
            os.close(r)
            me = psutil.Process()
            out = {"pid_seen": me.pid, "getpid": os.getpid()}
            me.nice(os.getpriority(os.PRIO_PROCESS, 0) + 3)
            cpus = sorted(os.sched_getaffinity(0))
            me.cpu_affinity(cpus[:1])
            soft, hard = resource.getrlimit(resource.RLIMIT_NOFILE)
            me.rlimit(psutil.RLIMIT_NOFILE, (max(16, soft - 7), hard))
            out["kernel"] = (os.getpriority(os.PRIO_PROCESS, 0), sorted(os.sched_getaffinity(0)), list(resource.getrlimit(resource.RLIMIT_NOFILE)))
            out["psutil"] = (me.nice(), me.cpu_affinity(), list(me.rlimit(psutil.RLIMIT_NOFILE)))
            out["want"] = (parent_before[0] + 3, cpus[:1], [max(16, soft - 7), hard])
            os.write(wfd, json.dumps(out).encode())
        except BaseException as e:  # noqa: BLE001
            os.write(wfd, json.dumps({"error": repr(e)}).encode())
        finally:
            os._exit(0)
    os.close(wfd)
    data = b""
    while True:
        chunk = os.read(r, 65536)
        if not chunk:
            break
        data += chunk
    os.close(r)
    os.waitpid(pid, 0)
    out = json.loads(data or b"{}")
    parent_after = (os.getpriority(os.PRIO_PROCESS, 0), sorted(os.sched_getaffinity(0)), resource.getrlimit(resource.RLIMIT_NOFILE))
    if "error" in out or not out:
        bad.append(("fork-self:child-failed", repr(out)))
    else:
        if out["pid_seen"] != out["getpid"]:
            bad.append(("fork-self:Process()-is-not-the-calling-process", "after fork, Process().pid in the child is %s" % ("the PARENT's pid" if out["pid_seen"] == os.getpid() else "neither the child's nor the parent's pid")))
        if [out["kernel"][0], out["kernel"][1], out["kernel"][2]] != [out["want"][0], out["want"][1], out["want"][2]]:
            bad.append(("fork-self:settings-did-not-land-on-the-child", "kernel says %r for the child, requested %r" % (out["kernel"], out["want"])))
        if list(out["psutil"]) != list(out["kernel"]):
            bad.append(("fork-self:get-differs-from-kernel", "psutil %r kernel %r" % (out["psutil"], out["kernel"])))
    if parent_after != parent_before:
        bad.append(("fork-self:parent-changed", "parent %r -> %r" % (parent_before, parent_after)))
        try:
            os.setpriority(os.PRIO_PROCESS, 0, parent_before[0])
            os.sched_setaffinity(0, parent_before[1])
            resource.setrlimit(resource.RLIMIT_NOFILE, parent_before[2])
        except Exception:  # noqa: BLE001
            pass
    return bad


LIMIT_LABELS = {"RLIMIT_CPU": "Max cpu time", "RLIMIT_FSIZE": "Max file size", "RLIMIT_DATA": "Max data size", "RLIMIT_STACK": "Max stack size",
                "RLIMIT_CORE": "Max core file size", "RLIMIT_RSS": "Max resident set", "RLIMIT_NPROC": "Max processes",
                "RLIMIT_NOFILE": "Max open files", "RLIMIT_MEMLOCK": "Max locked memory", "RLIMIT_AS": "Max address space",
                "RLIMIT_LOCKS": "Max file locks", "RLIMIT_SIGPENDING": "Max pending signals", "RLIMIT_MSGQUEUE": "Max msgqueue size",
                "RLIMIT_NICE": "Max nice priority", "RLIMIT_RTPRIO": "Max realtime priority", "RLIMIT_RTTIME": "Max realtime timeout"}


def _limits_of(pid):
    out = {}
    with open("/proc/%d/limits" % pid) as f:
        for line in f.read().splitlines()[1:]:
            for lab in LIMIT_LABELS.values():
                if line.startswith(lab + " "):
                    out[lab] = line[len(lab):].split()[:2]
    return out


def live_rlimit_names(_arg=None):
    """every RLIMIT_* name psutil exports designates the kernel's resource of that name: a set through psutil changes exactly the
    row the kernel prints under that resource's label in /proc/<pid>/limits (an oracle that does not use psutil's numbers), and a
    get reads that row"""
    import subprocess
    import sys
    from vf.harness import seams
    try:
        seams().uninstall()
    except Exception:  # noqa: BLE001
        pass
    import psutil
    bad = []
    child = subprocess.Popen([sys.executable, "-S", "-c", "import time; time.sleep(60)"])
    try:
        pr = psutil.Process(child.pid)
        names = sorted(n for n in dir(psutil) if n.startswith("RLIMIT_"))
        for i, name in enumerate(names):
            lab = LIMIT_LABELS.get(name)
            if lab is None:
                bad.append(("rlimit-names:unknown-constant", name))
                continue
            before = _limits_of(child.pid)
            hard_s = before[lab][1]
            hard = None if hard_s == "unlimited" else int(hard_s)
            # a soft limit below the hard one (which stays: no capability is needed), far above anything the sleeping child uses
            if hard is None or hard > 2 ** 40 + 1000:
                v = 2 ** 40 + 7 * i
            elif hard > 1000:
                v = hard - 1 - i
            else:
                continue          # (hard limit 0, e.g. nice / realtime priority: no distinguishable soft value without privileges)
            hv = psutil.RLIM_INFINITY if hard is None else hard
            out = outcome(pr.rlimit, getattr(psutil, name), (v, hv))
            after = _limits_of(child.pid)
            changed = sorted(k for k in after if after[k] != before.get(k))
            if out[0] != "ok":
                bad.append(("rlimit-names:set-refused:%s" % name, "rlimit(%s, (%d, %s)) -> %r" % (name, v, hard_s, out[:2])))
            elif changed != [lab] or after[lab] != [str(v), hard_s]:
                bad.append(("rlimit-names:set-landed-elsewhere:%s" % name, "rlimit(%s, (%d, %s)): rows changed in /proc/<pid>/limits: %r (%r)"
                            % (name, v, hard_s, changed, {k: after[k] for k in changed})))
            g = outcome(pr.rlimit, getattr(psutil, name))
            want = tuple(psutil.RLIM_INFINITY if x == "unlimited" else int(x) for x in after.get(lab, ["-2", "-2"]))
            if g != ("ok", want):
                bad.append(("rlimit-names:get-reads-another-row:%s" % name, "rlimit(%s) -> %r, the kernel's row %r says %r" % (name, g, lab, after.get(lab))))
    finally:
        child.kill()
        child.wait()
    return bad


def debug_badstderr():
    """PSUTIL_DEBUG=1 with an unwritable stderr (closed / full): an invalid CPU list is still a ValueError"""
    code = ("import os, sys, psutil\n"
            "try:\n"
            "    psutil.Process().cpu_affinity([4000])\n"
            "    r = 'no-exception'\n"
            "except ValueError:\n"
            "    r = 'ValueError'\n"
            "except BaseException as e:\n"
            "    r = type(e).__name__ + ':' + str(e)\n"
            "os.write(3, r.encode())\n")
    bad = []
    for label, stderr_target in (("full", "/dev/full"), ("closed", None)):
        r, wfd = os.pipe()
        env = dict(os.environ, PSUTIL_DEBUG="1")

        def pre(wfd=wfd, tgt=stderr_target):
            os.dup2(wfd, 3)
            if tgt is None:
                os.close(2)
            else:
                os.dup2(os.open(tgt, os.O_WRONLY), 2)
        p = subprocess.Popen([sys.executable, "-c", code], env=env, preexec_fn=pre, close_fds=False, stdout=subprocess.DEVNULL)
        os.close(wfd)
        p.wait()
        out = os.read(r, 4096).decode()
        os.close(r)
        if out != "ValueError":
            bad.append(("debug-bad-stderr:invalid-cpu-list-not-ValueError", "PSUTIL_DEBUG=1, stderr %s: cpu_affinity([4000]) -> %r" % (label, out)))
    return bad


def sim_get(arg):
    """the get forms against every answer the (simulated) kernel can give, including ones psutil itself can never set
    (class NONE with a level, as kernels before 5.20 report for tasks that never set an I/O priority)"""
    import psutil
    kind, val = arg
    w = World(ncpus=8)
    w.spawn(1, ppid=0, comm=b"init", start=1)
    w.spawn(w.mypid, ppid=1, comm=b"caller", start=50)
    p = w.spawn(4700, ppid=w.mypid, comm=b"subj", start=900)
    use_world(w)
    pr = psutil.Process(4700)
    bad = []
    if kind == "ioprio":
        p.ioprio = tuple(val)
        got = outcome(pr.ionice)
        if got[0] != "ok" or (int(got[1].ioclass), got[1].value) != tuple(val):
            bad.append(("sim:get:ionice", "kernel reports (class, data) = %r, ionice() -> %r" % (tuple(val), freeze(got))))
    elif kind == "nice":
        p.nice = val
        got = outcome(pr.nice)
        if got != ("ok", val):
            bad.append(("sim:get:nice", "kernel reports %r, nice() -> %r" % (val, got)))
    elif kind == "affinity":
        p.affinity = set(val)
        got = outcome(pr.cpu_affinity)
        if got != ("ok", sorted(val)):
            bad.append(("sim:get:cpu_affinity", "kernel reports %r, cpu_affinity() -> %r" % (sorted(val), got)))
    return bad


def sim_get_cases(thorough):
    cases = [("ioprio", [c, d]) for c in range(4) for d in range(8)]
    cases += [("nice", n) for n in range(-20, 20)]
    for r in (1, 2, 8) + ((3, 4) if thorough else ()):
        cases += [("affinity", list(c)) for c in itertools.combinations(range(8), r)]
    # masks that mix a CPU number >= 8 with smaller ones (a set of such ints does not iterate in ascending order)
    cases += [("affinity", [1, 8]), ("affinity", [2, 9, 16]), ("affinity", [0, 15, 31, 32]), ("affinity", [8, 9, 10, 11, 3])]
    return cases


def _call0(fn):
    return fn()


def bigkernel_cases(thorough):
    cases = []
    cases.append([4096, [5, 1023, 1024, 2048, 4095]])        # beyond the 1024 bits of a static cpu_set_t
    cases.append([4096, [2048]])
    for nbits in (64, 128, 256, 1024) + ((512, 4096, 65536) if thorough else ()):
        for mask in ([0], [nbits - 1], sorted({0, 1, 70 % nbits, nbits - 1}), list(range(nbits)) if nbits <= 256 else list(range(0, nbits, 7))):
            cases.append([nbits, mask])
    # the set form on the same kernels: every mask above that fits the 1024 bits psutil's static cpu_set_t can name, plus lists
    # with few entries and high CPU numbers / repeated entries, requested while the kernel holds another mask
    for nbits, mask in list(cases):
        if nbits <= 1024:
            cases.append([nbits, mask, "set"])
    for nbits in (64, 128, 256, 1024):
        for mask in ([nbits // 2], [nbits - 2, nbits - 1], [0, nbits - 1], [3, 3, nbits - 2, nbits - 2], [nbits - 1, 0, 63, 64 % nbits]):
            cases.append([nbits, mask, "set"])
    # (left out: a CPU number >= 1024 on a 4096-CPU kernel -- psutil's set side uses a static 1024-bit cpu_set_t)
    return cases


def bigkernel_main():
    """child side (LD_PRELOAD=ifshim.so): the compiled get path against kernels with more possible CPUs than this machine"""
    import psutil
    cases = json.loads(sys.stdin.read())
    path = os.environ["VF_AFFINITY_FILE"]
    me = psutil.Process()
    out = []
    for case in cases:
        nbits, mask = case[0], case[1]
        if len(case) > 2:
            out.append(_bigkernel_set(me, path, nbits, mask))
            continue
        with open(path, "w") as f:
            f.write("%d %s\n" % (nbits, " ".join(map(str, mask))))
        bad = []
        got = outcome(me.cpu_affinity)
        if got != ("ok", sorted(mask)):
            bad.append(("bigkernel:cpu_affinity-get", "kernel with %d possible CPUs reports %s, cpu_affinity() -> %s"
                        % (nbits, _short(sorted(mask)), _short(freeze(got)))))
        out.append(bad)
    os.unlink(path)
    print("@@RESULT@@" + json.dumps(out) + "@@RESULT@@")


def _kernel_mask(path):
    with open(path) as f:
        return sorted(int(x) for x in f.read().split()[1:])


def _bigkernel_set(me, path, nbits, mask):
    """one set request against the shim kernel with nbits possible CPUs (all of them eligible): from each of two other masks"""
    bad = []
    want = sorted(set(mask))
    for start in (list(range(nbits)), [c for c in (1, nbits - 3) if c not in want] or [0]):
        with open(path, "w") as f:
            f.write("%d %s\n" % (nbits, " ".join(map(str, start))))
        out = outcome(me.cpu_affinity, list(mask))
        kern = _kernel_mask(path)
        got = outcome(me.cpu_affinity)
        if out[0] != "ok" or kern != want or got != ("ok", want):
            bad.append(("bigkernel:cpu_affinity-set", "kernel with %d possible CPUs holding %s: cpu_affinity(%s) -> %s; kernel now %s, "
                        "cpu_affinity() -> %s" % (nbits, _short(start), _short(list(mask)), _short(freeze(out)), _short(kern), _short(freeze(got)))))
            break
    return bad


def _short(v):
    s = repr(v)
    return s if len(s) < 160 else s[:150] + "...]"


def bigkernel(cases):
    import tempfile
    from vf.checks.c17 import SHIM, _ensure_shim
    _ensure_shim()
    fd, path = tempfile.mkstemp(prefix="vf-aff-", dir="/var/tmp")
    os.close(fd)
    env = dict(os.environ, VF_AFFINITY_FILE=path)
    env["LD_PRELOAD"] = (env.get("LD_PRELOAD", "") + " " + SHIM).strip()
    try:
        p = subprocess.run([sys.executable, "-c", "import vf.checks.c18 as m; m.bigkernel_main()"], input=json.dumps(cases),
                           capture_output=True, text=True, env=env)
        if "@@RESULT@@" not in p.stdout:
            raise RuntimeError("bigkernel child failed: rc=%s %s" % (p.returncode, p.stderr[-800:]))
        return [[tuple(x) for x in b] for b in json.loads(p.stdout.split("@@RESULT@@")[1])]
    finally:
        if os.path.exists(path):
            os.unlink(path)


def sim_refusal(arg):
    import psutil
    what, code = arg
    w = World(ncpus=4)
    w.spawn(1, ppid=0, comm=b"init", start=1)
    w.spawn(w.mypid, ppid=1, comm=b"caller", start=50)
    p = w.spawn(4700, ppid=w.mypid, comm=b"subj", start=900)
    use_world(w)
    pr = psutil.Process(4700)

    def hook(world, kind, subj, pid):
        if kind == "syscall:" + what:
            raise OSError(code, os.strerror(code))
    w.hook = hook
    calls = {"setpriority": lambda: pr.nice(3), "ioprio_set": lambda: pr.ionice(2, 3), "affinity_set": lambda: pr.cpu_affinity([1]),
             "prlimit": lambda: pr.rlimit(psutil.RLIMIT_NOFILE, (5, 6)), "getpriority": lambda: pr.nice(), "ioprio_get": lambda: pr.ionice(),
             "affinity_get": lambda: pr.cpu_affinity()}
    out = outcome(calls[what])
    w.hook = None
    exp = {errno.EPERM: "AccessDenied", errno.EACCES: "AccessDenied", errno.ESRCH: "NoSuchProcess", errno.EINVAL: None}[code]
    bad = []
    if exp is not None and not (out[0] == "exc" and out[1] == exp):
        bad.append(("sim:refusal:%s:%s" % (what, errno.errorcode[code]), "%s refused with %s -> %r" % (what, errno.errorcode[code], freeze(out))))
    if exp is None and out[0] == "ok":
        bad.append(("sim:refusal-swallowed:%s" % what, repr(out)))
    if w.effects:
        bad.append(("sim:refused-but-effect", repr(w.effects)))
    return bad


def sim_oneshot(arg):
    """inside one oneshot() block: cached getter, then set, then get -> the get must read the kernel"""
    import psutil
    what = arg
    w = World(ncpus=4)
    w.spawn(1, ppid=0, comm=b"init", start=1)
    w.spawn(w.mypid, ppid=1, comm=b"caller", start=50)
    p = w.spawn(4700, ppid=w.mypid, comm=b"subj", start=900)
    p.nice, p.ioprio, p.rlimits = 1, (2, 4), {7: (100, 200)}
    use_world(w)
    pr = psutil.Process(4700)
    bad = []
    if what.startswith("exc:"):
        # a block that read the status record and was left by an exception; later the cpuset of the task moves: the
        # all-eligible-CPUs form (and the getters) work from the record as it is THEN
        w.ncpus = 8
        p.cpus_allowed_list = "0-3"
        elig = [[0, 1, 2, 3]]
        w.eligible_cpus = lambda proc: list(elig[0]) if proc is p else list(range(8))
        exc = {"KeyError": KeyError("x"), "AccessDenied": psutil.AccessDenied(4700), "KeyboardInterrupt": KeyboardInterrupt()}[what[4:]]

        def blk():
            with pr.oneshot():
                pr.uids()
                pr.num_threads()
                pr.name()
                raise exc
        try:
            blk()
        except BaseException as e:  # noqa: BLE001
            if e is not exc:
                bad.append(("sim:block-left-by-exception:other-exception", repr(e)))
        p.cpus_allowed_list = "2-5"
        elig[0] = [2, 3, 4, 5]
        p.uids = (7, 7, 7, 7)
        out = outcome(pr.cpu_affinity, [])
        if out[0] != "ok" or sorted(p.affinity or []) != [2, 3, 4, 5]:
            bad.append(("sim:affinity:empty-list:stale-eligible-set-after-a-block-left-by-an-exception",
                        "block left by %s, cpuset moved 0-3 -> 2-5: cpu_affinity([]) -> %r, kernel affinity %r" % (what[4:], out, sorted(p.affinity or []))))
        got = outcome(pr.uids)
        if got[0] != "ok" or got[1].real != 7:
            bad.append(("sim:getter-stale-after-a-block-left-by-an-exception", "uids() -> %r, kernel says 7" % (freeze(got),)))
        return bad
    with pr.oneshot():
        for m in ("name", "ppid", "cpu_times", "uids", "num_threads", "status", "memory_info"):
            getattr(pr, m)()
        if what == "nice":
            before = pr.nice()
            pr.nice(5)
            got, kern = pr.nice(), p.nice
        elif what == "ionice":
            before = pr.ionice()
            pr.ionice(psutil.IOPRIO_CLASS_BE, 6)
            g = pr.ionice()
            got, kern = (int(g.ioclass), g.value), p.ioprio
        elif what == "affinity":
            before = pr.cpu_affinity()
            pr.cpu_affinity([2])
            got, kern = pr.cpu_affinity(), sorted(p.affinity)
        else:
            before = pr.rlimit(psutil.RLIMIT_NOFILE)
            pr.rlimit(psutil.RLIMIT_NOFILE, (5, 9))
            got, kern = pr.rlimit(psutil.RLIMIT_NOFILE), p.rlimits[7]
    if got != kern:
        bad.append(("sim:get-after-set-inside-oneshot:%s" % what, "%s: before %r, after the set the kernel reports %r but the getter returned %r"
                    % (what, before, kern, got)))
    return bad


HIST_CPUSETS = [("0-3", [0, 1, 2, 3]), ("2-5", [2, 3, 4, 5]), ("0,2,5", [0, 2, 5]), ("6-7", [6, 7])]
HIST_REQS = [(), (0,), (3,), (4,), (7,), (2, 5), (8,)]


def sim_history(arg):
    """several requests through ONE Process object while the kernel moves the task between cpusets: before every request the
    task is attached to a cpuset (its mask and Cpus_allowed_list become that cpuset's CPUs, as cpuset attach does); every
    request is judged against the eligible set the kernel has AT THAT MOMENT, whatever the object saw earlier"""
    import psutil
    ncpu = 8
    w = World(ncpus=ncpu)
    w.spawn(1, ppid=0, comm=b"init", start=1)
    w.spawn(w.mypid, ppid=1, comm=b"caller", start=50)
    p = w.spawn(4700, ppid=w.mypid, comm=b"subj", start=900)
    q = w.spawn(4701, ppid=w.mypid, comm=b"sib", start=901)
    elig = [list(range(ncpu))]
    w.eligible_cpus = lambda proc: list(elig[0]) if proc is p else list(range(ncpu))
    use_world(w)
    pr = psutil.Process(4700)
    bad = []
    for i, (cs, req) in enumerate(arg):
        shape, cpus = HIST_CPUSETS[cs]
        p.cpus_allowed_list, p.affinity, elig[0] = shape, set(cpus), list(cpus)
        out = outcome(pr.cpu_affinity, list(req))
        want = sorted(set(req) & set(cpus)) if req else sorted(cpus)
        valid = bool(want) and all(0 <= c < ncpu for c in req)
        step = "step %d of %r (cpusets %r)" % (i + 1, [list(r) for _, r in arg], [HIST_CPUSETS[c][0] for c, _ in arg])
        if valid:
            if out[0] != "ok" or sorted(p.affinity or []) != want:
                bad.append(("sim:history:affinity:%s" % ("empty-list" if not req else "x"),
                            "%s: task now in cpuset %r, cpu_affinity(%r) -> %r; kernel affinity %r, wanted %r"
                            % (step, shape, list(req), freeze(out), sorted(p.affinity or []), want)))
        else:
            if not (out[0] == "exc" and out[1] == "ValueError"):
                bad.append(("sim:history:affinity:invalid-not-ValueError", "%s: task now in cpuset %r, cpu_affinity(%r) -> %r"
                            % (step, shape, list(req), freeze(out))))
            if sorted(p.affinity or []) != sorted(cpus):
                bad.append(("sim:history:affinity:invalid-changed", "%s: %r -> %r" % (step, sorted(cpus), sorted(p.affinity or []))))
        g = outcome(pr.cpu_affinity)
        if g != ("ok", sorted(p.affinity or [])):
            bad.append(("sim:history:get", "%s: kernel affinity %r, cpu_affinity() -> %r" % (step, sorted(p.affinity or []), freeze(g))))
        if bad:
            break
    if q.affinity is not None or q.nice != 0:
        bad.append(("sim:history:sibling-changed", "x"))
    return bad


def sim_history_cases(thorough):
    reqs = HIST_REQS if thorough else [r for r in HIST_REQS if r not in ((3,), (7,))]      # (quick tier: run time)
    steps = [(c, r) for c in range(len(HIST_CPUSETS)) for r in reqs]
    cases = [tuple(h) for h in itertools.product(steps, repeat=2)]
    if thorough:
        cases += [tuple(h) for h in itertools.product(steps, repeat=3)]
    return cases


def sim_cases(thorough):
    cases = []
    shapes = [("0-3", 4, [0, 1, 2, 3]), ("0,2", 4, [0, 2]), ("0-1,4-5", 8, [0, 1, 4, 5]), ("3", 4, [3]), ("0-1,3", 4, [0, 1, 3]),
              ("1-2", 4, [1, 2]), ("0-7", 8, list(range(8))), ("0,2-3,6", 8, [0, 2, 3, 6]),
              # CPU 3 (resp. 1) hot-unplugged: as many /proc/stat rows as online CPUs, the highest number beyond the row count
              ("0-2,4", 4, [0, 1, 2, 4]), ("0,2-3", 3, [0, 2, 3]),
              # range ends with different numbers of digits (10+ CPUs)
              ("0-3,8-11", 12, [0, 1, 2, 3, 8, 9, 10, 11]), ("8-11", 12, [8, 9, 10, 11]), ("2-15", 16, list(range(2, 16))),
              ("9-10", 12, [9, 10]),
              # no Cpus_allowed_list line at all: every CPU the system-wide table lists is eligible
              ("none", 4, [0, 1, 2, 3]), ("none", 12, list(range(12))), ("none", 16, list(range(16)))]
    for shape, ncpu, elig in shapes:
        reqs = [()] + [(c,) for c in range(ncpu)] + [tuple(elig), tuple(range(ncpu)), (ncpu,), (elig[0], elig[0])]
        if len(elig) > 1:
            reqs.append(("narrow-then",))
        if thorough:
            for r in (2, 3):
                reqs += list(itertools.combinations(range(ncpu), r))
        for rq in reqs:
            cases.append((shape, ncpu, elig, rq))
    return cases


def run(ctx):
    lr = live_requests(ctx.thorough) if not ctx.alt else []          # (the live part does not depend on the simulated mount)
    res = ctx.pmap(live, lr, chunk=1)
    viols, labels, nlive = [], {}, 0
    for (kind, reqs), (bad, n, labs) in zip(lr, res):
        nlive += n
        for k, v in labs.items():
            labels[kind + ":" + k] = labels.get(kind + ":" + k, 0) + v
        for cause, msg in bad:
            viols.append({"cause": cause, "msg": msg, "case": {"live": kind}})
    sc = sim_cases(ctx.thorough)
    for c, bad in zip(sc, ctx.pmap(sim, sc)):
        for cause, msg in bad:
            viols.append({"cause": cause, "msg": msg, "case": {"sim": [c[0], c[1], c[2], list(c[3])]}})
    rc = [(w_, c) for w_ in ("setpriority", "ioprio_set", "affinity_set", "prlimit", "getpriority", "ioprio_get", "affinity_get")
          for c in (errno.EPERM, errno.EACCES, errno.ESRCH, errno.EINVAL)]
    for c, bad in zip(rc, ctx.pmap(sim_refusal, rc)):
        for cause, msg in bad:
            viols.append({"cause": cause, "msg": msg, "case": {"refusal": list(c)}})
    gc_ = sim_get_cases(ctx.thorough)
    for c, bad in zip(gc_, ctx.pmap(sim_get, gc_)):
        for cause, msg in bad:
            viols.append({"cause": cause, "msg": msg, "case": {"get": list(c)}})
    if not ctx.alt:
        for fn_, tag_ in ((live_self_after_fork, "fork-self"), (debug_badstderr, "debug-badstderr"), (live_rlimit_names, "rlimit-names")):
            for cause, msg in ctx.pmap_fresh(_call0, [fn_])[0]:
                viols.append({"cause": cause, "msg": msg, "case": {"special": tag_}})
    bk = bigkernel_cases(ctx.thorough) if not ctx.alt else []
    for c, bad in zip(bk, bigkernel(bk)):
        for cause, msg in bad:
            viols.append({"cause": cause, "msg": msg, "case": {"bigkernel": c}})
    oc = ["nice", "ionice", "affinity", "rlimit", "exc:KeyError", "exc:AccessDenied", "exc:KeyboardInterrupt"]
    for c, bad in zip(oc, ctx.pmap(sim_oneshot, oc)):
        for cause, msg in bad:
            viols.append({"cause": cause, "msg": msg, "case": {"oneshot": c}})
    hc = sim_history_cases(ctx.thorough)
    for c, bad in zip(hc, ctx.pmap(sim_history, hc)):
        for cause, msg in bad:
            viols.append({"cause": cause, "msg": msg, "case": {"history": [[cs, list(r)] for cs, r in c]}})
    cov = {"history_cases": len(hc), "oneshot_sequences": len(oc), "get_cases": len(gc_), "bigkernel_cases": len(bk),
           "evaluations": nlive + len(sc) + len(rc) + len(oc) + len(gc_) + len(bk) + len(hc),
           "distinct_nontrivial": nlive + len(sc) + len(rc) - 4 + len(gc_) + len(bk) + len(hc),
           "rule": "live: one evaluation = one set request on a sacrificial child on the real kernel, read back through psutil and the OS, "
                   "sibling compared; sim: one evaluation = one (Cpus_allowed_list shape, request) or (syscall, errno) pair; requests are "
                   "distinct by construction (4 repeated nice values excluded)",
           "live_requests": nlive, "sim_cases": len(sc), "refusal_cases": len(rc), "live_outcomes": labels, "cpus": len(ALL_CPUS),
           "exhaustive": True, "samples": [{"sim": [c[0], c[1], c[2], list(c[3])]} for c in sample(sc, 4)]}
    return {"coverage": cov, "violations": viols,
            "assumptions": ["live part runs as root on this kernel: only requests the kernel accepts are judged for read-back",
                            "simulated sched_setaffinity masks the request with the eligible set and fails with EINVAL when nothing is left"]}


def replay(ctx, case):
    if "sim" in case:
        c = case["sim"]
        bad = sim((c[0], c[1], c[2], tuple(c[3])))
    elif "oneshot" in case:
        bad = sim_oneshot(case["oneshot"])
    elif "get" in case:
        bad = sim_get(tuple(case["get"]))
    elif "special" in case:
        bad = {"fork-self": live_self_after_fork, "rlimit-names": live_rlimit_names}.get(case["special"], debug_badstderr)()
    elif "bigkernel" in case:
        bad = bigkernel([case["bigkernel"]])[0]
    elif "history" in case:
        bad = sim_history(tuple((cs, tuple(r)) for cs, r in case["history"]))
    elif "refusal" in case:
        bad = sim_refusal(tuple(case["refusal"]))
    else:
        bad = []
        for kind, reqs in live_requests(ctx.thorough):
            if kind == case["live"]:
                bad += live((kind, reqs))[0]
    return {"violated": bool(bad), "viols": sorted(set(bad))}
