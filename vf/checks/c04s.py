"""C04 (schedule part) — two threads iterating process_iter() at once, with one process-table
change available as a third participant; explorer S."""
from vf.explore import sched as S
from vf.harness import use_world, outcome
from vf.simk.world import World

SCENARIOS = {
    "2-iter": [["iter:none"], ["iter:none"]],
    "2-iter+die": [["iter:none"], ["iter:np"], ["kernel:die:B"]],
    "2-iter+spawn": [["iter:np"], ["iter:none"], ["kernel:spawn:D"]],
    "iter-vs-clear": [["iter:none", "iter:none"], ["clear"]],
    # A and B were both recycled after a first iteration; A's recycling has been noticed already (pending in the module's
    # to-do set) when one thread iterates while the other notices B's
    "iter-vs-is_running": [["iter:none"], ["isr:B"], ],
}
ATTRS = {"none": None, "np": ["name", "ppid"]}
PIDS = {"A": 510, "B": 520, "C": 530, "D": 525}


class Harness:
    def __init__(self, scn):
        import psutil
        self.ps = psutil
        self.scn = scn
        self.watched = [psutil.process_iter.__code__] + [c for c in psutil.process_iter.__code__.co_consts if hasattr(c, "co_code")]

    def run(self, prefix):
        ps = self.ps
        sc = S.Sched(prefix, self.watched)
        w = World(ncpus=2)
        w.spawn(1, ppid=0, comm=b"init", start=1)
        w.spawn(w.mypid, ppid=1, comm=b"caller", start=50)
        for s in ("A", "B", "C"):
            w.tick(1)
            w.spawn(PIDS[s], ppid=1, comm=b"p" + s.encode())
        use_world(w)
        list(ps.process_iter())          # warm cache: identity across later iterations is observable
        warm = dict(ps._pmap)
        if self.scn == "iter-vs-is_running":
            for s_ in ("A", "B"):
                w.vanish(PIDS[s_])
            for s_ in ("A", "B"):
                w.tick(5)
                w.spawn(PIDS[s_], ppid=1, comm=b"new" + s_.encode())
            warm[PIDS["A"]].is_running()
        ev = []

        def hook(world, kind, subj, pid):
            sc.point("access", (kind, str(subj)))
        w.hook = hook
        w.logging = False

        def mk(prog):
            def body():
                for step in prog:
                    if step.startswith("iter:"):
                        listed0 = sorted(w.procs)
                        o = outcome(lambda: [(p.pid, p, getattr(p, "info", None)) for p in ps.process_iter(attrs=ATTRS[step[5:]])])
                        ev.append(("iter", sc.current(), step[5:], listed0, sorted(w.procs), o))
                    elif step.startswith("isr:"):
                        o = outcome(warm[PIDS[step[4:]]].is_running)
                        ev.append(("isr", sc.current(), o))
                    elif step == "clear":
                        o = outcome(ps.process_iter.cache_clear)
                        ev.append(("clear", sc.current(), o))
                    elif step.startswith("kernel:"):
                        _, what, slot = step.split(":")
                        sc.point("kernel", step)
                        if what == "die":
                            w.vanish(PIDS[slot])
                        else:
                            w.tick(1)
                            w.spawn(PIDS[slot], ppid=1, comm=b"new")
                        ev.append(("kernel", sc.current(), step))
            return body
        for i, prog in enumerate(SCENARIOS[self.scn]):
            sc.add(i, mk(prog))
        with S.coop_locks(sc, ps):
            x = sc.run()
        w.hook = None
        # afterwards: two sequential iterations must agree object by object
        a = outcome(lambda: list(ps.process_iter()))
        b = outcome(lambda: list(ps.process_iter()))
        x.after = (a, b, sorted(w.procs))
        x.recycled = {PIDS["A"], PIDS["B"]} if self.scn == "iter-vs-is_running" else set()
        x.events = ev
        x.warm = warm
        return x


def judge(x):
    out = []
    if x.deadlock:
        return [("deadlock", repr(x.deadlock))]
    for t, e in x.errors.items():
        out.append(("thread-raised:%s" % type(e).__name__, repr(e)))
    for e in x.events:
        if e[0] == "clear" and e[2][0] != "ok":
            out.append(("cache_clear-raised:%s" % e[2][1], repr(e[2])))
        if e[0] == "isr" and e[2] != ("ok", False):
            out.append(("is_running-of-a-recycled-pid", repr(e[2])))
        if e[0] != "iter":
            continue
        _, th, akey, listed0, listed1, o = e
        if o[0] != "ok":
            out.append(("iter-raised:%s" % o[1], "thread %s process_iter(%s) raised %r" % (th, akey, o)))
            continue
        pids = [t[0] for t in o[1]]
        if pids != sorted(set(pids)):
            out.append(("iter-order-or-duplicates", "thread %s yielded %r" % (th, pids)))
        always = set(listed0) & set(listed1)
        ever = set(listed0) | set(listed1)
        rec = getattr(x, "recycled", set())
        if rec and set(pids) <= ever and (always - set(pids)) and (always - set(pids)) <= rec:
            # the iteration that acts on a noticed recycling drops the old entry without yielding a fresh one: the recorded finding
            out.append(("iter-omits-recycled-pid-once", "thread %s did not yield recycled pid(s) %r" % (th, sorted(always - set(pids)))))
        elif not (always <= set(pids) <= ever):
            out.append(("iter-coverage", "thread %s yielded %r; listed throughout %r, ever %r" % (th, pids, sorted(always), sorted(ever))))
        if ATTRS[akey] is not None:
            for pid, p, info in o[1]:
                if not isinstance(info, dict) or set(info) != set(ATTRS[akey]):
                    out.append(("info-keys", "pid %d info %r" % (pid, info)))
    a, b, listed = x.after
    if a[0] != "ok" or b[0] != "ok":
        out.append(("sequential-iter-raised", repr((a, b))[:300]))
    else:
        pa, pb = [p.pid for p in a[1]], [p.pid for p in b[1]]
        rec = getattr(x, "recycled", set())
        if rec and pb == listed and set(pa) <= set(listed) and (set(listed) - set(pa)) <= rec and pa == sorted(pa):
            out.append(("iter-omits-recycled-pid-once", "first sequential iteration after the concurrent phase omitted %r"
                        % sorted(set(listed) - set(pa)))) if pa != listed else None
        elif pa != listed or pb != listed:
            out.append(("sequential-iter-coverage", "after the concurrent phase: %r / %r, table %r" % (pa, pb, listed)))
        elif any(p is not q for p, q in zip(a[1], b[1])):
            out.append(("sequential-iter-identity", "two sequential iterations yielded different objects for the same listed pids"))
    return out


_H = None


def _task(arg):
    scn, bound, prefix = arg
    global _H
    if _H is None or _H.scn != scn:
        _H = Harness(scn)
    stats, viols, outcomes = {}, [], set()

    def check(x, pfx):
        outcomes.add(tuple(str([t[0] for t in e[5][1]]) if e[0] == "iter" and e[5][0] == "ok" else str(e[-1])[:40] for e in x.events))
        for cause, msg in judge(x):
            viols.append({"cause": cause, "msg": msg, "case": {"part": "S", "scenario": scn, "schedule": x.choices()}})
    S.explore(_H.run, bound, prefix, check, stats)
    return stats, viols, len(outcomes)


def run_s(ctx):
    bound = 3 if ctx.thorough else 2
    tot = {"executions": 0, "points": 0}
    viols, per, distinct = [], {}, 0
    for scn in SCENARIOS:
        b = bound if len(SCENARIOS[scn]) < 3 else (2 if ctx.thorough else 1)
        h = Harness(scn)
        root = h.run([])
        for cause, msg in judge(root):
            viols.append({"cause": cause, "msg": msg, "case": {"part": "S", "scenario": scn, "schedule": root.choices()}})
        tasks, ch = [], root.choices()
        for i, p in enumerate(root.points):
            if len(p.enabled) < 2:
                continue
            cost = root.preemptions_before(i) + (1 if p.running_enabled else 0)
            if cost > b:
                continue
            for alt in range(1, len(p.enabled)):
                tasks.append((scn, b, ch[:i] + [alt]))
        n = 1
        for st, vs, nd in ctx.pmap(_task, tasks, chunk=1):
            n += st.get("executions", 0)
            tot["points"] += st.get("points", 0)
            viols += vs
            distinct += nd
        tot["executions"] += n
        per[scn] = {"executions": n, "points_in_default_schedule": len(root.points), "preemption_bound": b}
    return {"coverage": {"executions": tot["executions"], "transitions": tot["points"], "scenarios": per,
                         "distinct_outcome_vectors": distinct, "preemption_bound": bound}, "violations": viols}


def replay_s(ctx, case):
    h = Harness(case["scenario"])
    x = h.run(case["schedule"])
    j = judge(x)
    return {"violated": bool(j), "viols": j, "events": [str(e)[:200] for e in x.events]}
