"""C13 (schedule part) — memory_maps() / memory_full_info() of two processes (or of one) asked by two threads at once:
every call answers exactly as it does alone (the mappings do not change meanwhile); explorer S."""
from vf.explore import sched as S
from vf.harness import use_world, outcome
from vf.checks import c13

SCENARIOS = {
    # thread programs: (object, call)
    "maps-vs-maps": [[("a", "maps")], [("b", "maps")]],
    "maps-vs-full": [[("a", "maps")], [("b", "full")]],
    "same-process": [[("a", "maps")], [("a", "grouped")]],
    # one mapping each, one pre-emption more (a value handed from one thread to the other AND BACK takes two)
    "tiny-maps-vs-maps": [[("a", "maps")], [("b", "maps")]],
    "tiny-maps-vs-full": [[("a", "maps")], [("b", "full")]],
    "tiny-same-process": [[("a", "maps")], [("a", "grouped")]],
}
EXTRA_BOUND = {"tiny-maps-vs-maps": 1, "tiny-maps-vs-full": 1, "tiny-same-process": 1}
THOROUGH_ONLY = ("tiny-maps-vs-full", "tiny-same-process")
PATHS_A = [b"/lib/a.so", b"", b"/lib/a.so"]
PATHS_B = [b"[heap]", b"/srv/a b"]


def _rows(res):
    return [dict(addr=r.addr, perms=r.perms, path=r.path, **{f: getattr(r, f) for f in c13.FIELDS}) for r in res]


class Harness:
    def __init__(self, scn):
        import psutil
        self.ps = psutil
        self.scn = scn
        P = psutil._pslinux.Process
        fns = [P.memory_maps, P.memory_full_info, getattr(P, "_parse_smaps", None), getattr(P, "_parse_smaps_rollup", None),
               psutil.Process.memory_maps, psutil.Process.memory_full_info]
        self.watched = []

        def add(c):
            if c in self.watched:
                return
            self.watched.append(c)
            for k in c.co_consts:
                if hasattr(k, "co_code"):
                    add(k)
        for f in fns:
            if f is None:
                continue
            g = getattr(f, "__func__", f)
            while True:
                c = getattr(g, "__code__", None)
                if c is not None:
                    add(c)
                if not hasattr(g, "__wrapped__"):
                    break
                g = g.__wrapped__

    def world(self):
        w, pa = c13.mk_world(0)
        pb = w.spawn(pa.pid + 100, ppid=w.mypid, comm=b"y", start=778)
        for p, paths, sc_ in ((pa, PATHS_A, 1), (pb, PATHS_B, 7)):
            p.statm = (211, 212, 213, 214, 215, 216, 217)
            if self.scn.startswith("tiny"):
                paths = paths[:1]
            p.maps = [c13.mk_mapping(i + (0 if p is pa else 5), pa_, sc_, ()) for i, pa_ in enumerate(paths)]
            if self.scn.startswith("tiny"):
                # (an old kernel's short record: fewer lines per mapping, fewer points, one more pre-emption affordable)
                for m in p.maps:
                    m.omit |= {k for k in m.kb if k not in ("Size", "Rss", "Pss", "Swap")}
            p.rollup = True
        return w, pa, pb

    def call(self, objs, who, what):
        o = objs[who]
        if what == "maps":
            r = outcome(o.memory_maps, grouped=False)
            return (r[0], _rows(r[1])) if r[0] == "ok" else r
        if what == "grouped":
            r = outcome(o.memory_maps, grouped=True)
            return (r[0], sorted((x.path, tuple(getattr(x, f) for f in c13.FIELDS)) for x in r[1])) if r[0] == "ok" else r
        r = outcome(o.memory_full_info)
        return (r[0], (r[1].uss, r[1].pss, r[1].swap, r[1].rss)) if r[0] == "ok" else r

    def run(self, prefix):
        ps = self.ps
        sc = S.Sched(prefix, self.watched)
        w, pa, pb = self.world()
        use_world(w)
        w.logging = False
        ps._pslinux.HAS_PROC_SMAPS_ROLLUP = True
        objs = {"a": ps.Process(pa.pid), "b": ps.Process(pb.pid)}
        # what each call answers alone
        alone = {(who, what): self.call(objs, who, what) for prog in SCENARIOS[self.scn] for who, what in prog}
        ev = []

        def hook(world, kind, subj, pid):
            sc.point("access", (kind, str(subj)))
        w.hook = hook

        def mk(tid, prog):
            def body():
                for who, what in prog:
                    ev.append((tid, who, what, self.call(objs, who, what)))
            return body
        for i, prog in enumerate(SCENARIOS[self.scn]):
            sc.add(i, mk(i, prog))
        with S.coop_locks(sc, ps):
            x = sc.run()
        w.hook = None
        x.events, x.alone = ev, alone
        return x


def judge(x):
    out = []
    if x.deadlock:
        return [("deadlock", repr(x.deadlock))]
    for t, e in x.errors.items():
        out.append(("thread-raised:%s" % type(e).__name__, repr(e)))
    for tid, who, what, o in x.events:
        exp = x.alone[(who, what)]
        if exp[0] != "ok":
            out.append(("sequential-call-failed", repr(exp)[:300]))
        elif o[0] != "ok":
            out.append(("concurrent-call-raised:%s" % o[1], "thread %d %s.%s raised %r" % (tid, who, what, o)))
        elif o != exp:
            out.append(("concurrent-call:%s-differs-from-the-call-made-alone" % what,
                        "thread %d %s.%s: got %r, alone %r" % (tid, who, what, o[1], exp[1])))
    return out


_H = None


def _task(arg):
    scn, bound, prefix = arg
    global _H
    if _H is None or _H.scn != scn:
        _H = Harness(scn)
    stats, viols, outcomes = {}, [], set()

    def check(x, pfx):
        outcomes.add(repr([(e[0], e[1], e[2], e[3][0]) for e in x.events]))
        for cause, msg in judge(x):
            viols.append({"cause": cause, "msg": msg, "case": {"part": "S", "scenario": scn, "schedule": x.choices()}})
    S.explore(_H.run, bound, prefix, check, stats)
    return stats, viols, len(outcomes)


def run_s(ctx):
    # (the full-size scenarios are explored with one pre-emption in both tiers: with two, a few first-level subtrees of the
    #  800-point schedules take tens of minutes each; the second pre-emption is spent on the one-mapping scenarios instead)
    bound = 1
    tot = {"executions": 0, "points": 0}
    viols, per, distinct = [], {}, 0
    bound0 = bound
    for scn in SCENARIOS:
        if scn in THOROUGH_ONLY and not ctx.thorough:
            continue
        bound = max(bound0, 1 + EXTRA_BOUND.get(scn, 0))
        h = Harness(scn)
        root = h.run([])
        for cause, msg in judge(root):
            viols.append({"cause": cause, "msg": msg, "case": {"part": "S", "scenario": scn, "schedule": root.choices()}})
        tasks, ch = [], root.choices()
        for i, p in enumerate(root.points):
            if len(p.enabled) < 2:
                continue
            cost = root.preemptions_before(i) + (1 if p.running_enabled else 0)
            if cost > bound:
                continue
            for alt in range(1, len(p.enabled)):
                tasks.append((scn, bound, ch[:i] + [alt]))
        n = 1
        for st, vs, nd in ctx.pmap(_task, tasks, chunk=1):
            n += st.get("executions", 0)
            tot["points"] += st.get("points", 0)
            viols += vs
            distinct += nd
        tot["executions"] += n
        per[scn] = {"executions": n, "points_in_default_schedule": len(root.points), "preemption_bound": bound}
    return {"coverage": {"executions": tot["executions"], "transitions": tot["points"], "scenarios": per,
                         "distinct_outcome_vectors": distinct, "preemption_bound": bound0}, "violations": viols}


def replay_s(ctx, case):
    h = Harness(case["scenario"])
    x = h.run(case["schedule"])
    j = judge(x)
    return {"violated": bool(j), "viols": j, "events": [str(e)[:300] for e in x.events]}
