"""C10 (schedule part) — two threads calling net_io_counters()/cache_clear() concurrently
while the kernel counters only ever grow; explorer S (pre-emption bounded)."""
from vf.explore import sched as S
from vf.harness import use_world, outcome
from vf.simk.world import World

NET_HDR = (b"Inter-|   Receive                                                |  Transmit\n"
           b" face |bytes    packets errs drop fifo frame compressed multicast|bytes    packets errs drop fifo colls carrier compressed\n")
SCENARIOS = {
    "2x1-calls": [[("call",), ("call",)], [("call",)]],
    "2x1-disk": [[("disk",), ("disk",)], [("disk",)]],
    "2x2-calls": [[("call",), ("call",)], [("call",), ("call",)]],
    "calls-vs-clear": [[("call",), ("call",), ("call",)], [("clear",), ("call",)]],
    "net-vs-disk": [[("call",), ("call",)], [("disk",), ("disk",)]],
}


class Harness:
    def __init__(self, scn):
        import psutil
        self.ps = psutil
        self.scn = scn
        wn = psutil._common._WrapNumbers
        self.watched = [wn.run.__code__, wn._remove_dead_reminders.__code__, wn._add_dict.__code__, wn.cache_clear.__code__,
                        psutil._common.wrap_numbers.__code__, psutil.net_io_counters.__code__, psutil.disk_io_counters.__code__]

    def run(self, prefix):
        ps = self.ps
        sc = S.Sched(prefix, self.watched)
        w = World()
        use_world(w)
        v = {"net": 0, "disk": 0}
        ev = []
        clock = [0]

        def render():
            n = 100 + v["net"]
            cols = [n] * 16
            w.set_file("/proc/net/dev", NET_HDR + b"  eth0: " + b" ".join(b"%d" % c for c in cols) + b"\n")
            d = 100 + v["disk"]
            w.set_file("/proc/diskstats", b"   8       0 sda " + b" ".join(b"%d" % d for _ in range(17)) + b"\n")
        render()

        def hook(world, kind, subj, pid):
            sc.point("access", (kind, str(subj)))
            if kind == "read" and subj in ("/proc/net/dev", "/proc/diskstats"):
                k = "net" if subj.endswith("dev") else "disk"
                clock[0] += 1
                ev.append((clock[0], "read", sc.current(), k, 100 + v[k]))    # content was fixed when the file was opened
                v[k] += 1          # the kernel counters only grow: the next reader sees a larger snapshot
                render()
        cl = S.coop_locks(sc, ps)
        cl.__enter__()
        w.hook = hook
        w.logging = False

        def stamp(*a):
            clock[0] += 1
            ev.append((clock[0],) + a)

        def mk(prog):
            def body():
                for step in prog:
                    if step[0] == "call":
                        stamp("start", sc.current(), "net")
                        o = outcome(ps.net_io_counters, pernic=True, nowrap=True)
                        stamp("end", sc.current(), "net", o if o[0] == "exc" else ("ok", o[1]["eth0"].bytes_sent if o[1] else None))
                    elif step[0] == "disk":
                        stamp("start", sc.current(), "disk")
                        o = outcome(ps.disk_io_counters, perdisk=True, nowrap=True)
                        stamp("end", sc.current(), "disk", o if o[0] == "exc" else ("ok", o[1]["sda"].read_count if o[1] else None))
                    elif step[0] == "clear":
                        stamp("start", sc.current(), "clear")
                        o = outcome(ps.net_io_counters.cache_clear)
                        stamp("end", sc.current(), "clear", o if o[0] == "exc" else ("ok", None))
            return body
        try:
            for i, prog in enumerate(SCENARIOS[self.scn]):
                sc.add(i, mk(prog))
            x = sc.run()
            w.hook = None
            # afterwards, sequentially: no wrap ever happened, so the history must be clean
            fin, raw = {}, {}
            for k, fn, dev, fld in (("net", ps.net_io_counters, "eth0", "bytes_sent"), ("disk", ps.disk_io_counters, "sda", "read_count")):
                kw = {"pernic": True} if k == "net" else {"perdisk": True}
                o = outcome(fn, nowrap=True, **kw)
                fin[k] = o if o[0] == "exc" else ("ok", getattr(o[1][dev], fld))
                raw[k] = 100 + v[k]          # (hook is off: no bump) the snapshot that final call has just read
            x.final = fin
            x.final_raw = raw
        finally:
            cl.__exit__()
            w.hook = None
        x.events = ev
        return x


def judge(x):
    out = []
    if x.deadlock:
        return [("deadlock", repr(x.deadlock))]
    for t, e in x.errors.items():
        out.append(("thread-raised:%s" % type(e).__name__, repr(e)))
    reads = [e for e in x.events if e[1] == "read"]
    open_ = {}
    for e in x.events:
        if e[1] == "start":
            open_[e[2]] = e
        elif e[1] == "end":
            st = open_.pop(e[2])
            kind, res = e[3], e[4]
            if res[0] == "exc":
                out.append(("call-raised:%s:%s" % (kind, res[1]), "thread %s %s raised %r" % (e[2], kind, res)))
                continue
            if kind == "clear":
                continue
            mine = [r[4] for r in reads if r[2] == e[2] and r[3] == kind and st[0] < r[0] < e[0]]
            if res[1] not in mine:
                out.append(("value-is-not-a-raw-kernel-value:%s" % kind,
                            "thread %s %s_io_counters() returned %r; the counter only ever grew and this call read %r "
                            "(an overtaken caller is mistaken for a wrap)" % (e[2], kind, res[1], mine)))
    for k in ("net", "disk"):
        f = x.final.get(k)
        if f is not None and (f[0] != "ok" or f[1] != x.final_raw[k]):
            out.append(("history-corrupted-after-concurrent-calls:%s" % k,
                        "a later sequential %s call returned %r, raw value %r: a bogus wrap offset persists" % (k, f, x.final_raw[k])))
    return out


_H = None


def _task(arg):
    scn, bound, prefix = arg
    global _H
    if _H is None or _H.scn != scn:
        _H = Harness(scn)
    stats, viols, outcomes = {}, [], set()

    def check(x, pfx):
        outcomes.add(tuple(str(e[4]) for e in x.events if e[1] == "end"))
        for cause, msg in judge(x):
            viols.append({"cause": cause, "msg": msg, "case": {"part": "S", "scenario": scn, "schedule": x.choices()}})
    S.explore(_H.run, bound, prefix, check, stats)
    return stats, viols, len(outcomes)


def run_s(ctx):
    bound = 3 if ctx.thorough else 2
    tot = {"executions": 0, "points": 0}
    viols, per, distinct = [], {}, 0
    for scn in SCENARIOS:
        bound = (3 if scn in ("2x1-calls", "2x1-disk") else 2) if ctx.thorough else (2 if scn == "2x1-calls" else 1)
        h = Harness(scn)
        root = h.run([])
        for cause, msg in judge(root):
            viols.append({"cause": cause, "msg": msg, "case": {"part": "S", "scenario": scn, "schedule": root.choices()}})
        tasks, ch = [], root.choices()
        for i, p in enumerate(root.points):
            if len(p.enabled) < 2:
                continue
            cost = root.preemptions_before(i) + (1 if p.running_enabled else 0)
            if cost > bound:
                continue
            for alt in range(1, len(p.enabled)):
                tasks.append((scn, bound, ch[:i] + [alt]))
        n = 1
        for st, vs, nd in ctx.pmap(_task, tasks, chunk=1):
            n += st.get("executions", 0)
            tot["points"] += st.get("points", 0)
            viols += vs
            distinct += nd
        tot["executions"] += n
        per[scn] = {"executions": n, "points_in_default_schedule": len(root.points), "preemption_bound": bound}
    return {"coverage": {"executions": tot["executions"], "transitions": tot["points"], "scenarios": per,
                         "distinct_outcome_vectors": distinct, "preemption_bound": bound,
                         "programs": SCENARIOS}, "violations": viols}


def replay_s(ctx, case):
    h = Harness(case["scenario"])
    x = h.run(case["schedule"])
    j = judge(x)
    return {"violated": bool(j), "viols": j, "events": [list(map(str, e)) for e in x.events], "final": x.final}
