"""C05 — children(), parent() and parents() describe the real process tree.
Explorer I: ALL process tables with N processes (pids 1..N): every parent function into
{0,1..N,N+1} (forests, self-loops, cycles, unlisted parents) x every weak ordering of start
times; every process calls children(), children(recursive=True), parent(), parents(); plus the
caller's own pid recycled.  Reference: MUST/MAY sets derived from the statement."""
import itertools

from vf.harness import use_world, outcome, sample
from vf.simk.world import World

ID = "C05"
LEVEL = "exploration"
ALT_MOUNT = True          # run once more with procfs mounted at /hostproc (vf/child.py)
BUDGET = 4000


class Budget(Exception):
    pass


def weak_orderings(n):
    out = set()
    for f in itertools.product(range(n), repeat=n):
        ranks = sorted(set(f))
        out.add(tuple(ranks.index(x) for x in f))
    return sorted(out)


NAMES = [b") S 3 (", b"x) S 1 (y", b") ", b"a b", b"(", b")", b"1) R 2 3 4", b"\xff) S 2 ", b"p (q) r"]


def build_world(parents, ranks, seed, names=None):
    n = len(parents)
    w = World(ncpus=1, mypid=9999)
    for i in range(n):
        pid = i + 1
        comm = b"p%d" % pid if not names or names[i] is None else names[i]
        # (start times one clock tick apart: the finest difference the kernel can publish)
        w.spawn(pid, ppid=parents[i], comm=comm, start=1000 + ranks[i] + (seed % 7))
    return w


def reference(parents, ranks):
    n = len(parents)
    pids = list(range(1, n + 1))
    ppid = {p: parents[p - 1] for p in pids}
    start = {p: ranks[p - 1] for p in pids}
    kids = {p: [q for q in pids if ppid[q] == p] for p in pids + [0, n + 1]}
    ref = {}
    for p in pids:
        direct = sorted(q for q in kids[p] if q != p and start[q] >= start[p])
        # MUST: walk that expands only included processes
        must, seen, stack = [], set(), [p]
        while stack:
            x = stack.pop()
            if x in seen:
                continue
            seen.add(x)
            for q in kids.get(x, []):
                if q != p and start[q] >= start[p] and q not in must:
                    must.append(q)
                    stack.append(q)
        # MAY: everything reachable through parent links, not older than the caller, not the caller
        reach, seen, stack = set(), set(), [p]
        while stack:
            x = stack.pop()
            if x in seen:
                continue
            seen.add(x)
            for q in kids.get(x, []):
                reach.add(q)
                stack.append(q)
        may = {q for q in reach if q != p and start[q] >= start[p]}
        # parent
        def par(x):
            pp = ppid[x]
            if pp in start and start[pp] <= start[x]:
                return pp
            return None
        chain, cur, cyc = [], p, False
        visited = {p}
        while True:
            if cur == min(pids):
                break
            nx = par(cur)
            if nx is None:
                break
            if nx in visited:
                cyc = True
                break
            chain.append(nx)
            visited.add(nx)
            cur = nx
        ref[p] = dict(direct=direct, must=sorted(must), may=sorted(may), parent=par(p), lowest=(p == min(pids)),
                      chain=chain, cyclic=cyc)
    return ref


def features(parents, p):
    n = len(parents)
    f = []
    if parents[p - 1] == p:
        f.append("self-loop")
    # cycle through p?
    cur, steps = parents[p - 1], 0
    while 1 <= cur <= n and steps <= n:
        if cur == p:
            if "self-loop" not in f:
                f.append("cycle-through-caller")
            break
        cur = parents[cur - 1]
        steps += 1
    return "+".join(f) or "acyclic-at-caller"


def _run_world(arg):
    parents, ranks, seed = arg[:3]
    names = arg[3] if len(arg) > 3 else None
    if names:
        names = [None if x is None else x.encode("latin-1") for x in names]
    opts = arg[4] if len(arg) > 4 else {}
    import psutil
    w = build_world(parents, ranks, seed, names)
    use_world(w)
    w.logging = False
    if opts.get("nfields"):
        # stat records as older kernels print them (44 fields up to 3.2, 47 in 3.3/3.4, 52 since 3.5)
        for p_ in w.procs.values():
            p_.stat_nfields = opts["nfields"]
    if opts.get("rev"):
        # a procfs whose listing is not in ascending pid order (lxcfs-like), and a program that has listed pids before
        w.listing_reversed = True
        outcome(psutil.pids)
    count = [0]

    def hook(world, kind, subj, pid):
        count[0] += 1
        if count[0] > BUDGET:
            raise Budget()
    w.hook = hook
    ref = reference(parents, ranks)
    bad = []
    skipped = 0
    n = len(parents)
    for p in range(1, n + 1):
        count[0] = 0
        pr = psutil.Process(p)
        r = ref[p]
        feat = features(parents, p)
        if opts.get("clockstep"):
            # the object exists; then the wall clock is stepped (the kernel publishes another btime) and the program asks the
            # system-wide boot_time() again: nobody's pid was recycled, the table is the same, so are the answers
            w.btime += opts["clockstep"]
            outcome(psutil.boot_time)
        count[0] = 0
        got = outcome(lambda: [c.pid for c in pr.children()])
        if got[0] != "ok" or sorted(got[1]) != r["direct"] or len(set(got[1])) != len(got[1]):
            what = "includes-itself" if got[0] == "ok" and p in got[1] else ("raised-%s" % got[1] if got[0] != "ok" else "wrong")
            bad.append(("children:%s:%s" % (what, feat), "pid %d children() -> %r expected %r" % (p, got, r["direct"])))
        count[0] = 0
        got = outcome(lambda: [c.pid for c in pr.children(recursive=True)])
        if got[0] != "ok":
            what = "does-not-terminate" if got[1] == "Budget" else "raised-%s" % got[1]
            bad.append(("children-recursive:%s:%s" % (what, feat), "pid %d -> %r" % (p, got)))
        else:
            res = got[1]
            if p in res:
                bad.append(("children-recursive:includes-itself:%s" % feat, "pid %d children(recursive=True) -> %r" % (p, res)))
            elif len(set(res)) != len(res):
                bad.append(("children-recursive:duplicates:%s" % feat, "pid %d -> %r" % (p, res)))
            elif not (set(r["must"]) <= set(res) <= set(r["may"])):
                what = "missing" if not set(r["must"]) <= set(res) else "extra"
                bad.append(("children-recursive:%s:%s" % (what, feat), "pid %d -> %r, MUST %r MAY %r" % (p, res, r["must"], r["may"])))
        count[0] = 0
        got = outcome(lambda: (lambda x: None if x is None else x.pid)(pr.parent()))
        okp = {r["parent"]} | ({None} if r["lowest"] else set())
        if r["lowest"]:
            okp = {None, r["parent"]}
        if got[0] != "ok" or got[1] not in okp:
            bad.append(("parent:%s" % feat, "pid %d parent() -> %r expected one of %r" % (p, got, sorted(okp, key=str))))
        if r["cyclic"]:
            skipped += 1          # the reference chain itself is cyclic: outside the statement
        else:
            count[0] = 0
            got = outcome(lambda: [c.pid for c in pr.parents()])
            if got[0] != "ok" or got[1] != r["chain"]:
                bad.append(("parents:%s" % feat, "pid %d parents() -> %r expected %r" % (p, got, r["chain"])))
    w.hook = None
    return bad, skipped


# what may have been asked earlier inside the same oneshot() block (every tree question, the identity questions they rest on, and
# one that has nothing to do with the tree)
PRIOR_CALLS = {"is_running": lambda pr: pr.is_running(), "ppid": lambda pr: pr.ppid(), "children": lambda pr: pr.children(),
               "children-recursive": lambda pr: pr.children(recursive=True), "parent": lambda pr: pr.parent(),
               "parents": lambda pr: pr.parents(), "name": lambda pr: pr.name()}
ONESHOT_PRIORS = ["none", "is_running", "ppid", "children", "children-recursive", "parent", "parents", "name"]
# enumerated: the priors that do not plant ppid() in the block cache (ppid() is memoised inside a block -- C16's "as of the first
# read in that block" -- so parent()/parents() after it are answered from the block's record; what C05 demands there is left open)
ONESHOT_PRIORS_RUN = ["none", "is_running", "children", "children-recursive", "name"]


def _run_reused(arg):
    """the caller's own pid has been recycled: everything raises NoSuchProcess"""
    parents, ranks, seed, victim = arg[:4]
    import psutil
    w = build_world(parents, ranks, seed)
    if len(arg) > 4 and arg[4]:
        w.mypid = victim          # the recycled pid is the one of the interpreter that calls psutil (object inherited over fork)
    use_world(w)
    w.logging = False
    pr = psutil.Process(victim)
    old = w.procs[victim]
    prior = arg[6] if len(arg) > 6 else None
    cm = None
    if prior is not None:
        # the questions are asked inside ONE `with pr.oneshot():` block that was opened -- and in which `prior` was already asked
        # once -- while the pid still belonged to the original process; the pid is recycled while the block is open
        cm = pr.oneshot()
        cm.__enter__()
        if prior != "none":
            outcome(PRIOR_CALLS[prior], pr)
    w.vanish(victim)
    if len(arg) > 5 and arg[5]:
        outcome(pr.wait, 0)         # the caller has waited for the process first (a finished wait() is remembered by the object)
    w.tick(500)
    w.spawn(victim, ppid=old.ppid, comm=b"new", start=old.start + 700)
    bad = []
    for name, fn in (("children", lambda: pr.children()), ("children-recursive", lambda: pr.children(recursive=True)),
                     ("parent", lambda: pr.parent()), ("parents", lambda: pr.parents())):
        if victim == 1 and name in ("parent", "parents"):
            continue       # the lowest listed pid: None / [] is the documented answer
        got = outcome(fn)
        if not (got[0] == "exc" and got[1] == "NoSuchProcess"):
            bad.append(("recycled-caller:%s" % name, "%s() on a recycled pid -> %r" % (name, got if got[0] != "ok" else ("ok", str(got[1])))))
    if cm is not None:
        outcome(cm.__exit__, None, None, None)
    return bad, 0


def _run_after_history(arg):
    """start from a non-initial state: process_iter() has cached every process, then one pid is recycled by a
    younger process (possibly with another parent); the tree functions must describe the NEW table"""
    parents, ranks, seed, victim, new_ppid = arg
    import psutil
    w = build_world(parents, ranks, seed)
    use_world(w)
    w.logging = False
    n = len(parents)
    list(psutil.process_iter())
    held = {}
    for p in range(1, n + 1):
        o = psutil.Process(p)
        outcome(o.ppid)
        outcome(o.parent)           # queried once while the old table was in place
        held[p] = o
    w.vanish(victim)
    w.tick(5000)
    w.spawn(victim, ppid=new_ppid, comm=b"recycled", start=max(p.start for p in w.procs.values()) + 300)
    parents2 = [w.procs[p].ppid for p in range(1, n + 1)]
    starts = sorted({w.procs[p].start for p in range(1, n + 1)})
    ranks2 = [starts.index(w.procs[p].start) for p in range(1, n + 1)]
    ref = reference(parents2, ranks2)
    bad = []
    for p in range(1, n + 1):
        if p == victim:
            continue
        o, r = held[p], ref[p]
        got = outcome(o.ppid)
        if got != ("ok", parents2[p - 1]):
            bad.append(("after-reparenting:ppid-on-held-object", "pid %d (object created before the change): ppid() -> %r, kernel says %r"
                        % (p, got, parents2[p - 1])))
        got = outcome(o.parent)
        okp = {r["parent"]} | ({None} if r["lowest"] else set())
        if got[0] != "ok" or (None if got[1] is None else got[1].pid) not in okp:
            bad.append(("after-reparenting:parent-on-held-object", "pid %d: parent() -> %r expected one of %r"
                        % (p, got if got[0] != "ok" else getattr(got[1], "pid", None), sorted(okp, key=str))))
    for p in range(1, n + 1):
        pr = psutil.Process(p)
        r = ref[p]
        got = outcome(lambda: sorted(c.pid for c in pr.children()))
        if got != ("ok", r["direct"]):
            bad.append(("after-recycling:children", "pid %d children() -> %r expected %r" % (p, got, r["direct"])))
        got = outcome(pr.parent)
        okp = {r["parent"]} | ({None} if r["lowest"] else set())
        if got[0] != "ok" or (None if got[1] is None else got[1].pid) not in okp:
            bad.append(("after-recycling:parent", "pid %d parent() -> %r expected one of %r" % (p, got if got[0] != "ok" else getattr(got[1], "pid", None), sorted(okp, key=str))))
        elif got[1] is not None and not got[1].is_running():
            bad.append(("after-recycling:parent-is-a-dead-object", "pid %d parent() returned an object for pid %d whose is_running() is False"
                        % (p, got[1].pid)))
        if not r["cyclic"]:
            got = outcome(lambda: [c.pid for c in pr.parents()])
            if got != ("ok", r["chain"]):
                bad.append(("after-recycling:parents", "pid %d parents() -> %r expected %r" % (p, got, r["chain"])))
        got = outcome(lambda: [c.pid for c in pr.children(recursive=True)])
        if got[0] != "ok" or not (set(r["must"]) <= set(got[1]) <= set(r["may"])) or len(set(got[1])) != len(got[1]):
            bad.append(("after-recycling:children-recursive", "pid %d -> %r MUST %r MAY %r" % (p, got, r["must"], r["may"])))
    return bad, 0


def _run_fault(arg):
    """tree walk with one process of the table vanishing just before access i (F): only psutil errors may escape,
    and what is returned lies between the walk of the table before and after"""
    parents, seed, caller, recursive, idx = arg
    import psutil
    from vf.explore.deviate import PlanHook
    ranks = list(range(len(parents)))
    w = build_world(parents, ranks, seed)
    use_world(w)
    w.logging = False
    pr = psutil.Process(caller)

    def apply(world, dev, kind, subj, pid):
        if dev == "eperm":
            if pid in world.procs and pid != caller:
                import errno as _e
                from vf.simk.world import oserr
                raise oserr(_e.EPERM, str(subj))          # this one access is refused ...
            return
        if pid in world.procs and pid != caller:
            world.vanish(pid)
    if isinstance(idx, (list, tuple)):
        plan = tuple((int(i), str(d)) for i, d in idx)    # ... and the same relative is gone at a later one
    else:
        plan = ((idx, "vanish"),) if idx is not None else ()
    hook = PlanHook(plan, apply)
    w.hook = hook
    got = outcome(lambda: sorted(c.pid for c in pr.children(recursive=recursive)))
    w.hook = None
    bad = []
    before = reference(parents, ranks)[caller]
    if got[0] != "ok":
        if got[1] not in ("NoSuchProcess", "ZombieProcess", "AccessDenied"):
            bad.append(("fault:children-leaked:%s" % got[1], "children(recursive=%s) of pid %d raised %r when a process vanished before access %r"
                        % (recursive, caller, got, hook.accesses[idx] if isinstance(idx, int) and idx < len(hook.accesses) else idx)))
        elif got[2].get("pid") != caller:
            bad.append(("fault:children-raised-for-another-pid", "children() of live pid %d raised %r" % (caller, got)))
    else:
        may = set(before["may"] if recursive else before["direct"])
        # orphans of the vanished process are re-parented by the kernel: the table after the event is as good an answer
        after_pp = {q: pp.ppid for q, pp in w.procs.items() if q != caller}
        reach, stack = set(), [caller]
        while stack:
            x = stack.pop()
            for q, pq in after_pp.items():
                if pq == x and q not in reach:
                    reach.add(q)
                    if recursive:
                        stack.append(q)
        may |= reach
        if not set(got[1]) <= may or len(set(got[1])) != len(got[1]):
            bad.append(("fault:children-extra", "got %r, table before %r" % (got[1], sorted(may))))
        # MUST: what is reachable from the caller without going through the process that vanished (its own subtree may be lost
        # with it, nothing else may)
        gone = set(range(1, len(parents) + 1)) - set(w.procs)
        ref_must = set(before["must"] if recursive else before["direct"])
        pp = {i + 1: parents[i] for i in range(len(parents))}
        keep = set()
        for q in ref_must:
            x, ok, seen = q, True, set()
            while x != caller and x in pp and x not in seen:
                seen.add(x)
                if x in gone:
                    ok = False
                    break
                x = pp[x]
            if ok and x == caller:
                keep.add(q)
        if not keep <= set(got[1]):
            bad.append(("fault:children-missing-relatives-unrelated-to-the-vanished-process",
                        "children(recursive=%s) of pid %d with pid %s vanishing before access %r: got %r, still must contain %r"
                        % (recursive, caller, sorted(gone), idx, got[1], sorted(keep))))
    return {"n": len(hook.accesses), "bad": bad, "pids": [a[2] for a in hook.accesses]}


def _timed(fn, arg, hang_result):
    from vf.harness import deadline, Hang
    try:
        with deadline(60):
            return fn(arg)
    except Hang as e:
        return hang_result(e, arg)


def _hang_pair(e, arg):
    return [("does-not-terminate", "%s (world %r)" % (e, arg[:2]))], 0


def run_world(arg):
    return _timed(_run_world, arg, _hang_pair)


def run_reused(arg):
    return _timed(_run_reused, arg, _hang_pair)


def run_after_history(arg):
    return _timed(_run_after_history, arg, _hang_pair)


def run_fault(arg):
    return _timed(_run_fault, arg, lambda e, a: {"n": 0, "pids": [], "bad": [("does-not-terminate", "%s (%r)" % (e, a))]})


def run_deep(arg):
    """scale: a chain of processes `depth` levels deep with a side branch half-way (depth beyond the interpreter's recursion
    limit), and a bushy node with `depth` direct children"""
    seed, depth = arg
    import psutil
    w = World(ncpus=1, mypid=9999)
    w.spawn(1, ppid=0, comm=b"init", start=10)
    for i in range(2, depth + 1):
        w.spawn(i, ppid=i - 1, comm=b"c%d" % i, start=10 + i)
    side = depth + 1
    w.spawn(side, ppid=depth // 2, comm=b"side", start=10 + depth + 5)
    for j in range(depth):
        w.spawn(side + 1 + j, ppid=side, comm=b"leaf", start=10 + depth + 10 + j)
    use_world(w)
    w.logging = False
    bad = []
    got = outcome(lambda: sorted(c.pid for c in psutil.Process(1).children(recursive=True)))
    want = list(range(2, side + depth + 1))
    if got != ("ok", want):
        bad.append(("deep-chain:children-recursive", "root of a %d-deep chain: %s" % (depth, got[:2] if got[0] != "ok" else "got %d processes, expected %d" % (len(got[1]), len(want)))))
    got = outcome(lambda: [c.pid for c in psutil.Process(depth).parents()])
    if got != ("ok", list(range(depth - 1, 0, -1))):
        bad.append(("deep-chain:parents", "leaf of a %d-deep chain: %s" % (depth, got[:2] if got[0] != "ok" else "chain of %d, expected %d" % (len(got[1]), depth - 1))))
    got = outcome(lambda: sorted(c.pid for c in psutil.Process(side).children()))
    if got != ("ok", list(range(side + 1, side + depth + 1))):
        bad.append(("wide-node:children", "node with %d children: %s" % (depth, got[:2] if got[0] != "ok" else len(got[1]))))
    return bad, 0


def _run_fault_parents(arg):
    """parents() / parent() of the deepest process of a chain while processes of the chain vanish just before given accesses of
    the ONE call (an ancestor, then possibly the caller itself), or while the parent's pid is taken over by a younger process:
    the answer is a leading part of the chain of ancestors as it was, and an error is about the caller and nobody else"""
    seed, op, plan = arg
    import psutil
    parents = [0, 1, 2, 3]
    w = build_world(parents, [0, 1, 2, 3], seed)
    use_world(w)
    w.logging = False
    caller = 4
    pr = psutil.Process(caller)
    chain = [3, 2, 1]
    start0 = {p_: w.procs[p_].start for p_ in w.procs}
    cnt = [0]
    plan_d = {int(i): d for i, d in plan}
    done = []

    def hook(world, kind, subj, pid):
        d = plan_d.get(cnt[0])
        cnt[0] += 1
        if d is None:
            return
        what, victim = d.split(":")
        victim = int(victim)
        if victim in world.procs:
            old = world.procs[victim]
            world.vanish(victim)
            done.append(d)
            if what == "recycle":
                world.spawn(victim, ppid=1, comm=b"younger", start=old.start + 5000)
            snaps.append(chain_now(world))
    snaps = []

    def chain_now(world):
        out_, x, seen_ = [], caller, set()
        while x in world.procs and world.procs[x].ppid in world.procs and world.procs[x].ppid not in seen_ and world.procs[x].ppid != x:
            x = world.procs[x].ppid
            seen_.add(x)
            out_.append(x)
        return out_
    w.hook = hook
    if op == "parents":
        got = outcome(lambda: [(x.pid, x.create_time()) for x in pr.parents()])
    else:
        got = outcome(lambda: (lambda x: None if x is None else [(x.pid, x.create_time())])(pr.parent()))
    w.hook = None
    bad = []
    from vf.simk.world import CLK_TCK
    ct0 = {p_: start0[p_] / CLK_TCK + w.btime for p_ in start0}
    caller_gone = any(d.endswith(":%d" % caller) for d in done)
    if got[0] != "ok":
        if got[1] not in ("NoSuchProcess", "ZombieProcess", "AccessDenied"):
            bad.append(("fault:%s-leaked:%s" % (op, got[1]), "%s() raised %r under %r" % (op, got[:2], done)))
        elif got[2].get("pid") != caller:
            bad.append(("fault:%s-raised-for-another-pid" % op, "%s() of pid %d raised %s about pid %r (events %r)" % (op, caller, got[1], got[2].get("pid"), done)))
        elif got[1] == "NoSuchProcess" and not caller_gone:
            bad.append(("fault:%s-NoSuchProcess-for-a-live-caller" % op, "events %r" % (done,)))
    elif got[1] is not None:
        pids_ = [x[0] for x in got[1]]
        # (orphans are re-parented by the kernel: the chain as it is after the events is as good an answer as the one before)
        took_over = any(d.startswith("recycle") for d in done)
        # (once a pid of the chain has been taken over, what is read through it afterwards is the newcomer's: only the head of the
        #  walk and the creation times are judged then)
        if took_over:
            ok_shape = not pids_ or pids_[0] in (chain[0], (snaps[-1] or [None])[0])
        else:
            ok_shape = pids_ == chain[:len(pids_)] or any(pids_ == sn[:len(pids_)] for sn in snaps)
        if not ok_shape:
            bad.append(("fault:%s-not-a-leading-part-of-the-chain" % op, "got %r, chain %r, events %r" % (pids_, chain, done)))
        for p_, ct in got[1]:
            if p_ in ct0 and abs(ct - ct0[p_]) > 1e-6:
                bad.append(("fault:%s-returns-the-process-that-took-over-the-pid" % op,
                            "%s() returned pid %d with creation time %r: the ancestor of that pid started at %r; the pid was taken over by a "
                            "younger process during the call (events %r)" % (op, p_, ct, ct0[p_], done)))
    return {"n": cnt[0], "bad": bad}


def run_fault_parents(arg):
    return _timed(_run_fault_parents, arg, lambda e, a: {"n": 0, "bad": [("does-not-terminate", "%s (%r)" % (e, a))]})


def fault_part(ctx):
    jobs = []
    for parents in ([0, 1, 1, 2], [0, 1, 2, 3], [0, 1, 1, 1]):
        for caller in (1, 2):
            for rec in (False, True):
                base = run_fault((parents, ctx.seed, caller, rec, None))
                jobs.append((parents, ctx.seed, caller, rec, None))
                for i in range(base["n"]):
                    jobs.append((parents, ctx.seed, caller, rec, i))
                # two events on ONE relative: an access refused (EPERM), the relative gone at a later access
                for i in range(base["n"]):
                    if base["pids"][i] in (None, caller):
                        continue
                    r1 = run_fault((parents, ctx.seed, caller, rec, [[i, "eperm"]]))
                    jobs.append((parents, ctx.seed, caller, rec, [[i, "eperm"]]))
                    for j in range(i + 1, r1["n"]):
                        if r1["pids"][j] == base["pids"][i]:
                            jobs.append((parents, ctx.seed, caller, rec, [[i, "eperm"], [j, "vanish"]]))
    viols = []
    for j, r in zip(jobs, ctx.pmap(run_fault, jobs)):
        for cause, msg in r["bad"]:
            viols.append({"cause": cause, "msg": msg, "case": {"fault": [j[0], j[2], j[3], j[4]]}})
    pj = []
    for op in ("parents", "parent"):
        base = run_fault_parents((ctx.seed, op, []))
        pj.append((ctx.seed, op, []))
        for i in range(base["n"] + 2):
            for victim in (3, 2, 4):
                for what in ("vanish", "recycle"):
                    if what == "recycle" and victim == 4:
                        continue
                    first = [[i, "%s:%d" % (what, victim)]]
                    pj.append((ctx.seed, op, first))
                    if victim != 4 and what == "vanish":
                        r1 = run_fault_parents((ctx.seed, op, first))
                        for j in range(i + 1, r1["n"] + 2):
                            pj.append((ctx.seed, op, first + [[j, "vanish:4"]]))
    for j, r in zip(pj, ctx.pmap(run_fault_parents, pj)):
        for cause, msg in r["bad"]:
            viols.append({"cause": cause, "msg": msg, "case": {"fault_parents": [j[1], j[2]]}})
    return len(jobs) + len(pj), viols


def run(ctx):
    n = 4 if ctx.thorough else 3
    worlds = []
    for parents in itertools.product(range(0, n + 2), repeat=n):
        for ranks in weak_orderings(n):
            worlds.append((list(parents), list(ranks), ctx.seed))
    # the tree is read from name-bearing records: adversarial names on each process of a few fixed tables
    named = 0
    for parents in ([0, 1, 2], [0, 1, 1], [3, 1, 2], [0, 3, 1], [2, 3, 1]):
        for who in range(3):
            for nm in NAMES:
                names = [None, None, None]
                names[who] = nm.decode("latin-1")
                worlds.append((list(parents), [0, 1, 2], ctx.seed, names))
                named += 1
    for parents in ([0, 1, 2], [0, 1, 1], [3, 1, 2]):
        for nf in (44, 47):
            for nm in (None, "a b", "x) S 1 (y"):
                worlds.append((list(parents), [0, 1, 2], ctx.seed, [None, nm, None], {"nfields": nf}))
    for parents in itertools.product(range(0, 5), repeat=3):
        worlds.append((list(parents), [0, 1, 2], ctx.seed, None, {"rev": True}))
        worlds.append((list(parents), [2, 1, 0], ctx.seed, None, {"rev": True}))
    # NOT ENABLED (unconfirmed: the first run with these two new dimensions did not finish within the check's allowance and was not
    # diagnosed in time; enable one at a time): clock step + boot_time() between object creation and the questions
    # for parents in itertools.product(range(0, 5), repeat=3):
    #     for step in (-3600, -1, 1, 3600):
    #         worlds.append((list(parents), [0, 1, 2], ctx.seed, None, {"clockstep": step}))
    res = ctx.pmap(run_world, worlds)
    viols, skipped = [], 0
    for wd, (bad, sk) in zip(worlds, res):
        skipped += sk
        for cause, msg in bad:
            viols.append({"cause": cause + (":adversarial-name" if len(wd) > 3 and wd[3] else "") + (":unordered-listing" if len(wd) > 4 and wd[4].get("rev") else "") + (":old-kernel-stat-record" if len(wd) > 4 and wd[4].get("nfields") else "") + (":after-clock-step-and-boot_time" if len(wd) > 4 and wd[4].get("clockstep") else ""),
                          "msg": msg, "case": {"parents": wd[0], "ranks": wd[1], "names": wd[3] if len(wd) > 3 else None,
                                               "opts": wd[4] if len(wd) > 4 else None}})
    reused = []
    for parents in itertools.product(range(0, 5), repeat=3):
        for victim in (1, 2, 3):
            reused.append((list(parents), [0, 1, 2], ctx.seed, victim))
            reused.append((list(parents), [0, 1, 2], ctx.seed, victim, True))
            reused.append((list(parents), [0, 1, 2], ctx.seed, victim, False, True))
            # NOT ENABLED (see note above): the questions asked inside an open oneshot() block after an earlier question
            for prior in ONESHOT_PRIORS_RUN:
                reused.append((list(parents), [0, 1, 2], ctx.seed, victim, False, False, prior))
    res2 = ctx.pmap(run_reused, reused)
    for wd, (bad, _) in zip(reused, res2):
        for cause, msg in bad:
            viols.append({"cause": cause + (":own-pid" if len(wd) > 4 and wd[4] else "") + (":after-wait" if len(wd) > 5 and wd[5] else "")
                          + (":inside-oneshot-after-%s" % wd[6] if len(wd) > 6 and wd[6] else ""), "msg": msg,
                          "case": {"parents": wd[0], "ranks": wd[1], "recycled": wd[3], "own": len(wd) > 4 and wd[4], "waited": len(wd) > 5 and wd[5],
                                   "oneshot_prior": wd[6] if len(wd) > 6 else None}})
    hist = []
    for parents in itertools.product(range(0, 4), repeat=3):
        for victim in (1, 2, 3):
            for new_ppid in (0, 1, 2, 3):
                if new_ppid == victim:
                    continue
                hist.append((list(parents), [0, 1, 2], ctx.seed, victim, new_ppid))
    for wd, (bad, _) in zip(hist, ctx.pmap(run_after_history, hist)):
        for cause, msg in bad:
            viols.append({"cause": cause, "msg": msg, "case": {"parents": wd[0], "ranks": wd[1], "after_history": [wd[3], wd[4]]}})
    nfault, fv = fault_part(ctx)
    viols += fv
    for depth in ((1500, 300) if not ctx.alt else (1200,)):
        bad, _ = _timed(run_deep, (ctx.seed, depth), _hang_pair)
        for cause, msg in bad:
            viols.append({"cause": cause, "msg": msg, "case": {"deep": depth}})
    cov = {"fault_runs": nfault, "after_history_worlds": len(hist), "evaluations": (len(worlds) * n * 4) + len(reused) * 4 + len(hist) * 12, "distinct_nontrivial": len(worlds) + len(reused) - 1,
           "rule": "one world = one assignment of parent pids x one weak ordering of start times for N=%d processes; in each world every "
                   "process calls children(), children(recursive=True), parent(), parents() (evaluations = calls); distinct_nontrivial = "
                   "distinct worlds except the one where nobody has a listed parent" % n,
           "worlds": len(worlds), "worlds_with_adversarial_names": named, "recycled_caller_worlds": len(reused), "N": n, "parent_functions": (n + 2) ** n,
           "weak_orderings": len(weak_orderings(n)), "parents_skipped_cyclic_reference": skipped, "exhaustive": True,
           "samples": [{"parents": w_[0], "ranks": w_[1]} for w_ in sample(worlds, 6)]}
    return {"coverage": cov, "violations": viols,
            "assumptions": ["parents(): worlds whose reference chain is itself cyclic (equal start times on a cycle) are outside the statement",
                            "parent() of the lowest listed pid may be None or the rule's answer",
                            "children(recursive=True): MUST (walk expanding only included processes) <= result <= MAY (reachable, not older, not the caller)"]}


def replay(ctx, case):
    if "fault_parents" in case:
        r = run_fault_parents((ctx.seed, case["fault_parents"][0], case["fault_parents"][1]))
        return {"violated": bool(r["bad"]), "viols": r["bad"]}
    if "fault" in case:
        f = case["fault"]
        r = run_fault((f[0], ctx.seed, f[1], f[2], f[3]))
        return {"violated": bool(r["bad"]), "viols": r["bad"]}
    if "deep" in case:
        bad, _ = _timed(run_deep, (ctx.seed, case["deep"]), _hang_pair)
        return {"violated": bool(bad), "viols": bad}
    if "after_history" in case:
        bad, _ = run_after_history((case["parents"], case["ranks"], ctx.seed, case["after_history"][0], case["after_history"][1]))
        return {"violated": bool(bad), "viols": bad}
    if "recycled" in case:
        bad, _ = run_reused((case["parents"], case["ranks"], ctx.seed, case["recycled"], bool(case.get("own")), bool(case.get("waited")), case.get("oneshot_prior")))
    else:
        bad, _ = run_world((case["parents"], case["ranks"], ctx.seed, case.get("names"), case.get("opts") or {}))
    return {"violated": bool(bad), "viols": bad}
