"""C06 — per-process kernel facts are exact, whatever bytes the name contains.
Explorer I: bounded-exhaustive enumeration of kernel-formatted stat/status
records (token-string language for names incl. the parsers' own delimiters,
boundary counters, state letters, short records, threads) rendered by simk and
parsed by the real code; oracle = the abstract facts the record was rendered from."""
import itertools
import os
import re

from vf.harness import use_world, outcome, freeze, sample, guarded, add_histories, history_of
from vf.simk.world import World, Thread, CLK_TCK

ID = "C06"
LEVEL = "exploration"
ALT_MOUNT = True          # run once more with procfs mounted at /hostproc (vf/child.py)

TOKENS = [b"a", b" ", b")", b"(", b"\n", b"\t", b"\xff", "é".encode(), b"1", b") S 1 ",
          b"Uid:\t7\t7\t7", b"Gid:\t8\t8\t8", b"Threads:\t9", b"\\", b"(x) R 2 "]
BOUND = [0, 1, 99, 100, 2 ** 31 - 1, 2 ** 31, 2 ** 32, 2 ** 63 - 1, 2 ** 63, 2 ** 64 - 1]
STATES = ["R", "S", "D", "T", "t", "Z", "X", "x", "K", "W", "I", "P"]
STATUS_NAME = {"R": "running", "S": "sleeping", "D": "disk-sleep", "T": "stopped", "t": "tracing-stop",
               "Z": "zombie", "X": "dead", "x": "dead", "K": "wake-kill", "W": "waking", "I": "idle", "P": "parked"}
NUMF = ["utime", "stime", "cutime", "cstime", "starttime", "processor", "blkio_ticks", "tty_nr", "ppid"]


def names(maxtok):
    out = [b""]
    for n in range(1, maxtok + 1):
        for combo in itertools.product(TOKENS, repeat=n):
            s = b"".join(combo)
            if len(s) <= 15:
                out.append(s)
    # every 15-byte truncation of a few long seeds
    for seed in [b"gnome-keyring-daemon", b"a" * 14 + b") S", b"Web Content (x) y z", "ééééééééé".encode(),
                 b"kworker/u16:3-events_unbound", b"((((((((((((((((", b"))))))))))))))))"]:
        out.append(seed[:15])
    out.extend(status_key_names(maxtok))
    seen, res = set(), []
    for s in out:
        if s not in seen:
            seen.add(s)
            res.append(s)
    return res


def status_key_names(maxtok):
    """names that look like a line of the status record itself: for EVERY key the kernel prints there (taken from the record
    simk renders, all its release variants), 'key:' + separator + digits, cut to the 15 bytes a name can hold from either end
    (the tail of a long key followed by a value fits where the whole line does not)"""
    from vf.simk.world import render_status
    w, p = mk_world(0)
    keys = []
    for extra in ({}, {"x86tail": True}):
        p.status_extra = extra
        for line in render_status(w, p).split(b"\n"):
            k = line.split(b":")[0]
            if k and k not in keys:
                keys.append(k)
    out = []
    for k in keys:
        for sep in (b"", b"\t", b" "):
            for dig in ((b"7",) if maxtok <= 3 else (b"7", b"0", b"12", b"18446744073709551615")):
                full = k + b":" + sep + dig
                out.append(full[-15:])
                out.append(full[:15])
    return out


def mk_world(seed):
    w = World(ncpus=2, btime=1700000000 + (seed % 7) * 86400)
    w.spawn(1, ppid=0, comm=b"init", start=1)
    w.spawn(w.mypid, ppid=1, comm=b"caller", start=50)
    p = w.spawn(4000 + seed % 50, ppid=w.mypid, comm=b"x", start=777)
    p.cmdline = b"/bin/zz\0"
    return w, p


def long_name(p):
    """a name that fills the kernel's 15 bytes is completed from the CURRENT command line when the file name of its first
    argument starts with those bytes (no command line - zombie, kernel thread - or no match: the 15 bytes themselves).
    Command lines used here are NUL-separated without blanks."""
    comm = p.comm
    if len(comm) >= 15 and not p.zombie and p.cmdline:
        base = p.cmdline.split(b"\0")[0].rsplit(b"/", 1)[-1]
        if base.startswith(comm):
            return base
    return comm


def expected(w, p):
    f = p.stat
    e = {}
    e["name"] = os.fsdecode(long_name(p))
    e["ppid"] = p.ppid
    st = "Z" if p.zombie else p.state
    e["status"] = STATUS_NAME.get(st)
    blk = f["blkio_ticks"] if p.stat_nfields >= 40 else 0
    e["cpu_times"] = [f["utime"] / CLK_TCK, f["stime"] / CLK_TCK, f["cutime"] / CLK_TCK, f["cstime"] / CLK_TCK,
                      blk / CLK_TCK]
    e["create_time"] = p.start / CLK_TCK + w.btime
    e["cpu_num"] = f["processor"]
    tty = {0x0401: "/dev/tty1", 0x8800: "/dev/pts/0"}
    for minor in (1, 4, 255, 256, 1024, 4097):
        tty[0x8800 | (minor & 0xff) | ((minor & ~0xff) << 12)] = "/dev/pts/%d" % minor
    e["terminal"] = tty.get(p.tty_nr)
    e["num_threads"] = len(p.thread_list())
    e["num_ctx_switches"] = [p.vctx, p.nvctx]
    e["uids"] = list(p.uids[:3])
    e["gids"] = list(p.gids[:3])
    e["threads"] = sorted([t.tid, t.utime / CLK_TCK, t.stime / CLK_TCK] for t in p.thread_list())
    return e


def observe(psutil, pid, pr=None, oneshot=False):
    obs = {}
    if pr is None:
        o = outcome(psutil.Process, pid)
        if o[0] != "ok":
            return {"ctor": freeze(o)}
        pr = o[1]
    if oneshot:
        with pr.oneshot():
            return observe(psutil, pid, pr)
    for m in ("name", "ppid", "status", "cpu_times", "create_time", "cpu_num", "terminal", "num_threads",
              "num_ctx_switches", "uids", "gids", "threads"):
        r = outcome(getattr(pr, m))
        if r[0] == "ok":
            v = r[1]
            if m in ("cpu_times", "num_ctx_switches", "uids", "gids"):
                v = list(v)
            elif m == "threads":
                v = sorted([t.id, t.user_time, t.system_time] for t in v)
            obs[m] = v
        else:
            obs[m] = ("EXC", r[1], r[2].get("str"))
    return obs


def classify(m, case, exp, got):
    """cause key for a mismatch"""
    kind = case[0]
    if isinstance(got, tuple) and got and got[0] == "EXC":
        what = "raises-%s" % got[1]
    else:
        what = "wrong"
    if kind == "name":
        nm = case[2] if case[2] is not None else case[1]
        where = "thread-name" if case[2] is not None else "name"
        if m in ("uids", "gids", "num_threads", "num_ctx_switches") and (
                any(t in nm for t in (b"Uid:\t", b"Gid:\t", b"Threads:\t")) or re.search(br"[A-Za-z_]:\s*\d", nm)):
            feat = "status-key-in-name"
        elif b")" in nm:
            feat = "rparen"
        elif b"(" in nm:
            feat = "lparen"
        elif b"\n" in nm:
            feat = "newline"
        elif b" " in nm or b"\t" in nm:
            feat = "blank"
        else:
            feat = "other"
        return "%s:%s:%s:%s" % (m, what, where, feat)
    if kind == "num":
        return "%s:%s:%s=%s" % (m, what, case[1], "big" if case[2] >= 2 ** 31 else "small")
    return "%s:%s:%s" % (m, what, kind)


def run_case(case, st=None):
    """case: ('name', comm, thread_comm_or_None) | ('num', field, value) | ('state', letter) |
             ('short', nfields) | ('threads', n, comms) | ('status', field, value) | ('threadwide', value)"""
    import psutil
    w, p = st
    # reset subject
    p.comm, p.state, p.zombie, p.stat_nfields, p.threads = b"x", "S", False, 50, None
    p.ppid, p.tty_nr, p.start = w.mypid, 0, 777
    for i, n in enumerate(["utime", "stime", "cutime", "cstime", "processor", "blkio_ticks"]):
        p.stat[n] = 11 + 7 * i
    p.uids, p.gids, p.vctx, p.nvctx = (1000, 1001, 1002, 1003), (2000, 2001, 2002, 2003), 31, 37
    p.status_extra = {}
    p.cmdline = b"/bin/zz\0"
    k = case[0]
    if k == "status-tail":
        # the status record of another kernel release: lines AFTER the context-switch counters
        p.status_extra = {"x86tail": True}
        p.vctx, p.nvctx = case[1], case[2]
    if k == "name":
        p.comm = case[1]
        if case[2] is not None:
            p.threads = [Thread(p.pid, case[1], "S", 5, 6), Thread(p.pid + 1, case[2], "R", 7, 8)]
    elif k == "num":
        f, v = case[1], case[2]
        if f == "tty_nr":
            p.tty_nr = v
        elif f == "ppid":
            p.ppid = v
        elif f == "starttime":
            p.start = v
        else:
            p.stat[f] = v
    elif k == "state":
        p.state = case[1]
    elif k == "manythreads":
        # scale: more threads than the caller may hold descriptors (RLIMIT_NOFILE 1024), each with counters of its own
        p.threads = [Thread(p.pid + i, b"t%d" % i, "S", 3 + i, 5 + 2 * i) for i in range(case[1])]
    elif k == "state-long":
        p.state = case[1]
        p.comm = b"fifteen-bytes-nm"[:15]
        if case[1] == "Z":
            p.zombie = True
    elif k == "short":
        p.stat_nfields = case[1]
    elif k == "threads":
        p.threads = [Thread(p.pid + i, c, "S", 5 + 10 * i, 6 + 10 * i) for i, c in enumerate(case[2])]
    elif k == "threadwide":
        # every numeric column in front of utime/stime as wide as the kernel can print it, widest tid, 15-byte name
        v = case[1]
        wide = {"minflt": v, "cminflt": v, "majflt": v, "cmajflt": v, "flags": 2 ** 32 - 1, "pgrp": 2 ** 31 - 1,
                "session": 2 ** 31 - 1, "tpgid": 2 ** 31 - 1, "tty_nr": 2 ** 31 - 1, "ppid": 2 ** 22 - 1}
        p.threads = [Thread(p.pid, b"x", "S", v, max(v - 1, 0)), Thread(2 ** 22 - 1, b"123456789012345", "R", max(v - 2, 0), v)]
        for t in p.threads:
            t.extra.update(wide)
    elif k == "status":
        f, v = case[1], case[2]
        if f == "uid":
            p.uids = (v, v + 1 if v < 2 ** 32 - 1 else v, v, v)
        elif f == "gid":
            p.gids = (v, v, v, v)
        elif f == "vctx":
            p.vctx = v
        elif f == "nvctx":
            p.nvctx = v
    if k == "name-enc":
        # a locale whose filesystem encoding is not UTF-8 (LC_ALL=C without UTF-8 mode): names come back in THAT encoding with
        # surrogateescape, so that os.fsencode(name) gives the kernel's bytes again
        comm, enc_ = case[1], case[2]
        p.comm = comm
        saved = (psutil._common.ENCODING, psutil._pslinux.ENCODING)
        psutil._common.ENCODING = psutil._pslinux.ENCODING = enc_
        try:
            got = observe(psutil, p.pid)
        finally:
            psutil._common.ENCODING, psutil._pslinux.ENCODING = saved
        exp = expected(w, p)
        exp["name"] = comm.decode(enc_, "surrogateescape")
        bad = []
        if "ctor" in got:
            return [("ctor", "Process() failed: %r" % (got["ctor"],))], "ctor-fail"
        for m, e in exp.items():
            if got[m] != e:
                bad.append(("%s:wrong-under-filesystem-encoding-%s" % (m, enc_), "%s: got %r, kernel facts %r (case %r)" % (m, got[m], e, case)))
        return bad, "ok" if not bad else "mismatch"
    if k == "thread-exit":
        # one thread of a live process exits just before access k of ONE threads() call (between the listing, the open and the
        # read of its own stat file): the answer is the list with or without that thread, exact for all the others
        kk, victim = case[1], case[2]
        p.threads = [Thread(p.pid + i, c, "S", 5 + 10 * i, 6 + 10 * i) for i, c in enumerate([b"main", b"a b", b"x) y", b"w"])]
        full = sorted([t.tid, t.utime / CLK_TCK, t.stime / CLK_TCK] for t in p.threads)
        vt = p.threads[victim].tid
        o = outcome(psutil.Process, p.pid)
        if o[0] != "ok":
            return [("ctor", "Process() failed: %r" % (o,))], "ctor-fail"
        cnt = [0]

        def hook(world, kind, subj, pid_):
            if cnt[0] == kk:
                p.threads = [t for t in p.threads if t.tid != vt]
            cnt[0] += 1
        w.hook = hook
        try:
            got = outcome(lambda: sorted([t.id, t.user_time, t.system_time] for t in o[1].threads()))
        finally:
            w.hook = None
        p.threads = None
        rest = [x for x in full if x[0] != vt]
        if got[0] != "ok":
            return [("threads:raised-when-a-thread-exits-during-the-call:%s" % got[1], "thread %d exits before access %d: %r" % (vt, kk, got))], "mismatch"
        if got[1] != full and got[1] != rest:
            return [("threads:wrong-when-a-thread-exits-during-the-call", "thread %d exits before access %d: got %r, expected %r or %r" % (vt, kk, got[1], full, rest))], "mismatch"
        return [], "ok"
    if k == "seq":
        # ONE Process object while the kernel's record of the (same) process changes between queries: every answer follows
        # the record as it is now (create_time: same process, same start)
        bad = []
        o = outcome(psutil.Process, p.pid)
        if o[0] != "ok":
            return [("ctor", "Process() failed: %r" % (o,))], "ctor-fail"
        pr = o[1]
        for step, (changes, oneshot) in enumerate(case[1]):
            for f, v in changes:
                if f == "ppid":
                    p.ppid = v
                elif f == "tty_nr":
                    p.tty_nr = v
                elif f == "comm":
                    p.comm = v
                elif f == "cmdline":
                    p.cmdline = v
                elif f == "state":
                    p.state = v
                elif f == "zombie":
                    p.zombie = v
                elif f == "uid":
                    p.uids = (v, v, v, v)
                elif f == "vctx":
                    p.vctx = v
                else:
                    p.stat[f] = v
            exp = expected(w, p)
            got = observe(psutil, p.pid, pr, oneshot)
            for m, e in exp.items():
                if m == "threads" and p.zombie:
                    continue
                if got[m] != e:
                    bad.append(("%s:stale-or-wrong-on-a-long-lived-object" % m,
                                "step %d of %r: %s -> %r, kernel facts now %r" % (step, case[1], m, got[m], e)))
        p.zombie = False
        return bad, "ok" if not bad else "mismatch"
    exp = expected(w, p)
    got = observe(psutil, p.pid)
    bad = []
    if "ctor" in got:
        return [("ctor", "Process() failed: %r" % (got["ctor"],))], "ctor-fail"
    for m, e in exp.items():
        g = got[m]
        if m == "status" and e is None:
            continue      # letter without a documented constant
        if g != e:
            bad.append((classify(m, case, e, g), "%s: got %r, kernel facts %r (case %r)" % (m, g, e, case)))
    return bad, "ok" if not bad else "mismatch"


def worker(chunk):
    seed, cases = chunk
    w, p = mk_world(seed)
    use_world(w)
    w.logging = False
    out = []
    for c in cases:
        bad, lab = guarded(run_case, c, (w, p), pair=True)
        out.append((lab, bad))
    return out


def enc(case):
    if case[0] == "name-enc":
        return ["name-enc", case[1].decode("latin-1"), case[2]]
    if case[0] == "seq":
        return ["seq", [[[[f, v.decode("latin-1") if isinstance(v, bytes) else v] for f, v in ch], osv] for ch, osv in case[1]]]
    return [x.decode("latin-1") if isinstance(x, bytes) else ([y.decode("latin-1") for y in x] if isinstance(x, list) else x)
            for x in case]


def dec(case):
    c = list(case)
    if c[0] == "name":
        c[1] = c[1].encode("latin-1")
        c[2] = None if c[2] is None else c[2].encode("latin-1")
    if c[0] == "threads":
        c[2] = [y.encode("latin-1") for y in c[2]]
    if c[0] == "name-enc":
        c[1] = c[1].encode("latin-1")
    if c[0] == "seq":
        c[1] = [([(f, v.encode("latin-1") if f in ("comm", "cmdline") else v) for f, v in ch], osv) for ch, osv in c[1]]
    return tuple(c)


def build_cases(thorough):
    cases = []
    nm = names(5) if thorough else names(3)
    for n in nm:
        cases.append(("name", n, None))
    tn = names(2)
    for n in tn:                       # thread names: process name plain, second thread named n
        cases.append(("name", b"main", n))
    if thorough:
        for n in names(3):
            cases.append(("name", b"main", n))
    for f in NUMF:
        for v in BOUND:
            if f == "ppid" and v > 2 ** 31 - 1:
                continue
            cases.append(("num", f, v))
    # tick counts for which "times one hundredth" and "divided by one hundred" are different doubles
    for f in ("utime", "stime", "cutime", "cstime", "blkio_ticks"):
        for v in (35, 41, 57, 113, 70069):
            cases.append(("num", f, v))
    for f in ("tty_nr",):
        for v in (0x0401, 0x8800, 0x0402, 0x8801, 0x8804, 0x88ff, 0x108800, 0x408800, 0x1008801, 0x108801, 0x8900):
            cases.append(("num", f, v))
    if thorough:
        for (f1, f2) in itertools.combinations(NUMF[:7], 2):
            for v in BOUND[4:]:
                cases.append(("num", f1, v))
    for v in BOUND + [10 ** 6 - 1, 10 ** 9, 123456789]:
        cases.append(("threadwide", v))
    chg = [[("ppid", 77)], [("ppid", 1), ("state", "D")], [("utime", 500), ("stime", 600)], [("comm", b"renamed) x")],
           [("uid", 0), ("vctx", 99)], [("tty_nr", 0x8800)], [("processor", 1)], [("zombie", True)]]
    for a, b in itertools.permutations(range(len(chg)), 2):
        if ("zombie", True) in chg[a]:
            continue
        for osv in ((False, False, False), (False, True, False), (True, True, True)):
            cases.append(("seq", [([], osv[0]), (chg[a], osv[1]), (chg[b], osv[2])]))
    # a name that fills the 15 bytes on ONE long-lived object while the command line / the name / the state change between the
    # queries (title rewritten, exec of a program sharing the 15 bytes, exit): every pair of changes after a first resolved answer
    c15, d15 = b"chromium-browse", b"chromium-browsX"
    first = [("comm", c15), ("cmdline", b"/usr/bin/" + c15 + b"r\0--type=x\0")]
    lchg = [[("cmdline", b"/usr/bin/" + c15 + b"\0")], [("cmdline", b"/opt/" + c15 + b"r-stable\0-v\0")],
            [("cmdline", c15 + "r\u00e9".encode() + b"\0")], [("cmdline", b"/bin/zz\0")], [("cmdline", b"")],
            [("cmdline", b"/usr/lib/" + d15 + b"YZ\0")], [("cmdline", b"/usr/bin/" + c15 + b"r\0--type=x\0")],
            [("comm", d15)], [("comm", c15)], [("comm", b"short")], [("zombie", True)]]
    for a, b in itertools.product(range(len(lchg)), repeat=2):
        if ("zombie", True) in lchg[a]:
            continue
        for osv in ((False, False, False), (False, True, False), (True, True, True)):
            cases.append(("seq", [(first, osv[0]), (lchg[a], osv[1]), (lchg[b], osv[2])]))
    cases.append(("manythreads", 3000))
    for nm_ in (b"plain", b"caf\xc3\xa9", b"\xe6\x97\xa5\xe6\x9c\xac", b"\xff\xfe", b"a b)c"):
        for enc_ in ("ascii", "latin-1", "utf-8"):
            cases.append(("name-enc", nm_, enc_))
    # a zombie (or any other state) whose name fills the 15 bytes: name() still answers
    for s in STATES:
        cases.append(("state-long", s))
    for s in STATES + ["Q", "N"]:
        cases.append(("state", s))
    for n in (50, 42, 39):
        cases.append(("short", n))
    for n in (1, 2, 3):
        for combo in itertools.product([b"t", b"a b", b"x) y", b"(", b"\xff"], repeat=n):
            cases.append(("threads", n, list(combo)))
    for f in ("uid", "gid", "vctx", "nvctx"):
        for v in BOUND[:7] if f in ("uid", "gid") else BOUND:
            if f in ("uid", "gid") and v > 2 ** 32 - 1:
                continue
            cases.append(("status", f, v))
    for kk in range(0, 14):
        for victim in (1, 3):
            cases.append(("thread-exit", kk, victim))
    for v1, v2 in ((31, 37), (0, 0), (2 ** 64 - 1, 2 ** 64 - 1), (5, 2 ** 63)):
        cases.append(("status-tail", v1, v2))
    return cases


def run(ctx):
    from vf.simk import calibrate
    binding = calibrate.run()
    if binding["liveness_mismatches"] or binding["roundtrip_mismatches"]:
        raise RuntimeError("environment model (simk) disagrees with this kernel: %r" % (binding,))
    cases = build_cases(ctx.thorough)
    n = max(1, len(cases) // (ctx.ncpu * 4))
    chunks = [(ctx.seed, cases[i:i + n]) for i in range(0, len(cases), n)]
    res = ctx.pmap_fresh(worker, chunks)
    flat = [r for ch in res for r in ch]
    viols, labels = [], {}
    kinds = {}
    for _i, (c, (lab, bad)) in enumerate(zip(cases, flat)):
        labels[lab] = labels.get(lab, 0) + 1
        kinds[c[0]] = kinds.get(c[0], 0) + 1
        for cause, msg in bad:
            viols.append({"cause": cause, "msg": msg, "case": enc(c), "_idx": _i})
    cov = {"evaluations": len(cases), "distinct_nontrivial": len({repr(c) for c in cases if c != ("name", b"", None)}),
           "rule": "one evaluation = one kernel-formatted stat/status(/task) record set rendered by simk and queried through 12 "
                   "Process methods; cases are distinct by construction (de-duplicated token strings / (field, boundary value) "
                   "pairs); non-trivial = everything except the empty name",
           "per_dimension": kinds, "name_tokens": [t.decode("latin-1") for t in TOKENS], "boundaries": BOUND,
           "outcomes": labels, "exhaustive": True, "simk_binding": binding, "samples": [enc(c) for c in sample(cases, 8)]}
    return {"coverage": cov, "violations": add_histories(viols, cases, n, enc),
            "assumptions": ["simk renders stat/status like fs/proc/array.c (name raw in stat, only \\n and \\\\ escaped in status)",
                            "names up to %d tokens of the stated alphabet, <= 15 bytes" % (5 if ctx.thorough else 3)]}


def replay(ctx, case):
    w, p = mk_world(ctx.seed)
    use_world(w)
    for c in history_of(case):
        bad, lab = guarded(run_case, dec(c), (w, p), pair=True)
    return {"violated": bool(bad), "viols": bad}
