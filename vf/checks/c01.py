"""C01 — signals and setters never reach a recycled PID or a process group.
Explorer H over process-lifetime histories (vf.checks.procmodel) + an exhaustive
list of non-positive / out-of-range pids."""
from vf.checks import procmodel as pm
from vf.explore.history import bfs
from vf.harness import use_world, outcome, sample
from vf.simk.world import World

ID = "C01"
LEVEL = "model_checking"
ALT_MOUNT = True
_CFG = None


def run_h(history):
    return pm.run_history(_CFG, history)


import os
OWN_PID = os.getpid()      # the interpreter that imported psutil (workers are forked from it)


# process names (comm) that make "pid (name) state ..." ambiguous to a careless parser: parentheses, ") " / " (" inside the name, digits and
# state letters after a ")", a name that is only brackets or blanks, a newline, a non-UTF-8 byte; all within the kernel's 15 bytes
COMMS = (b"x) y", b"a b) c", b"web) 1 2", b"a) b) c", b"(sd-pam)", b"foo bar )", b") (", b"(", b")", b" ", b") S 1 2 3",
         b"1 (2) R 0", b"a)\nb", b"q) \xff", b"((x)) ) )")


def mk_cfg(ctx, variant="main"):
    acts = pm.ACTIONS if ctx.thorough else pm.ACTIONS[:7]
    if variant == "main":
        return pm.Cfg(seed=ctx.seed, slots=("A", "B") if ctx.thorough else ("A",), max_objs=2, actions=acts, clock=False,
                      queries=("name", "ppid"), numeric=False, use_iter=True, max_denies=1, oneshot=True, use_wait=True)
    if variant == "clock":
        # wall-clock steps and boot_time()/cpu_stats() between the death of a process and the recycling of its pid: the one
        # action is delivered to the right incarnation or refused
        return pm.Cfg(seed=ctx.seed, slots=("A",), max_objs=1, actions=("kill",), clock=True, queries=(), numeric=True,
                      use_iter=False, use_exit=False, sys_calls=pm.SYS_CALLS[:1])
    if variant == "midact":
        # inside ONE action: the process dies before kernel access k1 and its pid is re-used before access k2 > k1; once psutil has
        # looked at the ownerless pid in between, nothing may be delivered to the newcomer
        return pm.Cfg(seed=ctx.seed, slots=("A",), max_objs=1, actions=("affall", "kill", "nice5", "aff0", "rlimit", "ionice"), clock=False, queries=(),
                      numeric=False, use_iter=False, use_exit=False, midact=8)
    if variant == "iterfault":
        # objects handed out by process_iter() (held by the caller), one-shot resource failure of the identity probe
        return pm.Cfg(seed=ctx.seed, slots=("A",), max_objs=2, actions=acts[:3], clock=False, queries=("name",), numeric=False,
                      use_iter=True, iterhold=True, max_faults=1)
    if variant == "popen":
        # the held objects are psutil.Popen instances whose child was reaped behind their back (returncode None)
        return pm.Cfg(seed=ctx.seed, slots=("A",), max_objs=2, actions=acts[:4], clock=False, queries=("name",), numeric=False,
                      use_iter=False, popen=True)
    if variant == "ownpid":
        # the recyclable pid is the pid of the interpreter that imported psutil (state captured at import, then fork)
        return pm.Cfg(seed=ctx.seed, slots=("A",), max_objs=1, actions=acts[:4], clock=False, queries=("name",), numeric=False,
                      use_iter=False, own_pid=OWN_PID if OWN_PID < 2 ** 22 else None)
    if variant.startswith("comm"):
        # every owner of the recyclable pid carries ONE name of the hostile-name alphabet COMMS (kernel: any bytes, at most 15):
        # the identity psutil reads from /proc/<pid>/stat must not depend on what the name looks like
        return pm.Cfg(seed=ctx.seed, slots=("A",), max_objs=1, actions=("kill", "nice5", "rlimit", "aff0", "ionice"), clock=False,
                      queries=("name",), numeric=False, use_iter=False, use_exit=False, comm={"A": COMMS[int(variant[4:])]})
    raise AssertionError(variant)


def static_cases(seed):
    """Non-positive and out-of-range pids: constructor, pid_exists, and every
    action on a world that (BSD-like) lists a pid 0."""
    import psutil
    viols, n = [], 0
    w = World()
    w.spawn(1, ppid=0, comm=b"init", start=1)
    w.spawn(w.mypid, ppid=1, comm=b"caller", start=50)
    w.spawn(0, ppid=0, comm=b"swapper", start=0)
    use_world(w)
    for pid in (-1, -2, -(2 ** 31), -(2 ** 63), -(2 ** 64)):
        n += 1
        out = outcome(psutil.Process, pid)
        if not (out[0] == "exc" and out[1] in ("ValueError", "NoSuchProcess")):
            viols.append({"cause": "negative-pid-accepted", "msg": "Process(%d) -> %r" % (pid, out),
                          "case": {"static": ["ctor", pid]}})
        out = outcome(psutil.pid_exists, pid)
        n += 1
        if out != ("ok", False):
            viols.append({"cause": "pid_exists-negative", "msg": "pid_exists(%d) -> %r" % (pid, out),
                          "case": {"static": ["pid_exists", pid]}})
    out = outcome(psutil.pid_exists, 0)
    n += 1
    for pid in (2 ** 31, 2 ** 32, 2 ** 63, 2 ** 64):
        n += 1
        out = outcome(psutil.Process, pid)
        if not (out[0] == "exc" and out[1] == "NoSuchProcess"):
            viols.append({"cause": "huge-pid-ctor", "msg": "Process(%d) -> %r" % (pid, out), "case": {"static": ["ctor", pid]}})
    o = outcome(psutil.Process, 0)
    if o[0] == "ok":
        p0 = o[1]
        for a in pm.ACTIONS:
            n += 1
            outcome(pm.do_action, psutil, p0, a)
    # a kernel without prlimit(2) (ENOSYS): whatever rlimit() answers, nothing may be set on any OTHER process -- the caller included
    w2 = World()
    w2.spawn(1, ppid=0, comm=b"init", start=1)
    w2.spawn(w2.mypid, ppid=1, comm=b"caller", start=50)
    w2.spawn(4242, ppid=1, comm=b"target", start=60)
    w2.prlimit_enosys = True
    use_world(w2)
    n += 2
    tgt = outcome(psutil.Process, 4242)
    if tgt[0] == "ok":
        for args in ((psutil.RLIMIT_NOFILE, (7, 9)), (psutil.RLIMIT_NOFILE,)):
            outcome(tgt[1].rlimit, *args)
        for e in w2.effects:
            if e[1] != 4242:
                viols.append({"cause": "wrong-pid", "msg": "rlimit() on pid 4242 under a kernel without prlimit(2) delivered %r" % (e,),
                              "case": {"static": ["enosys"]}})
    use_world(w)
    for e in w.effects:
        if e[1] <= 0 and e[0] == "kill":
            viols.append({"cause": "group-signal", "msg": "delivered %r" % (e,), "case": {"static": ["pid0-actions"]}})
    return n, viols


def scrub(x):
    """messages must not depend on the interpreter's own pid (replays run in other processes)"""
    if isinstance(x, str):
        return x.replace(str(OWN_PID), "<ownpid>")
    if isinstance(x, list):
        return [scrub(y) for y in x]
    if isinstance(x, dict):
        return {k: scrub(v) for k, v in x.items()}
    return x


def run(ctx):
    global _CFG
    extra = {}
    extra_viols = []
    for variant, d in ((("popen", 7 if ctx.thorough else 6), ("ownpid", 7 if ctx.thorough else 6), ("iterfault", 8 if ctx.thorough else 7),
                       ("clock", 9 if ctx.thorough else 8), ("midact", 4 if ctx.thorough else 3))
                      + tuple(("comm%d" % i, 7 if ctx.thorough else 6) for i in range(len(COMMS)))):
        if ctx.alt:
            continue          # (second pass with procfs mounted elsewhere: the main variant, two events shorter)
        _CFG = mk_cfg(ctx, variant)
        ctx.close()
        r = bfs(run_h, d, ctx)
        for v in r["violations"]:
            v["case"]["variant"] = variant
            v["msg"] = scrub(v["msg"])
        extra_viols += r["violations"]
        extra[variant] = {"states": r["states"], "transitions": r["transitions"], "depth": r["max_depth"]}
    _CFG = mk_cfg(ctx)
    ctx.close()
    depth = (9 if ctx.thorough else 8) - (2 if ctx.alt else 0)
    res = bfs(run_h, depth, ctx)
    res["violations"] = res["violations"] + extra_viols
    res["states"] += sum(e["states"] for e in extra.values())
    res["transitions"] += sum(e["transitions"] for e in extra.values())
    n_static, v_static = static_cases(ctx.seed)
    cov = {
        "states": res["states"], "transitions": res["transitions"],
        "traces_validated_against_impl": res["transitions"],
        "max_depth": res["max_depth"], "new_states_per_level": res["new_states_per_level"],
        "distinct_outcomes": len(res["labels"]), "outcome_counts": res["labels"],
        "samples": sample(res["samples"], 8),
        "exhaustive": res["capped"] is None, "capped": res["capped"],
        "alphabet": {"slots": list(_CFG.slots), "max_objects": _CFG.max_objs, "actions": list(_CFG.actions),
                     "queries": list(_CFG.queries)},
        "static_cases": n_static, "variants": extra,
        "explanation": "every transition is an execution of the real psutil code inside simk; states are canonicalised "
                       "(incarnations relabelled by order; see procmodel.Exec.canon) and de-duplicated",
    }
    return {"coverage": cov, "violations": res["violations"] + v_static,
            "assumptions": ["kernel events happen between API calls (the identity-check/kill TOCTOU inside one call is inherent to POSIX pids)",
                            "a recycled pid's new owner starts at a later jiffy than the previous owner"]}


def replay(ctx, case):
    global _CFG
    _CFG = mk_cfg(ctx, case.get("variant", "main"))
    if "static" in case:
        n, v = static_cases(ctx.seed)
        return {"violated": bool(v), "viols": v}
    ex = pm.Exec(_CFG)
    trace = []
    for ev in case["history"]:
        ex.apply(ev)
        trace.append([ev, ex.label, [v["cause"] for v in ex.viols]])
    return scrub({"violated": bool(ex.viols), "trace": trace, "viols": ex.viols})
