"""C03 — a process vanishing / turning zombie / being denied mid-call yields only
psutil errors (explorer F: deviation-bounded fault enumeration on the real code).
"""
import errno
import itertools
import socket

from vf.explore.deviate import explore, PlanHook, Run, Divergence
from vf.harness import use_world, freeze, outcome, sample
from vf.simk.world import World, Thread, FD, Mapping, oserr

ID = "C03"
LEVEL = "fault_enumeration"
ALT_MOUNT = True          # run once more with procfs mounted at /hostproc (vf/child.py)
DEVS = ("vanish", "zombie", "eacces", "eperm", "halfgone", "dying", "recycle")
PSUTIL_ERRS = ("NoSuchProcess", "ZombieProcess", "AccessDenied")
CACHED_OK = {"pid", "create_time"}
# operations about *other* processes / the object's liveness: they have a
# defined answer for a gone process, and a tree walk may see any mixture of the
# table before and after the change
TOLERANT = {"children", "children_r", "parent", "parents", "is_running", "str", "iter"}      # documented: cached for the object's life


def ids(seed):
    seed = seed % 1000
    o = (seed % 5) * 11
    return dict(Q=200 + o, P=300 + o, C=400 + o, U=450 + o, T1=1301 + o, T2=1302 + o)


def variant(seed):
    """seeds >= 1000 encode a variant of the subject: 1 = no smaps_rollup for this process (ENOENT -> smaps fallback),
    2 = kernel without smaps_rollup, 3 = minimal subject (one thread, no descriptors, no mappings)"""
    return seed // 1000


def mk_world(seed, pre=None):
    n = ids(seed)
    w = World(ncpus=2)
    w.spawn(1, ppid=0, comm=b"init", start=1)
    w.spawn(w.mypid, ppid=1, comm=b"caller", start=50)
    w.spawn(n["Q"], ppid=1, comm=b"parent", start=1000)
    p = w.spawn(n["P"], ppid=n["Q"], comm=b"subject-name-15", start=2000)
    p.cmdline = b"/bin/subject-name-15-long\0-x\0"
    w.set_file("/bin/subject-name-15-long", b"#!")
    p.threads = [Thread(n["P"], b"subject-name-15", "S", 5, 6), Thread(n["T1"], b"w1", "S", 7, 8),
                 Thread(n["T2"], b"w2", "R", 9, 10)]
    w.set_file("/tmp/f", b"x")
    w.set_file("/tmp/h (deleted)", b"x")
    p.fds = {0: FD("/dev/null", "chr"), 3: FD("/tmp/f", "reg", 10, 0o100002),
             4: FD("/tmp/g (deleted)", "reg", 0, 0o100000), 5: FD("socket:[5001]", "sock"),
             6: FD("socket:[5002]", "sock"), 7: FD("pipe:[5003]", "pipe"),
             8: FD("/tmp/h (deleted)", "reg", 3, 0o102001)}
    p.maps = [Mapping(0x1000, 0x3000, path=b"/lib/a.so", kb={"Size": 8, "Rss": 4, "Pss": 2, "Private_Clean": 1}),
              Mapping(0x4000, 0x5000, perms="rw-p", path=b"", kb={"Size": 4, "Rss": 4, "Pss": 4, "Private_Dirty": 4, "Anonymous": 4, "Swap": 1}),
              Mapping(0x7000, 0x9000, path=b"[heap]", kb={"Size": 8, "Rss": 1, "Pss": 1, "Private_Dirty": 1})]
    p.tty_nr = 0x8800
    c = w.spawn(n["C"], ppid=n["P"], comm=b"child", start=3000)
    w.spawn(n["U"], ppid=1, comm=b"other", start=3500)
    tcp = w.nodes["/proc/net/tcp"].data
    w.set_file("/proc/net/tcp", tcp + b"   0: 0100007F:0016 00000000:0000 0A 00000000:00000000 00:00000000 00000000     0        0 5001 1 0000 100 0 0 10 0\n")
    ux = w.nodes["/proc/net/unix"].data
    w.set_file("/proc/net/unix", ux + b"0000000000000000: 00000002 00000000 00010000 0001 01 5002 /run/sock\n")
    v = variant(seed)
    if v == 1:
        p.rollup = False
    elif v == 3:
        p.threads, p.fds, p.maps = None, {}, []
    if pre:
        for pid, dev in pre:
            apply_dev(w, dev, None, None, pid, persistent=True)
    return w


def apply_dev(world, dev, kind, subj, pid, persistent=False):
    if dev == "vanish":
        world.vanish(pid)
    elif dev == "zombie":
        if pid in world.procs and not world.procs[pid].zombie:
            world.exit(pid, 0)
    elif dev == "halfgone":
        if pid in world.procs:
            world.procs[pid].halfgone = True
    elif dev == "dying":
        if pid in world.procs:
            world.procs[pid].dying = True
    elif dev == "recycle":
        # the process is gone and its pid already belongs to a newcomer: files opened before answer ESRCH, everything looked up
        # from now on is the newcomer's
        if pid in world.procs:
            old = world.procs[pid]
            world.vanish(pid)
            world.spawn(pid, ppid=1, comm=b"newcomer", start=old.start + 5000)
    elif dev == "nofile":
        # this one file is not there (any more / on this kernel) although the process is still listed and its stat readable:
        # by itself outside the quantifier (never judged alone); the first half of "entries going, then reaped"
        if not persistent:
            raise oserr(errno.ENOENT, str(subj))
    elif dev in ("eacces", "eperm"):
        if not persistent:
            raise oserr(errno.EACCES if dev == "eacces" else errno.EPERM, str(subj))
    else:
        raise AssertionError(dev)


# ---------------------------------------------------------------- operations
def build_ops(psutil):
    names = sorted(psutil._as_dict_attrnames - {"pid"})
    ops = []
    for nm in names:
        ops.append(("m:" + nm, "P"))
    ops.append(("maps_ungrouped", "P"))
    for k in ("inet", "inet4", "inet6", "tcp", "tcp4", "tcp6", "udp", "udp4", "udp6", "unix", "all"):
        ops.append(("conn:" + k, "P"))
    ops.append(("rlimit_get", "P"))
    ops.append(("as_dict", "P"))
    for nm in names:
        ops.append(("as_dict1:" + nm, "P"))
    ops += [("children", "P"), ("children_r", "P"), ("parent", "P"), ("parents", "P"),
            ("children", "Q"), ("children_r", "Q"), ("parent", "C"), ("parents", "C"),
            ("is_running", "P"), ("str", "P"), ("iter:name,ppid", None), ("iter:all", None),
            ("iter:none", None), ("memory_percent:uss", "P"), ("username", "P"),
            # the set forms run the same machinery (and more: the all-eligible-CPUs form reads the status record directly)
            ("set:affinity_all", "P"), ("set:affinity0", "P"), ("set:nice", "P"), ("set:ionice", "P"), ("set:rlimit", "P")]
    return ops


def do_op(psutil, op, obj):
    if op.startswith("m:"):
        return getattr(obj, op[2:])()
    if op == "maps_ungrouped":
        return obj.memory_maps(grouped=False)
    if op.startswith("conn:"):
        return obj.net_connections(op[5:])
    if op == "rlimit_get":
        return obj.rlimit(psutil.RLIMIT_NOFILE)
    if op == "as_dict":
        return obj.as_dict()
    if op.startswith("as_dict1:"):
        return obj.as_dict(attrs=[op[9:]])
    if op == "children":
        return [c.pid for c in obj.children()]
    if op == "children_r":
        return [c.pid for c in obj.children(recursive=True)]
    if op == "parent":
        r = obj.parent()
        return None if r is None else r.pid
    if op == "parents":
        return [c.pid for c in obj.parents()]
    if op == "is_running":
        return obj.is_running()
    if op == "str":
        return str(obj)
    if op.startswith("iter:"):
        a = op[5:]
        attrs = None if a == "none" else ([] if a == "all" else a.split(","))
        out = []
        for p in psutil.process_iter(attrs=attrs):
            out.append((p.pid, getattr(p, "info", None)))
        return out
    if op.startswith("memory_percent:"):
        return obj.memory_percent(op.split(":")[1])
    if op == "username":
        return obj.username()
    if op == "set:affinity_all":
        return obj.cpu_affinity([])
    if op == "set:affinity0":
        return obj.cpu_affinity([0])
    if op == "set:nice":
        return obj.nice(0)
    if op == "set:ionice":
        return obj.ionice(psutil.IOPRIO_CLASS_BE, 4)
    if op == "set:rlimit":
        return obj.rlimit(psutil.RLIMIT_NOFILE, (1024, 4096))
    raise AssertionError(op)


def run_plan(seed, op, who, plan, pre=None, post_check=True):
    import psutil
    n = ids(seed)
    w = mk_world(seed, pre)
    use_world(w)
    psutil._pslinux.HAS_PROC_SMAPS_ROLLUP = variant(seed) != 2
    obj = obj2 = None
    if who is not None:
        try:
            obj = psutil.Process(n[who])
            obj2 = psutil.Process(n[who]) if post_check and plan else None
            if sum(map(ord, op)) % 2 == 1 or op == "m:name":
                outcome(obj.name)       # (a long-lived object that has answered before: about half of the operations start from one)
        except psutil.Error as e:
            return Run(tuple(plan), [], ("ctor", type(e).__name__), None)
    hook = PlanHook(plan, apply_dev)
    w.hook = hook
    w.logging = False
    try:
        out = outcome(do_op, psutil, op, obj)
    finally:
        w.hook = None
    extra = {"objpid": n[who] if who is not None else None}
    faulted_vanish = {hook.accesses[i][2] for i, d in hook.applied if d == "vanish"}
    if post_check and obj is not None and obj.pid not in faulted_vanish and obj.pid in w.procs and w.procs[obj.pid].zombie \
            and any(d == "zombie" and hook.accesses[i][2] == obj.pid for i, d in hook.applied):
        # the zombie the call ran into is reaped afterwards: from then on it is gone like any other
        w.reap(obj.pid) if obj.pid in w.procs else None
        faulted_vanish = faulted_vanish | {obj.pid}
        extra["reaped_after"] = True
    if post_check and obj is not None and obj.pid in faulted_vanish:
        # once gone, every later query raises NoSuchProcess
        bad = []
        for nm in sorted(psutil._as_dict_attrnames - CACHED_OK):
            if nm == "exe" and obj._exe is not None:
                continue
            o2 = outcome(getattr(obj, nm))
            if not (o2[0] == "exc" and o2[1] == "NoSuchProcess" and o2[2].get("pid") == obj.pid):
                bad.append((nm, freeze(o2)))
        # ... also when its pid has meanwhile been handed to a newcomer: on the object that made the faulted call and on a
        # second object of the same process which first noticed the death through is_running()
        if not bad and obj2 is not None:
            o2 = outcome(obj2.is_running)
            if o2 != ("ok", False):
                bad.append(("is_running(second object)", freeze(o2)))
            w.spawn(obj.pid, ppid=1, comm=b"newcomer", start=9000)
            w.spawn(n["T1"], ppid=obj.pid, comm=b"newkid", start=9500)
            for label, o in (("", obj), ("(noticed by is_running)", obj2)):
                for nm, fn in (("ppid", o.ppid), ("parent", o.parent), ("parents", o.parents), ("children", o.children),
                               ("children_r", lambda o=o: o.children(recursive=True))):
                    o2 = outcome(fn)
                    if not (o2[0] == "exc" and o2[1] == "NoSuchProcess" and o2[2].get("pid") == obj.pid):
                        bad.append((nm + "-after-pid-recycled" + label, freeze(o2)))
        extra["later"] = bad
    if out[0] == "ok":
        out = ("ok", freeze(out[1]))
    extra["applied"] = list(hook.applied)
    return Run(tuple(plan), hook.accesses, out, extra)


def alts_for(run, i):
    kind, subj, pid = run.accesses[i]
    if pid is None or kind in ("kill",):
        return ()
    if run.plan:
        # second fault: the statement quantifies over the two-fault sequences (deny at i, vanish at j > i)
        if run.plan[-1][1] in ("eacces", "eperm"):
            return ("vanish",)
        objpid = (run.extra or {}).get("objpid")
        if run.plan[-1][1] == "vanish" and objpid is not None and pid == objpid and run.accesses[run.plan[-1][0]][2] != objpid:
            return ("vanish",)        # a relative went away, and then the very process the object stands for
        if run.plan[-1][1] in ("zombie", "halfgone", "dying", "nofile") and pid == run.accesses[run.plan[-1][0]][2]:
            return ("vanish",)        # ... and a process that is on its way out (zombie, entries going) is then reaped for good
        return ()
    if kind in ("open", "readlink", "listdir") and isinstance(subj, str) and not subj.endswith("/stat"):
        return DEVS + ("nofile",)
    return DEVS


# -------------------------------------------------------------------- oracle
def sublist_of(v, pools):
    pool = []
    for p in pools:
        if isinstance(p, list):
            pool.extend(p)
    for x in v:
        if x in pool:
            pool.remove(x)
        else:
            return False
    return True


def value_ok(op, v, accept, lenient_lists):
    """v equals one of the accepted values; for as_dict per key; for lists
    optionally any sub-multiset."""
    if any(v == a for a in accept):
        return True
    if isinstance(v, dict) and "_nt" in v:
        # a record assembled from several sources read at different moments:
        # every field must come from one of the accepted records
        same = [a for a in accept if isinstance(a, dict) and a.get("_nt") == v["_nt"]]
        return bool(same) and all(any(v[k] == a.get(k) for a in same) for k in v)
    if isinstance(v, dict) and "_nt" not in v and all(isinstance(a, dict) for a in accept):
        for k, x in v.items():
            cands = [a[k] for a in accept if k in a] + [None]
            if k == "environ":
                cands.append({})    # kernel answers an empty read once the mm is gone
            if not value_ok(op, x, cands, lenient_lists):
                return False
        return all(set(v) == set(a) for a in accept)
    if lenient_lists and isinstance(v, list):
        return sublist_of(v, accept)
    return False


class Oracle:
    def __init__(self, seed, op, who):
        self.seed, self.op, self.who = seed, op, who
        self.n = ids(seed)
        self.base = run_plan(seed, op, who, ())
        self._pre = {}

    def pre_value(self, pre):
        key = tuple(sorted(pre))
        if key not in self._pre:
            r = run_plan(self.seed, self.op, self.who, (), pre=list(key), post_check=False)
            self._pre[key] = r.outcome
        return self._pre[key]

    def judge(self, run):
        """-> None if fine, else (cause, msg)"""
        op, who = self.op, self.who
        objpid = self.n[who] if who else None
        applied = run.extra["applied"]
        faults = [(run.accesses[i][2], d) for i, d in applied]
        kinds = {d for _, d in faults}
        fpids = {p for p, _ in faults}
        out = run.outcome
        tag = op.split(":")[0]
        if "nofile" in kinds and "vanish" not in kinds:
            return None          # (one missing file of a listed process: not a case the statement speaks about)
        if run.extra.get("later"):
            nm, o = run.extra["later"][0]
            return ("later-query-not-NSP:%s" % nm,
                    "after the process vanished, %s() -> %r instead of NoSuchProcess" % (nm, o))
        if out[0] == "exc":
            cls, info = out[1], out[2]
            if cls not in PSUTIL_ERRS:
                return ("leak:%s:%s" % (tag if tag not in ("m", "as_dict1") else op, cls),
                        "%s leaked %s %r under faults %r" % (op, cls, info, faults))
            if tag == "iter":
                return ("iter-raised:%s" % cls, "process_iter raised %s %r under %r" % (cls, info, faults))
            if info.get("pid") != objpid:
                return ("wrong-pid:%s:%s" % (op, cls), "%s raised %s pid=%r, object pid=%r faults=%r"
                        % (op, cls, info.get("pid"), objpid, faults))
            need = {"NoSuchProcess": {"vanish", "halfgone", "dying", "recycle"}, "ZombieProcess": {"zombie"},
                    "AccessDenied": {"eacces", "eperm"}}[cls]
            if not (kinds & need):
                if (cls == "NoSuchProcess" and "PID has been reused" in info.get("str", "")
                        and kinds <= {"eacces", "eperm", "zombie", "halfgone"} and kinds & {"eacces", "eperm"}):
                    # the identity re-check inside is_running() was refused and
                    # psutil concluded "PID reused"
                    return ("identity-recheck-denied=>pid-reused", "%s raised %s %r; injected faults were %r"
                            % (op, cls, info, faults))
                return ("unexplained:%s:%s" % (op, cls), "%s raised %s but injected faults were %r"
                        % (op, cls, faults))
            if tag in ("as_dict", "as_dict1") and cls != "NoSuchProcess":
                return ("as_dict-propagated:%s" % cls, "%s propagated %s under %r" % (op, cls, faults))
            return None
        # returned a value
        v = out[1]
        if not applied:
            return None
        if "recycle" in kinds or "nofile" in kinds:
            return None       # (what is read after the take-over is the newcomer's / the fallback for a missing file is not ours to
                              # judge: only the error contract is)
        accept = [self.base.outcome[1]] if self.base.outcome[0] == "ok" else []
        pre = [(p, d) for p, d in faults if d in ("vanish", "zombie")]
        lenient = False
        if pre:
            # value in the world where the state change(s) happened before the call
            for k in range(1, len(pre) + 1):
                for sub in itertools.combinations(pre, k):
                    o = self.pre_value(sub)
                    if o[0] == "ok":
                        accept.append(o[1])
            own_vanish = any(p == objpid and d == "vanish" for p, d in pre)
            lenient = not own_vanish
            if tag in TOLERANT:
                lenient = True
                if tag == "parent":
                    accept.append(None)
            elif own_vanish:
                # the object's own process vanished during the call: only the
                # complete value of the live process is well-formed
                accept = [self.base.outcome[1]] if self.base.outcome[0] == "ok" else []
                for sub in [[x for x in pre if not (x[0] == objpid and x[1] == "vanish")]]:
                    if sub:
                        o = self.pre_value(tuple(sub))
                        if o[0] == "ok":
                            accept.append(o[1])
        if any(p == objpid and d == "zombie" for p, d in pre) and any(p == objpid and d == "vanish" for p, d in pre) \
                and self.base.outcome[0] == "ok":
            # a zombie whose files read empty, reaped before psutil could confirm "zombie": the kernel's empty answer is what was
            # published at that moment ([] / '' / {}), and there is no zombie left to report
            b0 = self.base.outcome[1]
            if isinstance(b0, (list, str)):
                accept = accept + [type(b0)()]
            elif isinstance(b0, dict) and "_nt" not in b0 and len(b0) == 1 and isinstance(list(b0.values())[0], (list, str)):
                accept = accept + [{k: type(x)() for k, x in b0.items()}]
        if tag in ("m", "as_dict1") and op.endswith(":environ") and pre:
            # the kernel itself answers an empty read once the address space is
            # gone: {} is what was published
            accept = accept + [{}, {"environ": {}}]
        if kinds & {"halfgone", "dying"} and tag == "parent":
            accept = accept + [None]
        if kinds & {"eacces", "eperm", "halfgone", "dying"}:
            # a refused access may legitimately switch to a fallback source:
            # require the documented shape only (same type as an accepted value)
            if value_ok(op, v, accept, True):
                return None
            for a in accept:
                if type(v) is type(a) and (not isinstance(v, dict) or "_nt" in v or set(v) == set(a)):
                    return None
            return ("shape:%s" % op, "%s returned %r (baseline %r) under %r" % (op, v, self.base.outcome, faults))
        if tag == "iter":
            pids = [x[0] for x in v]
            if pids != sorted(set(pids)):
                return ("iter-order", "process_iter yielded %r" % (pids,))
            ok = True
            for pid_, info in v:
                cands = [dict(map(tuple, a)).get(pid_) for a in accept if pid_ in dict(map(tuple, a))]
                if not cands:
                    ok = False
                elif info is None:
                    ok = ok and all(c is None for c in cands)
                else:
                    ok = ok and value_ok(op, info, [c for c in cands if c is not None], True)
            if ok:
                return None
        elif tag == "str" and isinstance(v, str) and v.startswith("psutil.Process(pid=%d" % objpid):
            return None
        elif tag == "is_running" and v is False and any(p == objpid for p, d in pre if d == "vanish"):
            return None
        elif value_ok(op, v, accept, lenient):
            return None
        if isinstance(v, dict) and "_nt" not in v:
            bad = {k: x for k, x in v.items()
                   if not value_ok(op, x, [a[k] for a in accept if isinstance(a, dict) and k in a] + [None], lenient)}
            v = {"mismatching_keys": bad}
        return ("value:%s:%s" % (op, "+".join(sorted(kinds))),
                "%s returned %r under faults %r at %r; accepted values: %r"
                % (op, v, faults, [run.accesses[i] for i, _ in applied], accept))


def task(arg):
    """one (op, who, first-level deviation or None) subtree"""
    seed, op, who, first, bound = arg
    orc = Oracle(seed, op, who)
    runner = lambda plan: run_plan(seed, op, who, plan)
    viols, nruns, outcomes, nacc = [], 0, set(), 0
    try:
        if first is None:
            runs = [orc.base]
            nacc = len(orc.base.accesses)
        else:
            runs = explore(runner, alts_for, bound, prefix=(first,), parent=orc.base)
        for r in runs:
            nruns += 1
            outcomes.add((r.outcome[0], r.outcome[1] if r.outcome[0] == "exc" else "value"))
            j = orc.judge(r)
            if j is not None:
                viols.append({"cause": j[0], "msg": j[1],
                              "case": {"seed": seed, "op": op, "who": who, "plan": [list(x) for x in r.plan]}})
    except Divergence as e:
        return {"error": str(e)}
    return {"op": op, "who": who, "runs": nruns, "viols": viols, "outcomes": sorted(outcomes), "nacc": nacc,
            "first": first}


# ---------------------------------------------------------------- the subject is a zombie from the start
def ztask(arg):
    """the subject is already a zombie when the method starts; then it is reaped (vanish) just before access k.
    Error paths of a zombie run the zombie probe from inside the exception translator: nothing bare may escape from there."""
    seed, op, who, plan = arg
    import psutil
    n = ids(seed)
    w = mk_world(seed, [(n[who], "zombie")])
    w.procs[n[who]].comm = b"sub) R (ject"        # (the state letter is what follows the LAST ')' of the stat record)
    use_world(w)
    obj = psutil.Process(n[who])
    repoint = any(d == "repoint" for _, d in plan)
    plan = tuple(x for x in plan if x[1] != "repoint")
    if repoint:
        # the program turns to another procfs tree (a container's, say) AFTER the object was made: the object keeps asking the
        # tree it was made under, the zombie probe included
        psutil.PROCFS_PATH = "/srv/other-procfs"
    hook = PlanHook(plan, apply_dev)
    w.hook = hook
    w.logging = False
    try:
        out = outcome(do_op, psutil, op, obj)
    finally:
        w.hook = None
        if repoint:
            psutil.PROCFS_PATH = w.procfs
    kinds = {d for _, d in hook.applied}
    viol = None
    if out[0] == "exc":
        cls, info = out[1], out[2]
        ok_cls = {"ZombieProcess"} | ({"NoSuchProcess"} if "vanish" in kinds else set()) | ({"AccessDenied"} if kinds & {"eacces", "eperm"} else set())
        if cls not in PSUTIL_ERRS:
            viol = ("zombie-subject:leak:%s:%s" % (op, cls), "%s on a zombie leaked %s %r under %r" % (op, cls, info, sorted(kinds)))
        elif info.get("pid") != obj.pid:
            viol = ("zombie-subject:wrong-pid:%s" % op, "%s raised %s pid=%r" % (op, cls, info.get("pid")))
        elif cls not in ok_cls and not (cls == "NoSuchProcess" and "PID has been reused" in info.get("str", "") and kinds & {"eacces", "eperm"}):
            viol = ("zombie-subject:unexplained:%s:%s" % (op, cls), "%s raised %s under %r" % (op, cls, sorted(kinds)))
        elif cls == "NoSuchProcess" and "PID has been reused" in info.get("str", "") and kinds & {"eacces", "eperm"} and "vanish" not in kinds:
            viol = ("identity-recheck-denied=>pid-reused", "%s raised %s %r; injected faults were %r" % (op, cls, info, sorted(kinds)))
    return {"n": len(hook.accesses), "pids": [a[2] for a in hook.accesses], "viol": viol, "outcome": (out[0], out[1] if out[0] == "exc" else "value")}


Z_OPS = ["m:environ", "m:cmdline", "m:exe", "m:cwd", "m:memory_maps", "m:open_files", "m:threads", "m:num_fds", "m:status", "m:name",
         "m:memory_full_info", "m:io_counters", "as_dict", "m:num_ctx_switches", "m:cpu_times", "m:ppid", "m:terminal", "m:uids"]


def zombie_part(ctx):
    seed = ctx.seed % 1000
    tasks = []
    for op in Z_OPS:
        base = ztask((seed, op, "P", ()))
        tasks.append((seed, op, "P", ()))
        if op not in ("as_dict", "m:ppid"):       # (ppid() first asks is_running(), whose probe object belongs to the NEW tree)
            tasks.append((seed, op, "P", ((-1, "repoint"),)))
        # (only "the zombie is reaped just before access k": a refusal on top of the zombie state is a combination the
        #  statement's quantifier does not list)
        for i in range(base["n"]):
            if base["pids"][i] == ids(seed)["P"]:
                tasks.append((seed, op, "P", ((i, "vanish"),)))
    viols, outs = [], set()
    for t, r in zip(tasks, ctx.pmap(ztask, tasks)):
        outs.add((t[1],) + tuple(r["outcome"]))
        if r["viol"]:
            viols.append({"cause": r["viol"][0], "msg": r["viol"][1], "case": {"zombie_subject": [t[0], t[1], t[2], [list(x) for x in t[3]]]}})
    return len(tasks), len(outs), viols


# ---------------------------------------------------------------- the fault falls inside the constructor
C_QUERIES = ("m:ppid", "parent", "parents", "children", "children_r", "as_dict1:ppid",
             "set:affinity0", "set:nice", "set:ionice", "set:rlimit")


def cbase(seed, who):
    """the accesses of Process(pid) itself (0-deviation run)"""
    return ctask((seed, who, (), "vanish", "running-first"))["accesses"]


def ctask(arg):
    """the deviation happens while the OBJECT IS BEING MADE (plan over the constructor's own accesses); if an object results,
    the process then goes away (`later` = vanish: just gone / recycle: gone and the pid handed to a newcomer with a child) before
    the object is asked anything else.  Demanded: is_running() is False, and the queries raise NoSuchProcess with the object's
    pid (all of them when the pid is free; the identity-guarded ones when a newcomer owns it), in either order of asking."""
    seed, who, plan, later, order = arg
    import psutil
    n = ids(seed)
    pid = n[who]
    w = mk_world(seed)
    use_world(w)
    hook = PlanHook(plan, apply_dev)
    w.hook = hook
    w.logging = False
    try:
        made = outcome(psutil.Process, pid)
    finally:
        w.hook = None
    res = {"accesses": list(hook.accesses), "viols": [], "made": made[0] == "ok", "applied": list(hook.applied)}
    kinds = {d for _, d in hook.applied}
    if made[0] != "ok":
        cls, info = made[1], made[2]
        if cls not in PSUTIL_ERRS:
            res["viols"].append(("ctor:leak:%s" % cls, "Process(%d) leaked %s %r under %r" % (pid, cls, info, sorted(kinds))))
        elif info.get("pid") != pid:
            res["viols"].append(("ctor:wrong-pid:%s" % cls, "Process(%d) raised %s pid=%r" % (pid, cls, info.get("pid"))))
        elif not kinds:
            res["viols"].append(("ctor:unexplained:%s" % cls, "Process(%d) raised %s with no fault" % (pid, cls)))
        return res
    obj = made[1]
    # the process of this object goes away
    w.vanish(pid)
    if later == "recycle":
        w.spawn(pid, ppid=1, comm=b"newcomer", start=9000)
        w.spawn(n["T1"], ppid=pid, comm=b"newkid", start=9500)
    tagc = "ctor-fault:%s" % later

    def nsp(label, o2):
        if not (o2[0] == "exc" and o2[1] == "NoSuchProcess" and o2[2].get("pid") == pid):
            res["viols"].append(("%s:later-query-not-NSP:%s" % (tagc, label),
                                 "object made under %r, process then gone (%s): %s -> %r instead of NoSuchProcess(pid=%d)"
                                 % (sorted(kinds), later, label, freeze(o2), pid)))

    def running():
        o2 = outcome(obj.is_running)
        if o2 != ("ok", False):
            res["viols"].append(("%s:is_running-after-gone" % tagc,
                                 "object made under %r, process then gone (%s): is_running() -> %r"
                                 % (sorted(kinds), later, freeze(o2))))

    if order == "running-first":
        running()
    if later == "vanish":
        for nm in sorted(psutil._as_dict_attrnames - CACHED_OK):
            nsp(nm, outcome(getattr(obj, nm)))
    for q in C_QUERIES:
        nsp(q, outcome(do_op, psutil, q, obj))
    running()
    return res


def ctor_part(ctx):
    seed = ctx.seed % 1000
    tasks = []
    for who in ("P", "C"):
        acc = cbase(seed, who)
        plans = [()]
        for i, (kind, subj, apid) in enumerate(acc):
            if apid is None or kind == "kill":
                continue
            devs = tuple(d for d in DEVS if d != "recycle")      # (recycled DURING construction: whose object it is is not defined)
            if kind in ("open", "readlink", "listdir") and isinstance(subj, str) and not subj.endswith("/stat"):
                devs += ("nofile",)
            plans += [((i, d),) for d in devs]
        for plan in plans:
            for later in ("vanish", "recycle"):
                for order in ("running-first", "queries-first"):
                    tasks.append((seed, who, plan, later, order))
    viols, outs = [], set()
    for t, r in zip(tasks, ctx.pmap(ctask, tasks)):
        outs.add((t[1], t[2][0][1] if t[2] else None, r["made"], t[3]))
        for c, m in r["viols"]:
            viols.append({"cause": c, "msg": m, "case": {"ctor_subject": [t[0], t[1], [list(x) for x in t[2]], t[3], t[4]]}})
    return len(tasks), len(outs), viols


def run(ctx):
    import psutil
    from vf.simk import calibrate
    binding = calibrate.run()
    if binding["liveness_mismatches"] or binding["roundtrip_mismatches"]:
        raise RuntimeError("environment model (simk) disagrees with this kernel: %r" % (binding,))
    seed = ctx.seed
    ops = build_ops(psutil)
    bound_default = 1
    pair_ops = None
    if ctx.thorough:
        bound_default = 2
    tasks = []
    sizes = {}
    for op, who in ops:
        base = run_plan(seed, op, who, ())
        if base.outcome[0] != "ok":
            return {"coverage": {}, "violations": [{"cause": "baseline:%s" % op,
                    "msg": "0-deviation run of %s failed: %r" % (op, base.outcome),
                    "case": {"seed": seed, "op": op, "who": who, "plan": []}}]}
        sizes[(op, who)] = len(base.accesses)
        tasks.append((seed, op, who, None, 0))
        for i in range(len(base.accesses)):
            for d in alts_for(base, i):
                b = bound_default
                if not ctx.thorough and (op in ("m:name", "m:exe", "m:open_files", "m:threads", "children", "parent", "m:memory_full_info",
                                                "conn:all", "m:ppid", "m:cwd", "m:environ", "m:memory_info", "m:uids", "m:cmdline")
                                         or d in ("zombie", "halfgone", "dying", "nofile")
                                         or op in ("parents", "children_r")):
                    b = 2      # quick: pairs for the short, fallback-rich operations, and "on its way out, then reaped" everywhere
                tasks.append((seed, op, who, (i, d), b))
    if ctx.thorough:
        vops = [(op, who) for op, who in ops if op in ("m:memory_full_info", "m:memory_maps", "m:memory_percent", "memory_percent:uss",
                                                      "as_dict", "m:threads", "m:open_files", "m:num_fds", "conn:all", "iter:all")]
        for v in (1, 2, 3):
            vs = seed % 1000 + 1000 * v
            for op, who in vops:
                base = run_plan(vs, op, who, ())
                if base.outcome[0] != "ok":
                    continue
                tasks.append((vs, op, who, None, 0))
                for i in range(len(base.accesses)):
                    for d in alts_for(base, i):
                        tasks.append((vs, op, who, (i, d), 2))
    results = ctx.pmap(task, tasks, chunk=4)
    viols, nruns, distinct = [], 0, set()
    per_op = {}
    for r in results:
        if "error" in r:
            raise RuntimeError("machinery: " + r["error"])
        nruns += r["runs"]
        viols += r["viols"]
        for o in r["outcomes"]:
            distinct.add((r["op"], r["first"][1] if r["first"] else None, tuple(o)))
        per_op.setdefault(r["op"], [0, set()])
        per_op[r["op"]][0] += r["runs"]
        per_op[r["op"]][1] |= {tuple(o) for o in r["outcomes"]}
    nz, dz, zv = zombie_part(ctx)
    viols += zv
    nruns += nz
    nc, dc, cv = ctor_part(ctx)
    viols += cv
    nruns += nc
    dz += dc
    cov = {
        "zombie_subject_runs": nz,
        "ctor_fault_runs": nc,
        "evaluations": nruns,
        "distinct_nontrivial": len(distinct) + dz,
        "rule": "one evaluation = one execution of a Process operation on the real code inside the simulated "
                "kernel under one fault plan (<= bound deviations from {vanish, zombie, EACCES, EPERM} at a chosen "
                "OS access of the process the access refers to); distinct_nontrivial = number of distinct "
                "(operation, first deviation kind, outcome class) triples observed",
        "exhaustive": True, "simk_binding": binding,
        "bound": "all single deviations {vanish, zombie, EACCES, EPERM, half-gone} at every access of every operation; all pairs "
                 "(deny at i, vanish at j>i) " + ("for every operation" if ctx.thorough else "for 9 short operations"),
        "operations": len(ops),
        "accesses_per_operation": {"%s@%s" % k: v for k, v in sizes.items()},
        "outcomes_per_operation": {k: sorted(map(list, v[1])) for k, v in per_op.items()},
        "samples": sample([{"op": t[1], "who": t[2], "plan": [list(t[3])] if t[3] else []} for t in tasks], 6),
    }
    return {"coverage": cov, "violations": viols,
            "assumptions": ["simk liveness table (live/zombie/reaped x access) as calibrated on this kernel",
                            "faults are applied to the process the access refers to; kernel events are atomic "
                            "w.r.t. a single OS access"]}


def replay(ctx, case):
    if "ctor_subject" in case:
        z = case["ctor_subject"]
        r = ctask((z[0], z[1], tuple(tuple(x) for x in z[2]), z[3], z[4]))
        v = r["viols"]
        return {"violated": bool(v), "cause": v[0][0] if v else None, "msg": v[0][1] if v else None}
    if "zombie_subject" in case:
        z = case["zombie_subject"]
        r = ztask((z[0], z[1], z[2], tuple(tuple(x) for x in z[3])))
        return {"violated": r["viol"] is not None, "cause": r["viol"][0] if r["viol"] else None, "msg": r["viol"][1] if r["viol"] else None}
    orc = Oracle(case["seed"], case["op"], case["who"])
    plan = tuple((i, d) for i, d in case["plan"])
    r = run_plan(case["seed"], case["op"], case["who"], plan)
    j = orc.judge(r)
    return {"violated": j is not None, "cause": j[0] if j else None, "msg": j[1] if j else None,
            "accesses": [list(map(str, a)) for a in r.accesses], "outcome": freeze(r.outcome)}
