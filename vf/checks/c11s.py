"""C11 (schedule part) — net_connections() and Process.net_connections() called by two threads at once: every call
answers exactly as it would alone (the socket table does not change); explorer S."""
from vf.explore import sched as S
from vf.harness import use_world, outcome
from vf.checks import c11

SOCKS = [{"proto": "tcp", "l": ["10.1.2.3", 22], "r": ["10.1.2.3", 1], "st": "01", "inode": 6001},
         {"proto": "tcp6", "l": ["::1", 22], "r": ["::", 0], "st": "0A", "inode": 6002},
         {"proto": "udp", "l": ["0.0.0.0", 1], "r": ["0.0.0.0", 0], "st": "07", "inode": 6003},
         {"proto": "unix", "type": 1, "path": "/run/x", "inode": 6004}]
HOLD = {6001: [["a", 3]], 6002: [["b", 4]], 6003: [["a", 5], ["b", 6]], 6004: [["b", 7]]}
SCENARIOS = {
    "sys-vs-proc": [["sys:all"], ["proc:a:tcp"]],
    "sys-vs-sys": [["sys:inet"], ["sys:tcp6"]],
    "proc-vs-proc": [["proc:a:all"], ["proc:b:inet6"]],
}


class Harness:
    def __init__(self, scn):
        import psutil
        self.ps = psutil
        self.scn = scn
        nc = psutil._pslinux.NetConnections
        fns = [nc.retrieve, nc.get_all_inodes, nc.get_proc_inodes, nc.process_inet, nc.process_unix, nc.decode_address,
               psutil._pslinux.net_connections, psutil._pslinux.Process.net_connections, psutil.net_connections,
               psutil.Process.net_connections]
        self.watched = []
        for f in fns:
            g = getattr(f, "__func__", f)
            while True:
                c = getattr(g, "__code__", None)
                if c is not None and c not in self.watched:
                    self.watched.append(c)
                    self.watched += [k for k in c.co_consts if hasattr(k, "co_code") and k not in self.watched]
                if not hasattr(g, "__wrapped__"):
                    break
                g = g.__wrapped__

    def run(self, prefix):
        ps = self.ps
        sc = S.Sched(prefix, self.watched)
        w, pa, pb = c11.mk_world(0)
        use_world(w)
        holders = c11.apply_case(w, pa, pb, SOCKS, HOLD)
        for k in holders:
            holders[k].sort()
        ev = []

        def hook(world, kind, subj, pid):
            sc.point("access", (kind, str(subj)))
        w.hook = hook
        w.logging = False
        objs = {"a": ps.Process(pa.pid), "b": ps.Process(pb.pid)}

        def mk(tid, prog):
            def body():
                for step in prog:
                    parts = step.split(":")
                    if parts[0] == "sys":
                        o = outcome(ps.net_connections, parts[1])
                        ev.append((tid, step, parts[1], None, o))
                    else:
                        o = outcome(objs[parts[1]].net_connections, parts[2])
                        ev.append((tid, step, parts[2], (pa if parts[1] == "a" else pb).pid, o))
            return body
        for i, prog in enumerate(SCENARIOS[self.scn]):
            sc.add(i, mk(i, prog))
        with S.coop_locks(sc, ps):
            x = sc.run()
        w.hook = None
        x.events = ev
        x.holders = holders
        return x


def judge(x):
    out = []
    if x.deadlock:
        return [("deadlock", repr(x.deadlock))]
    for t, e in x.errors.items():
        out.append(("thread-raised:%s" % type(e).__name__, repr(e)))
    for tid, step, kind, only_pid, o in x.events:
        if o[0] != "ok":
            out.append(("concurrent-call-raised:%s" % o[1], "thread %d %s raised %r" % (tid, step, o)))
            continue
        rows = [c11.norm_row(r, only_pid is None) for r in o[1]]
        why, what = c11.match(c11.ref_rows(SOCKS, x.holders, kind, only_pid=only_pid), rows)
        if why:
            out.append(("concurrent-call:%s" % why, "thread %d %s: %s %r; got %r" % (tid, step, why, what, rows)))
    return out


_H = None


def _task(arg):
    scn, bound, prefix = arg
    global _H
    if _H is None or _H.scn != scn:
        _H = Harness(scn)
    stats, viols, outcomes = {}, [], set()

    def check(x, pfx):
        outcomes.add(repr([(e[0], e[1], e[4][0]) for e in x.events]))
        for cause, msg in judge(x):
            viols.append({"cause": cause, "msg": msg, "case": {"part": "S", "scenario": scn, "schedule": x.choices()}})
    S.explore(_H.run, bound, prefix, check, stats)
    return stats, viols, len(outcomes)


def run_s(ctx):
    bound = 2 if ctx.thorough else 1
    tot = {"executions": 0, "points": 0}
    viols, per, distinct = [], {}, 0
    for scn in SCENARIOS:
        h = Harness(scn)
        root = h.run([])
        for cause, msg in judge(root):
            viols.append({"cause": cause, "msg": msg, "case": {"part": "S", "scenario": scn, "schedule": root.choices()}})
        tasks, ch = [], root.choices()
        for i, p in enumerate(root.points):
            if len(p.enabled) < 2:
                continue
            cost = root.preemptions_before(i) + (1 if p.running_enabled else 0)
            if cost > bound:
                continue
            for alt in range(1, len(p.enabled)):
                tasks.append((scn, bound, ch[:i] + [alt]))
        n = 1
        for st, vs, nd in ctx.pmap(_task, tasks, chunk=1):
            n += st.get("executions", 0)
            tot["points"] += st.get("points", 0)
            viols += vs
            distinct += nd
        tot["executions"] += n
        per[scn] = {"executions": n, "points_in_default_schedule": len(root.points), "preemption_bound": bound}
    return {"coverage": {"executions": tot["executions"], "transitions": tot["points"], "scenarios": per,
                         "distinct_outcome_vectors": distinct, "preemption_bound": bound}, "violations": viols}


def replay_s(ctx, case):
    h = Harness(case["scenario"])
    x = h.run(case["schedule"])
    j = judge(x)
    return {"violated": bool(j), "viols": j, "events": [str(e)[:300] for e in x.events]}
