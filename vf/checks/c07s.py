"""C07 (schedule part) — each calling thread is measured against its own previous sample.
Two threads call cpu_percent()/cpu_times_percent() (non-blocking) while every read of /proc/stat
returns a later snapshot; explorer S."""
from vf.explore import sched as S
from vf.harness import use_world, outcome
from vf.simk.world import World, CLK_TCK

PROGRAMS = {
    "cpu_percent": [[("cpu_percent", False), ("cpu_percent", False)], [("cpu_percent", False), ("cpu_percent", False)]],
    "cpu_times_percent-percpu": [[("cpu_times_percent", True), ("cpu_times_percent", True)], [("cpu_times_percent", True)]],
    "mixed": [[("cpu_percent", True), ("cpu_times_percent", False), ("cpu_percent", True)], [("cpu_times_percent", False), ("cpu_percent", True)]],
}
# how the application named its threads is a dimension of its own: the default names, or every worker created with the same
# explicit name (Thread(target=..., name="sampler")): a thread's name is not its identity, each one keeps its own history
NAMING = {"": None, "+same-name": "sampler"}
SCENARIOS = {k + sfx: v for k, v in PROGRAMS.items() for sfx in NAMING}


def snap(n, ncpu=2):
    """snapshot number n (per-cpu rows of 10 tick counters); increments vary with n so that mixing samples shows"""
    rows = []
    for c in range(ncpu):
        user = 1000 + sum((k % 5 + 1) * 70 * (c + 1) for k in range(n))
        idle = 5000 + 200 * n * (c + 1)
        rows.append([user, 10, 300 + 30 * n, idle, 20, 5, 6, 7, 0, 0])
    return rows


def ref(name, percpu, a, b):
    res = []
    rows = list(zip(a, b)) if percpu else [([sum(c) for c in zip(*a)], [sum(c) for c in zip(*b)])]
    for t1, t2 in rows:
        d = [max(0, y - x) / CLK_TCK for x, y in zip(t1, t2)]
        tot = sum(d) - d[8] - d[9]
        busy = tot - d[3] - d[4]
        if name == "cpu_percent":
            res.append(100 * busy / tot if tot > 0 else 0.0)
        else:
            res.append([100 * x / tot if tot > 0 else 0.0 for x in d])
    return res


class Harness:
    def __init__(self, scn):
        import psutil
        self.ps = psutil
        self.scn = scn
        self.watched = [psutil.cpu_percent.__code__, psutil.cpu_times_percent.__code__]

    def run(self, prefix):
        ps = self.ps
        sc = S.Sched(prefix, self.watched)
        w = World(ncpus=2)
        use_world(w)
        n = [0]
        ev = []
        w.cpu_times = snap(0)

        def hook(world, kind, subj, pid):
            sc.point("access", (kind, str(subj)))
            if kind == "read" and subj == "/proc/stat":
                n[0] += 1
                world.cpu_times = snap(n[0])
                ev.append(("read", sc.current(), n[0]))
        w.hook = hook
        w.logging = False

        tname = NAMING["+" + self.scn.split("+", 1)[1] if "+" in self.scn else ""]

        def mk(prog):
            def body():
                if tname is not None:
                    import threading
                    threading.current_thread().name = tname
                for name, percpu in prog:
                    ev.append(("start", sc.current(), name, percpu))
                    o = outcome(getattr(ps, name), interval=None, percpu=percpu)
                    if o[0] == "ok":
                        v = o[1]
                        if name == "cpu_times_percent":
                            v = [list(x) for x in v] if percpu else [list(v)]
                        else:
                            v = list(v) if percpu else [v]
                        o = ("ok", v)
                    ev.append(("end", sc.current(), name, percpu, o))
            return body
        for i, prog in enumerate(SCENARIOS[self.scn]):
            sc.add(i, mk(prog))
        with S.coop_locks(sc, ps):
            x = sc.run()
        w.hook = None
        x.events = ev
        return x


def judge(x):
    out = []
    if x.deadlock:
        return [("deadlock", repr(x.deadlock))]
    for t, e in x.errors.items():
        out.append(("thread-raised:%s" % type(e).__name__, repr(e)))
    # per thread and per (function, percpu) stream: the sequence of own reads
    last = {}      # (thread, name, percpu) -> snapshot number of the stored previous sample
    cur = {}       # thread -> reads of the running call
    for e in x.events:
        if e[0] == "start":
            cur[e[1]] = []
        elif e[0] == "read":
            if e[1] in cur:
                cur[e[1]].append(e[2])
        elif e[0] == "end":
            th, name, percpu, o = e[1], e[2], e[3], e[4]
            reads = cur.pop(th)
            key = (th, name, percpu)
            if o[0] != "ok":
                out.append(("call-raised:%s:%s" % (name, o[1]), repr(o)))
                continue
            if key in last:
                a, b = last[key], reads[-1]
            elif len(reads) < 2:
                # first call of this thread for this stream: it has no previous sample of its own, so it must take one
                out.append(("not-measured-against-own-previous-sample:%s" % name,
                            "thread %s %s(percpu=%s): first call of the thread took no baseline of its own (reads in this call %r), "
                            "got %r" % (th, name, percpu, reads, o[1])))
                if reads:
                    last[key] = reads[-1]
                continue
            else:
                a, b = reads[-2], reads[-1]     # (an earlier read may be the one-off column-layout detection)
            last[key] = reads[-1]
            exp = ref(name, percpu, snap(a), snap(b))
            got = o[1]
            ok = len(got) == len(exp)
            if ok:
                for g, e_ in zip(got, exp):
                    if name == "cpu_percent":
                        ok = ok and abs(g - e_) <= 0.05 + 1e-9
                    else:
                        # (the known total<1s scaling defect is avoided: totals here are > 1 s)
                        ok = ok and all(abs(p - q) <= 0.05 + 1e-9 for p, q in zip(g, e_[:len(g)]))
            if not ok:
                out.append(("not-measured-against-own-previous-sample:%s" % name,
                            "thread %s %s(percpu=%s): got %r, expected %r from its own samples #%d and #%d (reads in this call %r)"
                            % (th, name, percpu, got, exp, a, b, reads)))
    return out


_H = None


def _task(arg):
    scn, bound, prefix = arg
    global _H
    if _H is None or _H.scn != scn:
        _H = Harness(scn)
    stats, viols, outcomes = {}, [], set()

    def check(x, pfx):
        outcomes.add(tuple(str(e[4]) for e in x.events if e[0] == "end"))
        for cause, msg in judge(x):
            viols.append({"cause": cause, "msg": msg, "case": {"part": "S", "scenario": scn, "schedule": x.choices()}})
    S.explore(_H.run, bound, prefix, check, stats)
    return stats, viols, len(outcomes)


def run_s(ctx):
    bound = 3 if ctx.thorough else 2
    tot = {"executions": 0, "points": 0}
    viols, per, distinct = [], {}, 0
    for scn in SCENARIOS:
        if not ctx.thorough and scn == "mixed+same-name":
            continue        # (quick tier: the same-name naming on the two single-function scenarios, which cover both functions
            #                  and both forms; the thorough tier runs every scenario under every naming)
        h = Harness(scn)
        root = h.run([])
        for cause, msg in judge(root):
            viols.append({"cause": cause, "msg": msg, "case": {"part": "S", "scenario": scn, "schedule": root.choices()}})
        tasks, ch = [], root.choices()
        for i, p in enumerate(root.points):
            if len(p.enabled) < 2:
                continue
            cost = root.preemptions_before(i) + (1 if p.running_enabled else 0)
            if cost > bound:
                continue
            for alt in range(1, len(p.enabled)):
                tasks.append((scn, bound, ch[:i] + [alt]))
        n = 1
        for st, vs, nd in ctx.pmap(_task, tasks, chunk=1):
            n += st.get("executions", 0)
            tot["points"] += st.get("points", 0)
            viols += vs
            distinct += nd
        tot["executions"] += n
        per[scn] = {"executions": n, "points_in_default_schedule": len(root.points), "preemption_bound": bound}
    return {"coverage": {"executions": tot["executions"], "transitions": tot["points"], "scenarios": per,
                         "distinct_outcome_vectors": distinct, "preemption_bound": bound}, "violations": viols}


def replay_s(ctx, case):
    h = Harness(case["scenario"])
    x = h.run(case["schedule"])
    j = judge(x)
    return {"violated": bool(j), "viols": j, "events": [list(map(str, e)) for e in x.events]}
