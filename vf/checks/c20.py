"""C20 -- every non-Linux platform layer keeps the same error contract and record
layout (explorer F: exhaustive fault enumeration on the real code).

Each flavour (freebsd, openbsd, netbsd, macos, sunos, aix, windows) is driven in
its own fresh interpreter (the platform flags are fixed at import) with the
recording stub natives of c20_stubs.py behind the platform module.  Per flavour:

 (1) every public Process method through the front end, 0 deviations, records
     whose every slot holds a distinct value: the result is compared *by field
     name and value* with the slots the platform module's own map names
     (kinfo_proc_map, pidtaskinfo_map, proc_info_map, pinfo_map);
 (2) every process-scoped native call the method makes x every errno (Windows:
     winerror codes too) x every answer of the zombie / existence probe x pid
     kind (ordinary pid; pid 0 listed / unlisted on BSD and Solaris); thorough
     adds every 2-fault sequence, the sticky variant of every fault (the same
     native function keeps failing) and the "name not cached" variant;
 (3) front-end post-processing (net_if_addrs broadcast / MAC padding, name
     extension from the cmdline) and the documented API names.

Oracle = the property statement; where a platform method documents a different
treatment of a failure (fallback to another source, ENOENT on a procfs link,
ERROR_PARTIAL_COPY retries, ...) the statement's "other source" reading is
accepted too -- each such case is listed in `survivable()` with the reason.
"""
import json
import os
import subprocess
import sys
import tempfile
import time

ID = "C20"
LEVEL = "fault_enumeration"
NEEDS_PSUTIL = False        # the child must not import the Linux psutil

PY = "/venv/bin/python"
FLAVOURS = ["freebsd", "openbsd", "netbsd", "macos", "sunos", "aix", "windows"]
BSDS = ("freebsd", "openbsd", "netbsd")
ERRNOS = ["ESRCH", "ENOENT", "EPERM", "EACCES", "EIO", "EINVAL"]
WIN_FAULTS = [["win", 5], ["win", 1314], ["win", 299], ["win", 87],
              ["errno", "ESRCH"], ["errno", "EPERM"], ["errno", "EIO"]]
PSUTIL_ERRS = ("NoSuchProcess", "ZombieProcess", "AccessDenied")
SIGNAL_OPS = ("send_signal.TERM", "send_signal.CTRL_C", "suspend", "resume", "terminate", "kill")
UNORDERED = ("net_connections", "open_files", "memory_maps")
# getters that between them fill every per-block (oneshot) cache of every platform layer: the kinfo / basic-info record,
# the credentials record, the name record, the task-info record, the Windows proc_info record and the memoized exe
WARMERS = ("ppid", "uids", "name", "memory_info", "num_ctx_switches", "num_threads", "exe")
RETRY_FNS = ("proc_cmdline", "proc_environ", "proc_cwd")     # natives under @retry_error_partial_copy


def faults_for(fl):
    return WIN_FAULTS if fl == "windows" else [["errno", e] for e in ERRNOS]


def modes_for(fl, pidkind):
    if fl == "windows":
        return ["gone"]             # no zombies, no probe
    if fl in ("sunos", "aix"):
        if pidkind != "norm":
            return ["zombie"]       # _psposix.pid_exists(0) is always true: PID 0 cannot be probed as gone
        return ["zombie", "gone"]   # probe == "does the pid still exist"
    if pidkind == "norm":
        # ... and the probe itself may fail (the quantifier says "any native call the method makes"): whatever it fails
        # with, the PID is not known to be a zombie
        return ["zombie", "alive", "gone", "probe-EPERM", "probe-EIO"]
    return ["zombie", "alive", "gone"]


def pidkinds_for(fl):
    if fl in BSDS or fl == "sunos":
        return ["norm", "pid0-listed", "pid0-unlisted"]
    return ["norm"]


# ---------------------------------------------------------------- canonical values
def canon(v):
    import enum
    if isinstance(v, enum.Enum):
        return canon(v.value)
    if isinstance(v, tuple) and hasattr(v, "_fields"):
        return {f: canon(getattr(v, f)) for f in v._fields}      # by field name, not class name
    if isinstance(v, (list, tuple)):
        return [canon(x) for x in v]
    if isinstance(v, dict):
        return {str(k): canon(x) for k, x in v.items()}
    if isinstance(v, (set, frozenset)):
        return sorted((canon(x) for x in v), key=repr)
    if isinstance(v, (int, float, str, bool)) or v is None:
        return v
    return repr(v)


def norm_value(op, v):
    if op.split(".")[0].split("@")[0] in UNORDERED and isinstance(v, list):
        return sorted(v, key=lambda x: json.dumps(x, sort_keys=True))
    return v


# ---------------------------------------------------------------- operations
def build_ops(env):
    ps = env.psutil
    fl = env.fl
    ops = []
    for nm in sorted(ps._as_dict_attrnames - {"pid"}):
        ops.append(nm)
    ops += ["proc.create_time", "nice.set", "memory_maps.ungrouped" if hasattr(ps.Process, "memory_maps") else None,
            "net_connections.all", "net_connections.tcp4", "wait", "as_dict"]
    if fl == "windows":
        ops += ["ionice.set", "cpu_affinity.set", "send_signal.TERM", "send_signal.CTRL_C", "suspend", "resume",
                "terminate", "kill", "cmdline@oldwin"]
    else:
        ops += ["send_signal.TERM", "suspend", "resume", "terminate", "kill", "name@long"]
    if fl == "freebsd":
        ops += ["rlimit.get", "rlimit.set", "cpu_affinity.set"]
    return [o for o in ops if o]


def do_op(env, p, op):
    ps = env.psutil
    if op == "proc.create_time":
        return p._proc.create_time()
    if op == "nice.set":
        return p.nice(ps.HIGH_PRIORITY_CLASS if env.fl == "windows" else 5)
    if op == "ionice.set":
        return p.ionice(ps.IOPRIO_LOW)
    if op == "rlimit.get":
        return p.rlimit(ps.RLIMIT_NOFILE)
    if op == "rlimit.set":
        return p.rlimit(ps.RLIMIT_NOFILE, (10, 20))
    if op == "cpu_affinity.set":
        return p.cpu_affinity([0, 1])
    if op == "memory_maps.ungrouped":
        return p.memory_maps(grouped=False)
    if op.startswith("net_connections."):
        return p.net_connections(op.split(".")[1])
    if op == "send_signal.TERM":
        return p.send_signal(15)
    if op == "send_signal.CTRL_C":
        return p.send_signal(0)
    if op == "wait":
        return p.wait(timeout=0)
    if op == "cmdline@oldwin":
        return p.cmdline()
    if op == "name@long":
        return p.name()
    return getattr(p, op)()


# ---------------------------------------------------------------- expected 0-deviation values
def nt(**kw):
    return dict(kw)


def spec_conns(env, kind):
    """documented conversion of the raw connection rows (fd, family, type, laddr, raddr, status)"""
    M, D, C = env.mod, env.D, env.const
    cm = env.psutil._common
    fams, types_ = cm.conn_tmap[kind]
    fl = env.fl
    key = {"freebsd": "proc_net_connections", "macos": "proc_net_connections"}.get(fl, "net_connections")
    fn = D[key]
    if fl == "freebsd":
        rows = fn(env.pid, fams, types_)
    elif fl == "netbsd":
        rows = fn(env.pid, kind)
    elif fl in ("sunos", "aix"):
        rows = fn(env.pid)
    else:
        rows = fn(env.pid, fams, types_)
    out = []
    for r in rows:
        fd, fam, typ, laddr, raddr, status = r[:6]
        if fam not in fams or typ not in types_:
            continue
        inet = fam in (2, int(cm.AF_INET6))
        if inet:
            laddr = nt(ip=laddr[0], port=laddr[1]) if laddr else laddr
            raddr = nt(ip=raddr[0], port=raddr[1]) if raddr else raddr
        if fl == "sunos":
            st = M.TCP_STATUSES[status]      # _pssunos maps every row
        elif typ == 1 and inet:
            st = M.TCP_STATUSES.get(status, cm.CONN_NONE)
        else:
            st = cm.CONN_NONE
        out.append(nt(fd=fd, family=fam, type=typ, laddr=canon(laddr), raddr=canon(raddr), status=st))
    if fl == "sunos" and kind in ("all", "unix"):
        out.append(nt(fd=-1, family=1, type=1, laddr="/fake/sock", raddr="", status=cm.CONN_NONE))
    return out


def spec_value(env, op, winver="new"):
    """what the documentation + the platform module's own slot map promise for the
    default records; '<skip>' when there is nothing record-shaped to compare"""
    fl, M, D, ps = env.fl, env.mod, env.D, env.psutil
    TOT = float(1 << 30)
    thr = lambda rows: [nt(id=a, user_time=b, system_time=c) for a, b, c in rows]   # noqa: E731
    if op in ("send_signal.TERM", "send_signal.CTRL_C", "suspend", "resume", "terminate", "kill",
              "nice.set", "ionice.set", "rlimit.set", "cpu_affinity.set"):
        return None
    if op == "cpu_percent":
        return 0.0
    if op == "name@long":
        return LONG15 + "-and-more"     # front end: truncated name extended from cmdline[0]
    if op.startswith("net_connections"):
        return spec_conns(env, op.split(".")[1] if "." in op else "inet")
    if op == "as_dict":
        return "<skip>"
    if fl in BSDS:
        K, R = M.kinfo_proc_map, D["proc_oneshot_info"]
        g = lambda n: R[K[n]]   # noqa: E731
        mm = D["proc_memory_maps"] if fl == "freebsd" else None
        table = {
            "ppid": g("ppid"), "name": g("name"), "exe": "/fake/bin/prog", "cmdline": D["proc_cmdline"],
            "environ": D["proc_environ"], "terminal": "/dev/ttyv-ok",
            "uids": nt(real=g("real_uid"), effective=g("effective_uid"), saved=g("saved_uid")),
            "gids": nt(real=g("real_gid"), effective=g("effective_gid"), saved=g("saved_gid")),
            "cpu_times": nt(user=g("user_time"), system=g("sys_time"), children_user=g("ch_user_time"),
                            children_system=g("ch_sys_time")),
            "cpu_num": g("cpunum"),
            "memory_info": nt(rss=g("rss"), vms=g("vms"), text=g("memtext"), data=g("memdata"), stack=g("memstack")),
            "create_time": g("create_time"), "proc.create_time": g("create_time"),
            "num_threads": D["proc_num_threads"] if fl != "openbsd" else len(D["proc_threads"]),
            "num_ctx_switches": nt(voluntary=g("ctx_switches_vol"), involuntary=g("ctx_switches_unvol")),
            "threads": thr(D["proc_threads"]),
            "status": M.PROC_STATUSES[g("status")],
            "io_counters": nt(read_count=g("read_io_count"), write_count=g("write_io_count"), read_bytes=-1, write_bytes=-1),
            "cwd": D["proc_cwd"],
            "open_files": [nt(path=a, fd=b) for a, b in D["proc_open_files"]],
            "num_fds": D["proc_num_fds"], "nice": D["getpriority"],
            "username": str(g("real_uid")),
            "memory_percent": g("rss") / TOT * 100,
            "cpu_affinity": sorted(set(D["proc_cpu_affinity_get"])),
            "rlimit.get": D["proc_getrlimit"], "wait": 3,
        }
        table["memory_full_info"] = table["memory_info"]
        if mm:
            table["memory_maps.ungrouped"] = [nt(addr=a, perms=b, path=c, rss=d, private=e, ref_count=f, shadow_count=h)
                                              for a, b, c, d, e, f, h in mm]
            grp = {}
            for a, b, c, d, e, f, h in mm:
                cur = grp.setdefault(c, [0, 0, 0, 0])
                for i, x in enumerate((d, e, f, h)):
                    cur[i] += x
            table["memory_maps"] = [nt(path=c, rss=v[0], private=v[1], ref_count=v[2], shadow_count=v[3])
                                    for c, v in grp.items()]
        return table[op]
    if fl == "macos":
        K, R = M.kinfo_proc_map, D["proc_kinfo_oneshot"]
        T, S = M.pidtaskinfo_map, D["proc_pidtaskinfo_oneshot"]
        g = lambda n: R[K[n]]   # noqa: E731
        t = lambda n: S[T[n]]   # noqa: E731
        table = {
            "ppid": g("ppid"), "name": g("name"), "exe": D["proc_exe"], "cmdline": D["proc_cmdline"],
            "environ": {"HOME": "/fake/home", "K": "v=1"}, "terminal": "/dev/ttyv-ok",
            "uids": nt(real=g("ruid"), effective=g("euid"), saved=g("suid")),
            "gids": nt(real=g("rgid"), effective=g("egid"), saved=g("sgid")),
            "cpu_times": nt(user=t("cpuutime"), system=t("cpustime"), children_user=0.0, children_system=0.0),
            "memory_info": nt(rss=t("rss"), vms=t("vms"), pfaults=t("pfaults"), pageins=t("pageins")),
            "memory_full_info": nt(rss=t("rss"), vms=t("vms"), pfaults=t("pfaults"), pageins=t("pageins"),
                                   uss=D["proc_memory_uss"]),
            "create_time": g("ctime"), "proc.create_time": g("ctime"),
            "num_threads": t("numthreads"),
            "num_ctx_switches": nt(voluntary=t("volctxsw"), involuntary=0),
            "threads": thr(D["proc_threads"]),
            "status": M.PROC_STATUSES[g("status")],
            "cwd": D["proc_cwd"],
            "open_files": [nt(path=a, fd=b) for a, b in D["proc_open_files"] if a.startswith("/fake/")],
            "num_fds": D["proc_num_fds"], "nice": D["getpriority"],
            "username": str(g("ruid")), "memory_percent": t("rss") / TOT * 100, "wait": 3,
        }
        return table[op]
    if fl == "sunos":
        K, R, CR = M.proc_info_map, D["proc_basic_info"], D["proc_cred"]
        g = lambda n: R[K[n]]   # noqa: E731
        ct = D["proc_cpu_times"]
        mm = [("1000-2000", "r-x", "/fake/bin/prog", 1901, 1902, 1903), ("3000-4000", "rw-", "[heap]", 1911, 1912, 1913)]
        table = {
            "ppid": g("ppid"), "name": D["proc_name_and_args"][0], "exe": "/fake/bin/prog",
            "cmdline": D["proc_name_and_args"][1].split(" "),
            "environ": D["proc_environ"], "terminal": "/dev/pts/5",
            "uids": nt(real=CR[0], effective=CR[1], saved=CR[2]),
            "gids": nt(real=CR[3], effective=CR[4], saved=CR[5]),
            "cpu_times": nt(user=ct[0], system=ct[1], children_user=ct[2], children_system=ct[3]),
            "cpu_num": D["proc_cpu_num"],
            "memory_info": nt(rss=g("rss") * 1024, vms=g("vms") * 1024),
            "create_time": g("create_time"), "proc.create_time": g("create_time"),
            "num_threads": g("num_threads"), "nice": g("nice"),
            "num_ctx_switches": nt(voluntary=2001, involuntary=2002),
            "threads": thr([(1, 11, 12), (2, 21, 22)]),
            "status": M.PROC_STATUSES[g("status")],
            "cwd": "/fake/cwd",
            "open_files": [nt(path="/fake/f1", fd=3), nt(path="/fake/f2", fd=4)],
            "num_fds": 3, "username": str(CR[0]), "memory_percent": g("rss") * 1024 / TOT * 100, "wait": 3,
            "memory_maps.ungrouped": [nt(addr=a, perms=b, path=c, rss=d, anonymous=e, locked=f) for a, b, c, d, e, f in mm],
            "memory_maps": [nt(path=c, rss=d, anonymous=e, locked=f) for a, b, c, d, e, f in mm],
        }
        table["memory_full_info"] = table["memory_info"]
        return table[op]
    if fl == "aix":
        K, R, CR = M.proc_info_map, D["proc_basic_info"], D["proc_cred"]
        g = lambda n: R[K[n]]   # noqa: E731
        ct = D["proc_cpu_times"]
        io = D["proc_io_counters"]
        table = {
            "ppid": g("ppid"), "name": "aixproc", "exe": "/fake/bin/prog", "cmdline": D["proc_args"],
            "environ": D["proc_environ"], "terminal": "/dev/pts/7",
            "uids": nt(real=CR[0], effective=CR[1], saved=CR[2]),
            "gids": nt(real=CR[3], effective=CR[4], saved=CR[5]),
            "cpu_times": nt(user=ct[0], system=ct[1], children_user=ct[2], children_system=ct[3]),
            "memory_info": nt(rss=g("rss") * 1024, vms=g("vms") * 1024),
            "create_time": g("create_time"), "proc.create_time": g("create_time"),
            "num_threads": g("num_threads"), "nice": D["getpriority"],
            "num_ctx_switches": nt(voluntary=2001, involuntary=2002),
            "threads": thr(D["proc_threads"]),
            "status": M.PROC_STATUSES[g("status")],
            "cwd": "/fake/cwd", "open_files": [nt(path="/fake/f1", fd=3)],
            "io_counters": nt(read_count=io[0], write_count=io[1], read_bytes=io[2], write_bytes=io[3]),
            "num_fds": 3, "username": str(CR[0]), "memory_percent": g("rss") * 1024 / TOT * 100, "wait": 3,
        }
        table["memory_full_info"] = table["memory_info"]
        return table[op]
    if fl == "windows":
        K, R = M.pinfo_map, D["proc_info"]
        g = lambda n: R[K[n]]   # noqa: E731
        mi = D["proc_memory_info"]   # PROCESS_MEMORY_COUNTERS order, documented in pmem's field list
        mem = nt(rss=mi[2], vms=mi[7], num_page_faults=mi[0], peak_wset=mi[1], wset=mi[2], peak_paged_pool=mi[3],
                 paged_pool=mi[4], peak_nonpaged_pool=mi[5], nonpaged_pool=mi[6], pagefile=mi[7],
                 peak_pagefile=mi[8], private=mi[9])
        tm = D["proc_times"]
        io = D["proc_io_counters"]
        table = {
            "ppid": 3101, "name": "prog.exe", "exe": "C:\\fake\\prog.exe", "cmdline": ["C:\\fake\\prog.exe", "/x"],
            "cmdline@oldwin": ["C:\\fake\\prog.exe", "/x"],
            "environ": {"PATH": "C:\\fake", "K": "v=1"},
            "memory_info": mem, "memory_full_info": dict(mem, uss=D["proc_memory_uss"] * 4096),
            "memory_percent": mi[2] / TOT * 100,
            "memory_maps.ungrouped": [nt(addr=hex(a), perms=b, path="C:" + c[len("\\Device\\HarddiskVolume1"):], rss=d)
                                      for a, b, c, d in D["proc_memory_maps"]],
            "memory_maps": [nt(path="C:\\fake\\a.dll", rss=3401 + 3403), nt(path="C:\\fake\\b.dll", rss=3402)],
            "username": "DOM\\usr", "create_time": tm[2], "proc.create_time": tm[2],
            "num_threads": g("num_threads"), "threads": thr(D["proc_threads"]),
            "cpu_times": nt(user=tm[0], system=tm[1], children_user=0.0, children_system=0.0),
            "cwd": "C:\\fake\\cwd",
            "open_files": [nt(path="C:\\fake\\f1", fd=-1), nt(path="C:\\fake\\f2", fd=-1)],
            "nice": D["proc_priority_get"], "ionice": 1,
            "io_counters": nt(read_count=io[0], write_count=io[1], read_bytes=io[2], write_bytes=io[3],
                              other_count=io[4], other_bytes=io[5]),
            "status": ps.STATUS_RUNNING, "cpu_affinity": [0, 2],
            "num_handles": D["proc_num_handles"],
            "num_ctx_switches": nt(voluntary=g("ctx_switches"), involuntary=0),
            "wait": 3501,
        }
        return table[op]
    raise AssertionError(fl)


# ---------------------------------------------------------------- documented fallbacks
def fallback_value(env, op, fn, V0):
    """value promised when `fn` is denied and the method documents another source; None = n/a"""
    fl, M, D = env.fl, env.mod, env.D
    if fl == "sunos" and fn == "proc_cred":
        K, R = M.proc_info_map, D["proc_basic_info"]
        if op in ("uids", "username"):
            v = nt(real=R[K["uid"]], effective=R[K["euid"]], saved=None)
            return str(v["real"]) if op == "username" else v
        if op == "gids":
            return nt(real=R[K["gid"]], effective=R[K["egid"]], saved=None)
    if fl == "windows":
        K, R = M.pinfo_map, D["proc_info"]
        g = lambda n: R[K[n]]   # noqa: E731
        if fn == "proc_memory_info":
            mem = nt(rss=g("wset"), vms=g("pagefile"), num_page_faults=g("num_page_faults"), peak_wset=g("peak_wset"),
                     wset=g("wset"), peak_paged_pool=g("peak_paged_pool"), paged_pool=g("paged_pool"),
                     peak_nonpaged_pool=g("peak_non_paged_pool"), nonpaged_pool=g("non_paged_pool"),
                     pagefile=g("pagefile"), peak_pagefile=g("peak_pagefile"), private=g("mem_private"))
            if op == "memory_info":
                return mem
            if op == "memory_full_info":
                return dict(mem, uss=D["proc_memory_uss"] * 4096)
            if op == "memory_percent":
                return g("wset") / float(1 << 30) * 100
        if fn == "proc_times":
            if op == "proc.create_time":
                return g("create_time")
            if op == "cpu_times":
                return nt(user=g("user_time"), system=g("kernel_time"), children_user=0.0, children_system=0.0)
            if op == "cpu_percent":
                return 0.0
        if fn == "proc_io_counters" and op == "io_counters":
            return nt(read_count=g("io_rcount"), write_count=g("io_wcount"), read_bytes=g("io_rbytes"),
                      write_bytes=g("io_wbytes"), other_count=g("io_count_others"), other_bytes=g("io_bytes_others"))
        if fn == "proc_num_handles" and op == "num_handles":
            return g("num_handles")
    return None


def errclass(fl, fault, fn=""):
    kind, code = fault
    if kind == "win":
        return {5: "perm", 1314: "perm", 299: "retry"}.get(code, "other")
    if code == "ESRCH":
        return "nsp"
    if code == "ENOENT":
        # the 'no such process' failure of the procfs platforms (their wrap_exceptions says
        # so); elsewhere it is not clear whether the statement counts it -> both readings
        # (kill(2) itself never reports ENOENT)
        return "nsp" if fl in ("sunos", "aix") and fn != "os.kill" else "enoent?"
    if code in ("EPERM", "EACCES"):
        return "perm"
    return "other"


def survivable(env, op, fn, fault, mode, pidkind="norm", point=0):
    """Does the *method itself* document going on after this failure of this call?
    Returns None (no) or (reason, value) with value in {'same', 'any', <expected value>}."""
    fl = env.fl
    cls = errclass(fl, fault, fn)
    base = op.split(".")[0].split("@")[0]
    code = fault[1]
    if op == "name@long" and (point >= 1 or fn in ("proc_cmdline", "proc_args")) and (   # (the cmdline() call of name())
            allowed_for_fault(env, op, pidkind, fn, fault, mode) & {"AD", "ZOMBIE"}):
        return ("front-end name(): AccessDenied/ZombieProcess from cmdline() -> keep the truncated name", LONG15)
    # front end, all platforms: exe() falls back to guessing from the cmdline on AccessDenied,
    # and swallows AccessDenied while guessing when the platform gave ''
    if base == "exe" and (cls == "perm" or (pidkind == "pid0-listed" and cls in ("other", "enoent?"))
                          or (fl == "openbsd" and pidkind == "pid0-unlisted" and mode != "gone" and cls in ("other", "enoent?"))):
        return ("front-end exe(): AccessDenied -> guess from cmdline", "any")
    if fl == "sunos":
        if base == "exe" and fn == "os.readlink:path/a.out":
            return ("_pssunos.exe: any OSError on path/a.out -> guess from the cmdline", "any")
        if fn == "proc_cred" and base in ("uids", "gids", "username") and (
                cls == "perm" or (cls == "other" and pidkind == "pid0-listed")):
            return ("_pssunos.uids/gids: AccessDenied on cred -> psinfo slots", "fallback")
        if code == "ENOENT":
            if base == "terminal" and fn.startswith("os.readlink:path/"):
                return ("_pssunos.terminal: unresolved fd link is skipped", "any")
            if base == "cwd" and fn == "os.readlink:path/cwd":
                return ("_pssunos.cwd: unresolved link of a live process -> ''", "")
            if base in ("threads", "num_threads") and fn == "query_process_thread" and mode != "gone":
                # (when the whole process is gone the method re-checks and reports it: _assert_alive())
                return ("_pssunos.threads: thread gone in the meantime is skipped", "any")
            if base == "open_files" and fn.startswith("os.readlink:path/"):
                return ("_pssunos.open_files: unresolved link is skipped", "any")
            if base == "memory_maps" and fn.startswith("os.readlink:path/"):
                return ("_pssunos.memory_maps: unresolved link path is returned as is", "any")
    if fl == "aix":
        if code == "ENOENT" and base in ("cwd", "exe") and fn == "os.readlink:cwd":
            return ("_psaix.cwd: unresolved link of a live process -> ''", "any" if base == "exe" else "")
    if fl == "netbsd" and base in ("cmdline", "exe", "name") and fn == "proc_cmdline" and code == "EINVAL" and (
            mode == "alive" or (mode == "gone" and pidkind != "norm")):     # pid_exists(0) is always true
        return ("_psbsd.cmdline (NetBSD): EINVAL of a live, non-zombie process -> []", "any")
    if fl == "windows":
        if cls == "retry" and fn in RETRY_FNS:
            return ("@retry_error_partial_copy: ERROR_PARTIAL_COPY is retried", "same" if base != "exe" else "any")
        if cls == "perm":
            if fn == "proc_cmdline" and op in ("cmdline", "exe", "name"):
                return ("_pswindows.cmdline: PEB read denied -> non-PEB method", "same")
            if fn in ("proc_memory_info", "proc_times", "proc_io_counters", "proc_num_handles"):
                return ("_pswindows: denied -> slower proc_info() source", "fallback")
    return None


def allowed_for_fault(env, op, pidkind, fn, fault, mode):
    """set of allowed outcome kinds for a run whose *last* fired fault is this one"""
    fl = env.fl
    cls = errclass(fl, fault, fn)
    base = op.split(".")[0].split("@")[0]
    out = set()
    if cls in ("nsp", "enoent?"):
        if op in SIGNAL_OPS and fl != "windows":
            # front end _send_signal: NoSuchProcess, or ZombieProcess where kill() is known to lie
            out |= {"NSP", "ZOMBIE"}
        elif mode == "zombie":
            out.add("ZOMBIE")
            if base == "status":
                out.add("ok:STATUS_ZOMBIE")       # front end status(): ZombieProcess -> STATUS_ZOMBIE
        else:
            out.add("NSP")
        if cls == "enoent?":
            out.add("UNCHANGED")
            if pidkind == "pid0-listed":
                out.add("AD")
    elif cls == "perm":
        out.add("AD")
    elif cls == "retry":
        if fn not in RETRY_FNS:
            out.add("UNCHANGED")    # elsewhere ERROR_PARTIAL_COPY is just another error
    else:
        # the one documented exception: unexplained OSError on the existing PID 0 (BSD, Solaris)
        out.add("AD" if pidkind == "pid0-listed" else "UNCHANGED")
    if fl == "openbsd" and pidkind == "pid0-unlisted" and mode != "gone" and cls in ("other", "enoent?"):
        # _psbsd.pids() (OpenBSD): the kernel does not list PID 0 but it is queryable -> it exists, so the documented
        # PID-0 exception applies and is the ONLY acceptable answer for an unexplained error (unless the very call that
        # proves PID 0 queryable -- its name lookup -- is the one that keeps failing)
        out.add("AD")
        if cls == "other" and fn != "proc_oneshot_info":
            out.discard("UNCHANGED")
    # method-specific, documented in the module:
    if fl == "netbsd" and fn == "proc_cmdline" and fault[1] == "EINVAL":
        out |= {"ZOMBIE"} if mode == "zombie" else ({"NSP"} if mode == "gone" else set())
    if fl == "aix" and fn == "proc_io_counters" and mode == "gone":
        out.add("NSP")      # "if process is terminated, proc_io_counters returns OSError instead of NSP"
    return out


# ---------------------------------------------------------------- one execution
def classify(env, res, expected_name):
    """-> (kind, detail) kind in ok / NSP / ZOMBIE / AD / UNCHANGED / OTHER:<cls>"""
    if res[0] == "ok":
        return "ok", None
    e = res[1]
    cls = type(e).__name__
    if cls in PSUTIL_ERRS and type(e).__module__ == "psutil":
        kind = {"NoSuchProcess": "NSP", "ZombieProcess": "ZOMBIE", "AccessDenied": "AD"}[cls]
        bad = []
        if getattr(e, "pid", "<none>") != env.pid:
            bad.append("pid=%r" % (getattr(e, "pid", None),))
        if getattr(e, "name", "<none>") != expected_name:
            bad.append("name=%r (cached %r)" % (getattr(e, "name", None), expected_name))
        return kind, bad or None
    if getattr(e, "_c20_injected", False):
        return "UNCHANGED", None
    return "OTHER:" + cls, str(e)[:200]


LONG15 = "fifteen-chars-x"          # a name the kernel truncated to 15 characters
LONGCMD = ["/fake/bin/" + LONG15 + "-and-more", "-z"]


def long_name_records(env):
    fl, M = env.fl, env.mod
    if fl in BSDS or fl == "macos":
        key = "proc_oneshot_info" if fl in BSDS else "proc_kinfo_oneshot"
        rec = list(env.D[key])
        rec[M.kinfo_proc_map["name"]] = LONG15
        return {key: tuple(rec), "proc_cmdline": LONGCMD}
    if fl == "sunos":
        return {"proc_name_and_args": (LONG15, " ".join(LONGCMD))}
    return {"proc_name": LONG15, "proc_args": LONGCMD}


def run_once(env, case):
    """case: {pidkind, cached, op, faults:[[point, fault],...], sticky:[point, fault]|None, mode, over}"""
    from vf.checks import c20_stubs as S
    pidkind = case["pidkind"]
    pid = None if pidkind == "norm" else 0
    winver = "old" if case["op"].endswith("@oldwin") else "new"
    S.reset_caches(env)
    over = case.get("over")
    if case["op"].endswith("@long"):
        over = long_name_records(env)
    env.scenario(pid=pid, mode="alive", listed0=(pidkind != "pid0-unlisted"), winver=winver, over=over)
    ps = env.psutil
    p = ps.Process(env.pid)
    if case.get("cached"):
        p.name()
    expected_name = p._name
    def arm():
        env.mode = case.get("mode", "alive")
        env.plan = {int(i): f for i, f in case.get("faults", [])}
        env.sticky = tuple(case["sticky"]) if case.get("sticky") else None
        env.begin()
    try:
        if case.get("oneshot"):
            with p.oneshot():
                # history inside ONE oneshot() block: the block's cache is filled by other getters while the process
                # is alive and nothing fails; only then does the process change state (mode) and the fault plan start
                for w in case.get("warm") or ():
                    do_op(env, p, w)
                arm()
                v = do_op(env, p, case["op"])
        else:
            arm()
            v = do_op(env, p, case["op"])
        res = ("ok", norm_value(case["op"], canon(v)))
    except BaseException as e:   # noqa: BLE001
        if isinstance(e, (KeyboardInterrupt, SystemExit, MemoryError)):
            raise
        res = ("exc", e)
    kind2 = None
    if case.get("again"):
        # the same question once more on the SAME object while the kernel keeps answering the same
        try:
            v2 = do_op(env, p, case["op"])
            res2 = ("ok", norm_value(case["op"], canon(v2)))
        except BaseException as e:   # noqa: BLE001
            if isinstance(e, (KeyboardInterrupt, SystemExit, MemoryError)):
                raise
            res2 = ("exc", e)
        kind2 = classify(env, res2, expected_name)[0]
    env.end()
    kind, detail = classify(env, res, expected_name)
    return {"res": res, "kind": kind, "detail": detail, "points": list(env.points), "fired": list(env.fired),
            "calls": list(env.calls), "name": expected_name, "kind2": kind2}


def judge(env, case, r, V0):
    """-> (violated, cause, msg) for a fault run"""
    op, pidkind, mode = case["op"], case["pidkind"], case.get("mode", "alive")
    fl = env.fl
    kind = r["kind"]
    opbase = op.split("@")[0]
    if not r["fired"]:
        return False, None, "no fault fired"
    # walk the fired faults backwards: the last one decides; where the method documents that
    # it goes on after a failure (SURVIVABLE), what the earlier faults allow is allowed too
    allowed = set()
    fired = r["fired"]
    all_survivable = True
    first_val = None
    for i in range(len(fired) - 1, -1, -1):
        pt, fn, f = fired[i]
        allowed |= allowed_for_fault(env, op, pidkind, fn, f, mode)
        sv = survivable(env, op, fn, f, mode, pidkind, pt)
        if sv is None:
            all_survivable = False
            break
        first_val = (fn, sv[1])
    nretry = sum(1 for _, fn, f in fired if errclass(fl, f, fn) == "retry" and fn in RETRY_FNS)
    if nretry >= 33:
        allowed.add("AD")          # retried 33 times, then converted to AccessDenied (documented)
    if kind == "ok":
        val = r["res"][1]
        if "ok:STATUS_ZOMBIE" in allowed and val == env.psutil.STATUS_ZOMBIE:
            return False, None, None
        if not all_survivable:
            return True, "swallowed:%s:%s:%s" % (fl, opbase, errclass(fl, fired[-1][2], fired[-1][1])), \
                "fault(s) %r did not surface: returned %r (statement allows %s)" % (fired, val, sorted(allowed))
        if len({(fn, json.dumps(f)) for _, fn, f in fired}) == 1:
            fn, want = first_val
            if want == "fallback":
                want = fallback_value(env, op, fn, V0)
                want = "any" if want is None else norm_value(op, canon(want))
            if want == "same":
                want = V0
            if want != "any" and val != want:
                return True, "wrong-value:%s:%s:after-%s" % (fl, op, fn), \
                    "after %r the documented other source gives %r, got %r" % (fired[0], want, val)
        return False, None, None
    if kind in allowed:
        if r["detail"]:
            return True, "bad-attrs:%s:%s:%s" % (fl, opbase, kind), \
                "fired %r: exception %s carries %s" % (fired, kind, r["detail"])
        return False, None, None
    lastf = fired[-1]
    return True, "contract:%s:%s:%s->%s" % (fl, opbase, errclass(fl, lastf[2], lastf[1]), kind), \
        "fired %r mode=%s pid=%s: got %s %s, statement allows %s" % (
            fired, mode, pidkind, kind, r["detail"] or (repr(r["res"][1])[:160]), sorted(allowed))


def jsonable_res(r):
    res = r["res"]
    if res[0] == "ok":
        out = ["ok", res[1]]
    else:
        e = res[1]
        out = ["exc", type(e).__name__, {"pid": getattr(e, "pid", None), "name": getattr(e, "name", None),
                                         "errno": getattr(e, "errno", None), "winerror": getattr(e, "winerror", None),
                                         "str": str(e)[:160]}]
    return {"outcome": out, "kind": r["kind"], "fired": r["fired"], "points": r["points"]}


# ---------------------------------------------------------------- special cases (0-deviation, other records)
def special_cases(env):
    """(3) + targeted record variants; each -> dict(case=..., violated, cause, msg)"""
    ps, fl, M = env.psutil, env.fl, env.mod
    out = []

    def add(name, violated, cause, msg, extra=None):
        out.append({"case": {"flavour": fl, "special": name}, "violated": bool(violated), "cause": cause,
                    "msg": msg, "obs": extra})

    # --- net_if_addrs post-processing
    link = int(M.AF_LINK)
    rows = [("nic0", 2, "192.168.1.7", "255.255.255.0", None, None),
            ("nic0", int(ps._common.AF_INET6), "fe80::1", "64", None, None),
            ("nic0", -1 if fl == "windows" else link, "aa-bb-cc" if fl == "windows" else "aa:bb:cc", None, None, None),
            # records for which no broadcast address can be computed (non-contiguous mask; mask in expanded notation),
            # placed right AFTER one for which it can: nothing may carry over from the previous record
            ("nic2", 2, "10.9.0.2", "255.0.255.0", None, None),
            ("nic1", 2, "10.1.2.3", None, None, None),
            ("nic2", int(ps._common.AF_INET6), "fe80::2", "ffff:ffff:ffff:ffff::", None, None),
            # physical addresses of one byte and of none (nothing in them shows which separator the platform uses)
            ("nic3", -1 if fl == "windows" else link, "7F" if fl == "windows" else "7f", None, None, None),
            ("nic4", -1 if fl == "windows" else link, "", None, None, None)]
    env.scenario(over={"net_if_addrs": rows})
    got = canon(ps.net_if_addrs())
    by = {(n, a["family"]): a for n, lst in got.items() for a in lst}
    mac = by.get(("nic0", link), {}).get("address")
    want_mac = "aa-bb-cc-00-00-00" if fl == "windows" else "aa:bb:cc:00:00:00"
    add("net_if_addrs:mac", mac != want_mac, "%s:net_if_addrs:mac-padding" % fl,
        "MAC %r, expected %r" % (mac, want_mac), got)
    sep_ = "-" if fl == "windows" else ":"
    for nic_, raw_ in (("nic3", "7F" if fl == "windows" else "7f"), ("nic4", "")):
        mac_ = by.get((nic_, link), {}).get("address")
        want_ = raw_ + (sep_ + "00") * 5
        add("net_if_addrs:mac:%s" % nic_, mac_ != want_, "%s:net_if_addrs:mac-padding-short-address" % fl,
            "physical address %r padded to %r, expected %r" % (raw_, mac_, want_), got)
    if fl == "windows":
        b4 = by.get(("nic0", 2), {}).get("broadcast")
        b6 = by.get(("nic0", int(ps._common.AF_INET6)), {}).get("broadcast")
        # IPv4: must be computed from address/netmask.  IPv6: the Windows native layer hands back
        # no IPv6 netmask at all, and ipaddress only understands a prefix length -- so for the
        # synthetic "/64" row only a *wrong* address is an error (None or the right one pass)
        bad = (b4 != "192.168.1.255") or (b6 not in (None, "fe80::ffff:ffff:ffff:ffff"))
        add("net_if_addrs:broadcast", bad, "windows:net_if_addrs:broadcast-discarded",
            "computed broadcast address does not take effect: IPv4 192.168.1.7/255.255.255.0 -> %r (expected "
            "'192.168.1.255'), IPv6 fe80::1/64 -> %r" % (b4, b6), got)
        for fam_, what_ in ((2, "10.9.0.2/255.0.255.0"), (int(ps._common.AF_INET6), "fe80::2/ffff:ffff:ffff:ffff::")):
            lb = by.get(("nic2", fam_), {}).get("broadcast")
            add("net_if_addrs:uncomputable-%d" % fam_, lb is not None, "windows:net_if_addrs:broadcast-carried-over-from-previous-record",
                "%s has no computable broadcast address, front end reports %r" % (what_, lb), got)
        nb = by.get(("nic1", 2), {}).get("broadcast")
        add("net_if_addrs:no-netmask", nb is not None, "windows:net_if_addrs:broadcast-without-netmask",
            "broadcast %r for an address without netmask" % (nb,), got)
    else:
        b4 = by.get(("nic0", 2), {}).get("broadcast")
        add("net_if_addrs:posix-broadcast", b4 is not None, "%s:net_if_addrs:broadcast-invented" % fl,
            "native layer said broadcast=None, front end reports %r" % (b4,), got)

    # --- system-wide net_connections(): every native record, whichever pid owns it (0 included: idle/system process, kernel
    #     sockets), becomes an sconn carrying that pid
    if fl in ("windows", "openbsd", "netbsd", "sunos", "aix"):
        from vf.checks.c20_stubs import AF_INET, SOCK_STREAM
        est = env.const("MIB_TCP_STATE_ESTAB" if fl == "windows" else "TCPS_ESTABLISHED")
        rows2 = [(2601 + i, AF_INET, SOCK_STREAM, ("10.0.0.1", 2611 + i), ("10.0.0.2", 2612), est, owner)
                 for i, owner in enumerate((0, 77, 0, env.norm_pid))]
        env.scenario(over={"net_connections": (lambda *a, **k: list(rows2))})
        try:
            got = ("ok", ps.net_connections("tcp4"))
        except Exception as e_:  # noqa: BLE001
            got = ("exc", type(e_).__name__, str(e_))
        if got[0] != "ok":
            add("net_connections:system-wide", True, "%s:net_connections:system-wide-raised" % fl, repr(got))
        else:
            recs = got[1]
            badrec = [r for r in recs if type(r).__name__ != "sconn" or not hasattr(r, "pid")]
            pids_ = sorted(getattr(r, "pid", "missing") for r in recs if hasattr(r, "pid"))
            add("net_connections:system-wide", bool(badrec) or pids_ != [0, 0, 77, env.norm_pid],
                "%s:net_connections:system-wide-record-of-pid-0" % fl,
                "system-wide records %r; owners reported %r, native owners [0, 0, 77, %d]" % ([type(r).__name__ for r in recs], pids_, env.norm_pid))

    # --- POSIX name(): a 15-char (truncated) name is extended from cmdline[0]
    if fl != "windows":
        long15 = LONG15
        over = long_name_records(env)
        r = run_once(env, {"pidkind": "norm", "cached": False, "op": "name", "over": over})
        want = long15 + "-and-more"
        add("name:extended", r["res"] != ("ok", want), "%s:name:cmdline-extension" % fl,
            "name() -> %r, expected %r" % (r["res"], want))
        if fl in BSDS or fl == "macos":
            # name slot None -> proc_name() is the documented second source
            key = "proc_oneshot_info" if fl in BSDS else "proc_kinfo_oneshot"
            rec2 = list(env.D[key])
            rec2[M.kinfo_proc_map["name"]] = None
            r = run_once(env, {"pidkind": "norm", "cached": False, "op": "name", "over": {key: tuple(rec2)}})
            want = env.D["proc_name"]
            add("name:none-slot", r["res"] != ("ok", want), "%s:name:proc_name-fallback" % fl,
                "name() -> %r, expected %r" % (r["res"], want))

    # --- status slot = zombie constant -> STATUS_ZOMBIE (OpenBSD: SDEAD)
    if fl in BSDS or fl == "macos":
        key = "proc_oneshot_info" if fl in BSDS else "proc_kinfo_oneshot"
        rec = list(env.D[key])
        rec[M.kinfo_proc_map["status"]] = env.zombie_const
        r = run_once(env, {"pidkind": "norm", "cached": False, "op": "status", "over": {key: tuple(rec)}})
        add("status:zombie-const", r["res"] != ("ok", ps.STATUS_ZOMBIE), "%s:status:zombie-constant" % fl,
            "status() for the zombie status code -> %r" % (r["res"],))

    # --- SunOS terminal(): no controlling terminal (ttynr == PRNODEV) -> None
    if fl == "sunos":
        rec = list(env.D["proc_basic_info"])
        rec[M.proc_info_map["ttynr"]] = env.const("PRNODEV")
        r = run_once(env, {"pidkind": "norm", "cached": False, "op": "terminal", "over": {"proc_basic_info": tuple(rec)}})
        add("terminal:PRNODEV", r["res"] != ("ok", None), "sunos:terminal:wrap_exceptions-on-int",
            "ttynr slot == PRNODEV (no terminal) but terminal() -> %r: the slot value is passed through "
            "wrap_exceptions(), so the comparison with PRNODEV is always true" % (r["res"],))
    # --- AIX terminal(): slot that matches no device -> None
    if fl == "aix":
        rec = list(env.D["proc_basic_info"])
        rec[M.proc_info_map["ttynr"]] = 0
        r = run_once(env, {"pidkind": "norm", "cached": False, "op": "terminal", "over": {"proc_basic_info": tuple(rec)}})
        add("terminal:none", r["res"] != ("ok", None), "aix:terminal:no-device", "terminal() -> %r" % (r["res"],))
    return out


# ---------------------------------------------------------------- documented API per platform
def documented_names(fl):
    """docs/index.rst of 7.0.0, names with their availability notes (read by hand)"""
    ALL = set(FLAVOURS)
    t = {}

    def put(names, plats=ALL):
        for n in names.split():
            t[n] = set(plats)
    put("Error NoSuchProcess ZombieProcess AccessDenied TimeoutExpired Process Popen "
        "cpu_times cpu_percent cpu_times_percent cpu_count cpu_stats virtual_memory swap_memory "
        "disk_partitions disk_usage disk_io_counters net_io_counters net_connections net_if_addrs net_if_stats "
        "boot_time users pids process_iter pid_exists wait_procs getloadavg version_info "
        "POSIX LINUX WINDOWS MACOS FREEBSD NETBSD OPENBSD BSD SUNOS AIX OSX "
        "STATUS_RUNNING STATUS_SLEEPING STATUS_DISK_SLEEP STATUS_STOPPED STATUS_TRACING_STOP STATUS_ZOMBIE "
        "STATUS_DEAD STATUS_WAKING "
        "CONN_ESTABLISHED CONN_SYN_SENT CONN_SYN_RECV CONN_FIN_WAIT1 CONN_FIN_WAIT2 CONN_TIME_WAIT CONN_CLOSE "
        "CONN_CLOSE_WAIT CONN_LAST_ACK CONN_LISTEN CONN_CLOSING CONN_NONE AF_LINK "
        "NIC_DUPLEX_FULL NIC_DUPLEX_HALF NIC_DUPLEX_UNKNOWN POWER_TIME_UNKNOWN POWER_TIME_UNLIMITED")
    put("cpu_freq", {"macos", "windows", "freebsd", "openbsd"})
    put("sensors_temperatures", {"freebsd"})
    put("sensors_battery", {"windows", "freebsd"})
    put("win_service_iter win_service_get REALTIME_PRIORITY_CLASS HIGH_PRIORITY_CLASS ABOVE_NORMAL_PRIORITY_CLASS "
        "NORMAL_PRIORITY_CLASS IDLE_PRIORITY_CLASS BELOW_NORMAL_PRIORITY_CLASS IOPRIO_VERYLOW IOPRIO_LOW "
        "IOPRIO_NORMAL IOPRIO_HIGH CONN_DELETE_TCB", {"windows"})
    put("PROCFS_PATH CONN_IDLE CONN_BOUND", {"sunos"})
    t["PROCFS_PATH"] = {"sunos", "aix"}
    put("STATUS_IDLE", {"macos", "freebsd"})
    put("STATUS_LOCKED STATUS_WAITING", {"freebsd"})
    put("STATUS_SUSPENDED", {"netbsd"})
    put("RLIM_INFINITY RLIMIT_AS RLIMIT_CORE RLIMIT_CPU RLIMIT_DATA RLIMIT_FSIZE RLIMIT_MEMLOCK RLIMIT_NOFILE "
        "RLIMIT_NPROC RLIMIT_RSS RLIMIT_STACK RLIMIT_SWAP RLIMIT_SBSIZE RLIMIT_NPTS", {"freebsd"})
    names = sorted(n for n, pl in t.items() if fl in pl)
    unix = ALL - {"windows"}
    bsd = set(BSDS)
    meths = {
        "uids": unix, "gids": unix, "terminal": unix, "num_fds": unix,
        "ionice": {"windows"}, "rlimit": {"freebsd"}, "io_counters": bsd | {"windows", "aix"},
        "num_handles": {"windows"}, "cpu_affinity": {"windows", "freebsd"}, "cpu_num": {"freebsd", "sunos"},
        "memory_maps": {"windows", "freebsd", "sunos"},
    }
    for m in ("oneshot ppid name exe cmdline environ create_time as_dict parent parents status cwd username nice "
              "num_ctx_switches num_threads threads cpu_times cpu_percent memory_info memory_full_info "
              "memory_percent children open_files net_connections connections is_running send_signal suspend "
              "resume terminate kill wait").split():
        meths[m] = ALL
    return names, sorted(m for m, pl in meths.items() if fl in pl)


def api_cases(env):
    ps, fl = env.psutil, env.fl
    names, meths = documented_names(fl)
    out = []
    for n in names:
        has = hasattr(ps, n)
        inall = n in ps.__all__
        out.append({"case": {"flavour": fl, "api": n}, "violated": not (has and inall),
                    "cause": "api:%s:%s-%s" % (fl, n, "not-exposed" if not has else "not-in-__all__"),
                    "msg": "documented for %s: hasattr(psutil, %r)=%s, in __all__=%s" % (fl, n, has, inall)})
    for m in meths:
        has = hasattr(ps.Process, m)
        out.append({"case": {"flavour": fl, "api": "Process." + m}, "violated": not has,
                    "cause": "api:%s:Process.%s-missing" % (fl, m), "msg": "documented Process.%s missing on %s" % (m, fl)})
    return out


# ---------------------------------------------------------------- per-flavour worker
def enumerate_flavour(flavour, tier, seed):
    from vf.checks import c20_stubs as S
    env = S.setup(flavour, seed)
    thorough = tier == "thorough"
    ops = build_ops(env)
    viol, samples = [], []
    tuples = set()
    stats = {"methods": len(ops), "native_fault_points": 0, "zero_runs": 0, "fault_runs": 0, "pair_runs": 0,
             "sticky_runs": 0, "special": 0, "api_names": 0, "skipped_identity_calls": 0,
             "native_fns": set(), "outcomes": {}}
    faults = faults_for(flavour)
    t_start = time.time()

    def note(case, r, V0, why=None):
        v, cause, msg = judge(env, case, r, V0)
        stats["outcomes"][r["kind"]] = stats["outcomes"].get(r["kind"], 0) + 1
        for _, fn, f in r["fired"][-1:]:
            tuples.add((flavour, case["op"], case["pidkind"], fn, "%s" % f[1], case.get("mode"), r["kind"]))
        if v:
            viol.append({"cause": cause, "msg": msg, "case": dict(case, flavour=flavour)})
        return v

    for pidkind in pidkinds_for(flavour):
        for cached, oneshot in ([(True, False), (False, False), (True, True), (False, True)] if thorough
                                else [(True, False)]):
            for op in ops:
                if pidkind != "norm" and (op in SIGNAL_OPS or op in ("wait", "as_dict") or "." in op and op.split(".")[0] in ("nice", "rlimit", "cpu_affinity")):
                    continue        # PID 0 cannot be signalled / waited for / changed
                base = {"pidkind": pidkind, "cached": cached, "op": op}
                if oneshot:
                    if op == "as_dict":
                        continue
                    base["oneshot"] = True
                r0 = run_once(env, base)
                stats["zero_runs"] += 1
                stats["skipped_identity_calls"] += sum(1 for c in r0["calls"] if c["ident"] and c["scoped"])
                # (1) record layout
                if r0["kind"] != "ok":
                    # a few methods are defined to fail for PID 0 (e.g. raise AccessDenied); fine,
                    # but an ordinary pid with default records must succeed
                    if pidkind == "norm":
                        viol.append({"cause": "zero-deviation-failed:%s:%s" % (flavour, op),
                                     "msg": "no fault injected, yet %s: %r" % (r0["kind"], r0["res"][1]),
                                     "case": dict(base, flavour=flavour)})
                    continue
                V0 = r0["res"][1]
                if pidkind == "norm":
                    if op == "as_dict":
                        # inside oneshot() every entry equals the separately obtained value
                        for k2, v2 in V0.items():
                            if k2 in ("pid", "cpu_percent"):
                                continue
                            want = norm_value(k2, canon(spec_value(env, k2)))
                            if norm_value(k2, v2) != want:
                                viol.append({"cause": "wrong-value:%s:as_dict.%s" % (flavour, k2),
                                             "msg": "as_dict()[%r] = %r, slot map promises %r" % (k2, v2, want),
                                             "case": dict(base, flavour=flavour)})
                    else:
                        want = norm_value(op, canon(spec_value(env, op)))
                        if V0 != want:
                            viol.append({"cause": "wrong-value:%s:%s" % (flavour, op),
                                         "msg": "%s() = %r but the documented slots give %r" % (op, V0, want),
                                         "case": dict(base, flavour=flavour)})
                if op == "as_dict":
                    continue
                pts = r0["points"]
                if cached and not oneshot:
                    stats["native_fault_points"] += len(pts)
                stats["native_fns"].update(pts)
                if len(samples) < 4 and pts:
                    samples.append({"flavour": flavour, "op": op, "pid": pidkind, "native_calls": pts, "value": V0})
                # (1b) the process exits and is reaped just before native call k of the method and stays gone (what fails and what
                #      merely comes back empty is then the kernel's affair): the whole answer of the live process, or NoSuchProcess
                if flavour in BSDS and pidkind == "norm" and op not in SIGNAL_OPS and op != "wait" and "." not in op:
                    for kk in range(len(pts) + 1):
                        cd = dict(base, mode="dies@%d" % kk)
                        rd = run_once(env, cd)
                        stats["fault_runs"] += 1
                        tuples.add((flavour, op, pidkind, "dies@%d" % kk, "", "", rd["kind"]))
                        if rd["kind"] == "NSP" and not rd["detail"]:
                            continue
                        if rd["kind"] == "ok" and rd["res"][1] == V0:
                            continue
                        viol.append({"cause": "dies-during-the-call:%s:%s:%s" % (flavour, op, rd["kind"]),
                                     "msg": "%s(): process gone before native call %d of %r: got %s %r; the live answer was %r"
                                            % (op, kk, pts, rd["kind"], rd["detail"] or repr(rd["res"][1])[:200], V0),
                                     "case": dict(cd, flavour=flavour)})
                # (2) single faults
                for i in range(len(pts)):
                    for f in faults:
                        for mode in modes_for(flavour, pidkind):
                            if mode.startswith("probe-") and errclass(flavour, f, pts[i]) not in ("nsp", "enoent?"):
                                continue          # (the probe is only made after a "no such process" failure)
                            case = dict(base, faults=[[i, f]], mode=mode)
                            r1 = run_once(env, case)
                            stats["fault_runs"] += 1
                            assert r1["fired"] and r1["fired"][0][0] == i, (case, r1["fired"], r1["points"])
                            note(case, r1, V0)
                            if thorough or errclass(flavour, f) == "retry":
                                # sticky: the same native function keeps failing (33 retries of
                                # ERROR_PARTIAL_COPY end in AccessDenied; a vanished process fails everywhere)
                                cs = dict(base, sticky=[i, f], mode=mode)
                                rs = run_once(env, cs)
                                stats["sticky_runs"] += 1
                                note(cs, rs, V0)
                            if op in SIGNAL_OPS and errclass(flavour, f, pts[i]) in ("nsp", "enoent?"):
                                # signalling twice: what the first attempt concluded must not change the second answer while the
                                # kernel's answers stay the same (a zombie stays a ZombieProcess, a gone process NoSuchProcess)
                                ca = dict(base, sticky=[i, f], mode=mode, again=True)
                                ra = run_once(env, ca)
                                stats["sticky_runs"] += 1
                                note(ca, ra, V0)
                                if ra["kind2"] is not None and ra["kind2"] != ra["kind"]:
                                    viol.append({"cause": "second-call-differs:%s:%s:%s->%s" % (flavour, op, ra["kind"], ra["kind2"]),
                                                 "msg": "%s() twice on one object, %s keeps failing with %r, mode=%s: first %s, then %s"
                                                        % (op, pts[i], f, mode, ra["kind"], ra["kind2"]),
                                                 "case": dict(ca, flavour=flavour)})
                            if True:
                                # second fault on any later call made after the first one fired (quick: on the very next call only
                                # -- typically the "is it a zombie / does it still exist" probe of the error handler)
                                for j in (range(i + 1, len(r1["points"])) if thorough else range(i + 1, min(i + 2, len(r1["points"])))):
                                    for f2 in faults:
                                        c2 = dict(base, faults=[[i, f], [j, f2]], mode=mode)
                                        r2 = run_once(env, c2)
                                        stats["pair_runs"] += 1
                                        if len(r2["fired"]) == 2:
                                            note(c2, r2, V0)
    # (2w) the same single faults inside a oneshot() block whose cache was filled (by OTHER getters, WARMERS) while the
    #      process was alive, the process changing state only afterwards: what the error translation says must follow
    #      the kernel's present answer, not the block's cached record; and the 0-deviation value inside such a block is
    #      the same as outside
    warm = [w for w in WARMERS if w in ops]
    stats["warm_runs"] = 0
    for pidkind in pidkinds_for(flavour):
        for op in ops:
            if op == "as_dict" or (pidkind != "norm" and (
                    op in SIGNAL_OPS or op == "wait" or "." in op and op.split(".")[0] in ("nice", "rlimit", "cpu_affinity"))):
                continue
            base = {"pidkind": pidkind, "cached": True, "op": op, "oneshot": True, "warm": warm}
            r0 = run_once(env, {"pidkind": pidkind, "cached": True, "op": op})
            rw = run_once(env, base)
            stats["zero_runs"] += 2
            if r0["kind"] != "ok":
                continue            # (reported by the main loop where it matters)
            V0 = r0["res"][1]
            if rw["kind"] != "ok" or rw["res"][1] != V0:
                viol.append({"cause": "warm-oneshot-differs:%s:%s" % (flavour, op),
                             "msg": "%s() inside a oneshot() block after %r: %s %r; outside the block: %r"
                                    % (op, warm, rw["kind"], rw["detail"] or rw["res"][1], V0),
                             "case": dict(base, flavour=flavour)})
                continue
            for i in range(len(rw["points"])):
                for f in faults:
                    for mode in modes_for(flavour, pidkind):
                        if mode.startswith("probe-") and errclass(flavour, f, rw["points"][i]) not in ("nsp", "enoent?"):
                            continue
                        case = dict(base, faults=[[i, f]], mode=mode)
                        r1 = run_once(env, case)
                        stats["warm_runs"] += 1
                        assert r1["fired"] and r1["fired"][0][0] == i, (case, r1["fired"], r1["points"])
                        note(case, r1, V0)
    # (3) post-processing / record variants, documented names
    for sc in special_cases(env):
        stats["special"] += 1
        tuples.add((flavour, "special", sc["case"]["special"], "", "", "", "viol" if sc["violated"] else "ok"))
        if sc["violated"]:
            viol.append({"cause": sc["cause"], "msg": sc["msg"], "case": sc["case"]})
    for ac in api_cases(env):
        stats["api_names"] += 1
        if ac["violated"]:
            viol.append({"cause": ac["cause"], "msg": ac["msg"], "case": ac["case"]})
    stats["native_fns"] = sorted(stats["native_fns"])
    stats["wall_s"] = round(time.time() - t_start, 2)
    return {"flavour": flavour, "stats": stats, "violations": viol, "samples": samples,
            "tuples": sorted(list(t) for t in tuples)}


def replay_in_worker(flavour, case, seed):
    from vf.checks import c20_stubs as S
    env = S.setup(flavour, seed)
    if "special" in case:
        for sc in special_cases(env):
            if sc["case"]["special"] == case["special"]:
                return {"violated": sc["violated"], "cause": sc["cause"], "msg": sc["msg"], "obs": sc.get("obs")}
        return {"violated": False, "msg": "unknown special case"}
    if "api" in case:
        for ac in api_cases(env):
            if ac["case"]["api"] == case["api"]:
                return {"violated": ac["violated"], "cause": ac["cause"], "msg": ac["msg"]}
        return {"violated": False, "msg": "unknown api case"}
    base = {k: case[k] for k in ("pidkind", "cached", "op", "oneshot") if k in case}
    r0 = run_once(env, base)
    out = {"zero": jsonable_res(r0)}
    if r0["kind"] != "ok":
        out.update(violated=case["pidkind"] == "norm", msg="zero-deviation run failed")
        return out
    V0 = r0["res"][1]
    if str(case.get("mode", "")).startswith("dies@"):
        r = run_once(env, case)
        ok = (r["kind"] == "NSP" and not r["detail"]) or (r["kind"] == "ok" and r["res"][1] == V0)
        out.update(violated=not ok, cause="dies-during-the-call", msg="got %s" % r["kind"], run=jsonable_res(r))
        return out
    if not case.get("faults") and not case.get("sticky"):
        if case["op"] == "as_dict":
            bad = {}
            for k2, v2 in V0.items():
                if k2 in ("pid", "cpu_percent"):
                    continue
                want = norm_value(k2, canon(spec_value(env, k2)))
                if norm_value(k2, v2) != want:
                    bad[k2] = [v2, want]
            out.update(violated=bool(bad), diff=bad)
            return out
        want = norm_value(case["op"], canon(spec_value(env, case["op"])))
        out.update(violated=V0 != want, expected=want)
        return out
    r = run_once(env, case)
    if str(case.get("mode", "")).startswith("dies@"):
        ok = (r["kind"] == "NSP" and not r["detail"]) or (r["kind"] == "ok" and r["res"][1] == V0)
        out.update(violated=not ok, cause="dies-during-the-call", msg="got %s" % r["kind"], run=jsonable_res(r))
        return out
    v, cause, msg = judge(env, case, r, V0)
    if not v and case.get("again") and r.get("kind2") is not None and r["kind2"] != r["kind"]:
        v, cause, msg = True, "second-call-differs", "first %s, then %s" % (r["kind"], r["kind2"])
    out.update(violated=bool(v), cause=cause, msg=msg, run=jsonable_res(r), second=r.get("kind2"))
    return out


def worker_main(argv):
    import argparse
    ap = argparse.ArgumentParser()
    ap.add_argument("--flavour", required=True)
    ap.add_argument("--tier", default="quick")
    ap.add_argument("--seed", type=int, default=0)
    ap.add_argument("--replay")
    ap.add_argument("--out", required=True)
    a = ap.parse_args(argv)
    if a.replay:
        res = replay_in_worker(a.flavour, json.loads(a.replay), a.seed)
    else:
        res = enumerate_flavour(a.flavour, a.tier, a.seed)
    with open(a.out, "w") as f:
        json.dump(res, f, default=str)


def spawn(flavour, extra, out):
    env = dict(os.environ)
    env["PYTHONHASHSEED"] = "0"
    cmd = [PY, "-c", "import sys; from vf.checks import c20; c20.worker_main(sys.argv[1:])",
           "--flavour", flavour, "--out", out] + extra
    return subprocess.Popen(cmd, env=env, cwd=os.path.dirname(os.path.dirname(os.path.dirname(os.path.abspath(__file__)))),
                            stdout=subprocess.PIPE, stderr=subprocess.STDOUT, text=True)


# ---------------------------------------------------------------- check interface
def run(ctx):
    tmp = tempfile.mkdtemp(prefix="vf-c20-", dir="/var/tmp")
    procs = []
    for fl in FLAVOURS:
        out = os.path.join(tmp, fl + ".json")
        procs.append((fl, out, spawn(fl, ["--tier", ctx.tier, "--seed", str(ctx.seed)], out)))
    results = {}
    for fl, out, p in procs:
        log, _ = p.communicate()
        if p.returncode != 0 or not os.path.exists(out):
            raise RuntimeError("C20 worker for %s failed (rc=%s):\n%s" % (fl, p.returncode, log[-4000:]))
        results[fl] = json.load(open(out))
    import shutil
    shutil.rmtree(tmp, ignore_errors=True)
    violations, tuples, samples = [], set(), []
    per = {}
    evaluations = 0
    for fl in FLAVOURS:
        r = results[fl]
        st = r["stats"]
        per[fl] = {k: st[k] for k in ("methods", "native_fault_points", "zero_runs", "fault_runs", "sticky_runs",
                                      "pair_runs", "special", "api_names", "skipped_identity_calls", "wall_s")}
        per[fl]["native_functions"] = st["native_fns"]
        per[fl]["outcome_kinds"] = st["outcomes"]
        evaluations += st["zero_runs"] + st["fault_runs"] + st["sticky_runs"] + st["pair_runs"] + st["special"] + st["api_names"]
        violations += r["violations"]
        tuples.update(tuple(t) for t in r["tuples"])
        samples += r["samples"][:1]
    coverage = {
        "evaluations": evaluations,
        "distinct_nontrivial": len(tuples),
        "rule": "distinct (flavour, method, pid kind, native function of the last fired fault, errno/winerror, "
                "probe answer, outcome kind) tuples over all fault runs, plus one per post-processing case",
        "exhaustive": True,
        "bounds": {"flavours": FLAVOURS, "errnos": ERRNOS, "windows_faults": WIN_FAULTS,
                   "faults_per_run": 2,
                   "probe_answers": {"bsd/macos": ["zombie", "alive", "gone"], "sunos/aix": ["exists", "gone"], "windows": ["-"]},
                   "pid_kinds": {"bsd/sunos": ["ordinary", "0 listed", "0 unlisted"], "others": ["ordinary"]},
                   "name_cached": [True, False] if ctx.thorough else [True],
                   "inside_oneshot": [False, True] if ctx.thorough else [False],
                   "sticky_variant": "all faults" if ctx.thorough else "ERROR_PARTIAL_COPY only"},
        "per_flavour": per,
        "samples": samples,
    }
    return {"coverage": coverage, "violations": violations, "assumptions": [
        "fault points are the process-scoped native calls (first argument == the pid, or an os.* call on "
        "/proc/<pid>/..., os.kill/os.waitpid on the pid) made by the method itself; system-wide natives "
        "(pids, per_cpu_times, ppid_map, QueryDosDevice, ...), helper programs (pfiles, procfiles) and the front "
        "end's PID-reuse pre-check (_raise_if_pid_reused/is_running, property C01) are scripted but never faulted",
        "the zombie / existence probe (is_zombie, pid_exists, pids as called from the error handlers) answers "
        "according to the enumerated probe answer and is itself not a fault point",
        "ENOENT outside the procfs platforms: both readings accepted (translated like ESRCH, or passed on unchanged)",
        "front-end signal methods on POSIX: NoSuchProcess or ZombieProcess both accepted for ESRCH "
        "(kill() does not fail for zombies on those kernels)",
        "documented API names: table transcribed from docs/index.rst (7.0.0) availability notes; only names with an "
        "explicit platform note or no note at all are demanded; STATUS_WAKE_KILL/STATUS_PARKED (Linux states) are not",
        "native record values, pids and constants are synthetic; VERIF_SEED only rotates them",
    ]}


def replay(ctx, case):
    tmp = tempfile.mkdtemp(prefix="vf-c20-", dir="/var/tmp")
    out = os.path.join(tmp, "replay.json")
    p = spawn(case["flavour"], ["--seed", str(ctx.seed), "--replay", json.dumps(case)], out)
    log, _ = p.communicate()
    if p.returncode != 0 or not os.path.exists(out):
        raise RuntimeError("C20 replay worker failed (rc=%s):\n%s" % (p.returncode, log[-4000:]))
    res = json.load(open(out))
    import shutil
    shutil.rmtree(tmp, ignore_errors=True)
    return res
