"""C02 — Process ==, hash() and is_running() follow the process, not the PID.
Explorer H over process-lifetime histories including wall-clock steps (the
published btime changing) and interleaved boot_time()/create_time()/process_iter()."""
from vf.checks import procmodel as pm
from vf.explore.history import bfs
from vf.harness import sample

ID = "C02"
LEVEL = "model_checking"
ALT_MOUNT = True
_CFG = None


def _exec(cfg):
    # kernel fidelity for every C02 history: an error of read(2) on an already opened /proc file (ESRCH when the process went away
    # between open() and read()) reaches psutil the way Python raises it -- without a file name -- so whatever psutil decides from
    # err.filename / a later look at /proc/<pid> (where the pid may be alive again under a new owner) is exercised for real
    ex = pm.Exec(cfg)
    ex.w.bare_read_errors = True
    return ex


def run_h(history):
    ex = _exec(_CFG)
    for ev in history:
        ex.apply(ev)
    return {"key": ex.canon(), "enabled": ex.enabled(), "viols": list(ex.viols), "label": ex.label}


def mk_cfg(ctx, variant="main"):
    if variant == "epoch0":
        # a board without a battery-backed clock: the kernel publishes boot time 0 until the clock is set
        return pm.Cfg(seed=ctx.seed, slots=("A",), max_objs=2, actions=(), clock=True, queries=(), numeric=True,
                      use_iter=False, use_exit=False, btime0=0)
    if variant == "mid":
        # one process-table event (exit, reap+reuse, reuse by a process that is already a zombie ...) lands INSIDE an is_running()
        # call, before its k-th kernel access: the answer must be the one of the moment before or of the moment after
        return pm.Cfg(seed=ctx.seed, slots=("A",), max_objs=2, actions=(), clock=False, queries=(), numeric=True,
                      use_iter=False, use_exit=True, mid=5)
    if variant == "deny":
        # objects built while /proc/<pid>/stat was unreadable (creation time unknown), permission restored later: whatever
        # psutil decides about their equality, a mere query (create_time(), is_running() ...) must not change it afterwards
        return pm.Cfg(seed=ctx.seed, slots=("A",), max_objs=2, actions=(), clock=False, queries=("name",), numeric=True,
                      use_iter=False, use_exit=False, max_denies=1, create_time_event=True, lazy_hash=True)
    return pm.Cfg(seed=ctx.seed, slots=("A",), max_objs=3 if ctx.thorough else 2, actions=("sig65",), clock=True,
                  queries=(), numeric=True, use_iter=True, use_exit=ctx.thorough, oneshot=True,
                  sys_calls=pm.SYS_CALLS if ctx.thorough else pm.SYS_CALLS[:1],
                  iterhold=True, comm={"A": b"a) b c"})


def run(ctx):
    global _CFG
    _CFG = mk_cfg(ctx)
    depth = (9 if ctx.thorough else 8) - (2 if ctx.alt else 0)
    res = bfs(run_h, depth, ctx)
    for v in res["violations"]:
        if isinstance(v.get("case"), dict):
            v["case"].setdefault("part", "H")
    _CFG = mk_cfg(ctx, "epoch0")
    ctx.close()
    r3 = bfs(run_h, (6 if ctx.thorough else 5) - (1 if ctx.alt else 0), ctx)
    for v in r3["violations"]:
        v["case"]["variant"] = "epoch0"
        v["case"]["part"] = "H"
    res["violations"] = res["violations"] + r3["violations"]
    res["states"] += r3["states"]
    res["transitions"] += r3["transitions"]
    _CFG = mk_cfg(ctx, "mid")
    ctx.close()
    r4 = bfs(run_h, (7 if ctx.thorough else 6) - (1 if ctx.alt else 0), ctx)
    for v in r4["violations"]:
        v["case"]["variant"] = "mid"
        v["case"]["part"] = "H"
    res["violations"] = res["violations"] + r4["violations"]
    res["states"] += r4["states"]
    res["transitions"] += r4["transitions"]
    _CFG = mk_cfg(ctx, "deny")
    ctx.close()
    r2 = bfs(run_h, (8 if ctx.thorough else 7) - (2 if ctx.alt else 0), ctx)
    for v in r2["violations"]:
        v["case"]["variant"] = "deny"
        v["case"]["part"] = "H"
    res["violations"] = res["violations"] + r2["violations"]
    res["states"] += r2["states"]
    res["transitions"] += r2["transitions"]
    res["mid_variant"] = {"states": r4["states"], "transitions": r4["transitions"], "depth": r4["max_depth"], "outcomes": r4["labels"]}
    res["deny_variant"] = {"states": r2["states"], "transitions": r2["transitions"], "depth": r2["max_depth"]}
    from vf.checks import c02s
    ctx.close()
    sres = c02s.run_s(ctx) if not ctx.alt else {"violations": [], "coverage": {"executions": 0, "transitions": 0}}
    res["violations"] = res["violations"] + sres["violations"]
    res["states"] += sres["coverage"]["executions"]
    res["transitions"] += sres["coverage"]["transitions"]
    cov = {"schedules": sres["coverage"], "deny_variant": res["deny_variant"], "mid_call_event_variant": res["mid_variant"],
        "states": res["states"], "transitions": res["transitions"],
        "traces_validated_against_impl": res["transitions"],
        "max_depth": res["max_depth"], "new_states_per_level": res["new_states_per_level"],
        "distinct_outcomes": len(res["labels"]), "outcome_counts": res["labels"],
        "samples": sample(res["samples"], 8),
        "exhaustive": res["capped"] is None, "capped": res["capped"],
        "alphabet": {"slots": list(_CFG.slots), "max_objects": _CFG.max_objs,
                     "kernel": ["spawn", "die"] + (["exit", "reap"] if _CFG.use_exit else []) + ["tick100", "step-", "step+"],
                     "user": ["new", "is_running", "iter", "boot_time", "create_time"]},
        "oracle": "after every event: for all pairs of held objects (a==b) <=> same (pid, incarnation), equal => same hash, "
                  "hash never changes; is_running(o) <=> o's incarnation is in the table (running or zombie)",
    }
    return {"coverage": cov, "violations": res["violations"],
            "assumptions": ["kernel events happen between API calls (and, in the mid-call variant, ONE of them inside an is_running() call)",
                            "a recycled pid's new owner starts at a later jiffy than the previous owner (psutil's documented assumption)",
                            "clock steps of +-1 s; 100 ticks/s (1024 in the second configuration)",
                            "errors of read(2) on an opened /proc file carry no file name (as Python raises them); open() errors do"]}


def replay(ctx, case):
    if case.get("part") == "S":
        from vf.checks import c02s
        return c02s.replay_s(ctx, case)
    global _CFG
    _CFG = mk_cfg(ctx, case.get("variant", "main"))
    ex = _exec(_CFG)
    trace = []
    for ev in case["history"]:
        ex.apply(ev)
        trace.append([ev, ex.label, [v["cause"] for v in ex.viols]])
    return {"violated": bool(ex.viols), "trace": trace, "viols": ex.viols}
