"""C15 (schedule part) — ONE Process object used by two threads at once: thread A is inside p.wait() (no timeout: a blocking
waitpid) on a child that is still running, thread B asks the same object with a timeout (wait(0), wait(0.05),
wait_procs([p], 0)).  Explorer S, every two-thread schedule up to the pre-emption bound, psutil's locks cooperative.

A blocking waitpid() is a blocking operation of the scheduler: the caller is parked until the child is a zombie.
  * "alive": the child never exits.  Every execution must end with thread A (and nobody else) parked in waitpid and
    thread B's call COMPLETED with TimeoutExpired(seconds=timeout, pid), no sleep for timeout=0, no later than the deadline
    plus one poll of virtual time: a timeout is a promise about the caller's own time, it cannot depend on another
    thread's progress.
  * "exits": a third thread (the environment) makes the child exit (status 7) at any point of the schedule.
    (see EXITS_NOTE)
"""
import os

from vf.explore import sched as S
from vf.harness import use_world, outcome
from vf.simk.world import World

POLL_MAX = 0.04
EPS = 1e-6
PID = 3500
CODE = 7
# thread programs: A's call, B's calls (in order, on the same object)
SCENARIOS = {
    "alive:block-vs-wait0": ("alive", [("wait", None)], [("wait", 0)]),
    "alive:block-vs-wait0.05": ("alive", [("wait", None)], [("wait", 0.05)]),
    "alive:block-vs-wait0-twice": ("alive", [("wait", None)], [("wait", 0), ("wait", 0.0001)]),
    "alive:block-vs-wait_procs0": ("alive", [("wait", None)], [("procs", 0)]),
    "exits:block-vs-wait0": ("exits", [("wait", None)], [("wait", 0)]),
}
EXITS_NOTE = """the "exits" scenario (the child ends while A is in the blocking wait() and B polls with wait(0)): on the unchanged
psutil the thread that loses the race for the zombie gets ECHILD and answers (and caches) None for a child -- a genuine defect,
recorded in known_findings.txt under the cause key two-waiters:loser-of-the-reap-race-answers-None (see _status_cause)."""
COND = "waitpid(child-still-running)"


class _Cond:
    name = COND


class Harness:
    def __init__(self, scn):
        import psutil
        from psutil import _psposix
        self.ps = psutil
        self.scn = scn
        fns = [psutil.Process.wait, psutil._pslinux.Process.wait, _psposix.wait_pid, psutil.wait_procs]
        self.watched = []

        def add(c):
            if c in self.watched:
                return
            self.watched.append(c)
            for k in c.co_consts:
                if hasattr(k, "co_code"):
                    add(k)
        for f in fns:
            g = getattr(f, "__func__", f)
            while True:
                c = getattr(g, "__code__", None)
                if c is not None:
                    add(c)
                if not hasattr(g, "__wrapped__"):
                    break
                g = g.__wrapped__

    def run(self, prefix):
        ps = self.ps
        mode, prog_a, prog_b = SCENARIOS[self.scn]
        sc = S.Sched(prefix, self.watched)
        w = World(ncpus=1)
        w.spawn(1, ppid=0, comm=b"init", start=1)
        w.spawn(w.mypid, ppid=1, comm=b"caller", start=50)
        p = w.spawn(PID, ppid=w.mypid, comm=b"subj", start=900)
        p.is_child = True
        use_world(w)
        w.logging = False
        w._overshoot = 0.0
        cond = _Cond()
        ev = []
        sleeps = {}

        def hook(world, kind, subj, pid):
            me = sc.current()
            if me is None:
                return
            if kind == "sleep":
                sleeps.setdefault(me, []).append(subj)
            if kind == "waitpid" and not (subj[1] & os.WNOHANG):
                sc.point("access", (kind, str(subj)))
                while True:
                    q = world.procs.get(subj[0])
                    if q is None or q.zombie or not q.is_child:
                        break
                    sc.block_on(cond)          # parked in the kernel until the child is a zombie
                return
            sc.point("access", (kind, str(subj)))
        with S.coop_locks(sc, ps):
            obj = ps.Process(PID)             # (built here: the instance's own lock is a cooperative one)

            def call(what, to):
                if what == "wait":
                    return outcome(obj.wait, to)
                r = outcome(ps.wait_procs, [obj], timeout=to)
                if r[0] == "ok":
                    return ("ok", ([x.pid for x in r[1][0]], [x.pid for x in r[1][1]]))
                return r

            def mk(tid, prog):
                def body():
                    for what, to in prog:
                        q = w.procs.get(PID)
                        gone0 = q is None or q.zombie
                        t0 = w.mono
                        n0 = len(sleeps.get(tid, ()))
                        o = call(what, to)
                        if o[0] == "exc" and o[1] == "_Stop":
                            raise S._Stop()        # the scheduler ended the execution (everybody else is parked): not an answer
                        q = w.procs.get(PID)
                        ev.append({"tid": tid, "what": what, "timeout": to, "out": o, "took": round(w.mono - t0, 9),
                                   "ended_before_call": gone0, "ended_by_return": q is None or q.zombie,
                                   "sleeps": list(sleeps.get(tid, ()))[n0:]})
                return body
            sc.add(0, mk(0, prog_a))
            sc.add(1, mk(1, prog_b))
            if mode == "exits":
                def env():
                    sc.point("env", "exit")
                    w.exit(PID, CODE << 8)
                    ev.append({"tid": 2, "what": "exit"})
                    sc.unblock(cond)
                    sc.point("env", "exited")
                sc.add(2, env)
            w.hook = hook
            x = sc.run()
            w.hook = None
        x.events = ev
        x.mode, x.progs = mode, (prog_a, prog_b)
        return x


def judge(x):
    out = []
    for t, e in x.errors.items():
        out.append(("thread-raised:%s" % type(e).__name__, repr(e)))
    mode, (prog_a, prog_b) = x.mode, x.progs
    done = {}
    for e in x.events:
        if "out" in e:
            done.setdefault(e["tid"], []).append(e)
    if mode == "alive":
        # the child never ends: A stays parked in waitpid (the only acceptable 'deadlock'), B's calls all complete
        bl = x.deadlock if isinstance(x.deadlock, dict) else None
        if bl is None:
            out.append(("blocking-wait-returned-though-alive" if not x.deadlock else "deadlock",
                        "child never exits; A's wait() -> %r; %r" % (done.get(0), x.deadlock)))
        else:
            if 1 in bl:
                nb = len(done.get(1, ()))
                what, to = prog_b[nb]
                out.append(("timeout-not-honoured-while-another-thread-waits",
                            "thread A is parked in p.wait() (child still running); thread B's %s(timeout=%r) on the same object never "
                            "returns: B is blocked on %r held by A until the child exits" % (what, to, bl[1])))
            if bl.get(0) != COND:
                out.append(("deadlock", "thread A blocked on %r" % (bl.get(0),)))
        for e in done.get(0, ()):
            out.append(("returned-early", "wait() -> %r although the child never exits" % (e["out"],)))
    for e in done.get(1, ()):
        o, to = e["out"], e["timeout"]
        if to == 0 and e["sleeps"]:
            out.append(("timeout0-sleeps", "%s(0) slept %r" % (e["what"], e["sleeps"])))
        if e["took"] > to + POLL_MAX + EPS:
            out.append(("timeout-too-late", "%s(%r) took %r" % (e["what"], to, e["took"])))
        if e["what"] == "procs":
            want_alive = not e["ended_by_return"]
            if o[0] != "ok":
                out.append(("wait_procs-raised:%s" % o[1], repr(o)))
            elif sorted(o[1][0] + o[1][1]) != [PID] or (want_alive and o[1][1] != [PID]):
                out.append(("wait_procs-partition" if sorted(o[1][0] + o[1][1]) != [PID] else "wait_procs-gone-but-alive",
                            "gone %r alive %r, child ended: %r" % (o[1][0], o[1][1], e["ended_by_return"])))
            continue
        if o[0] == "exc":
            if o[1] != "TimeoutExpired":
                out.append(("wait-raised:%s" % o[1], "wait(%r) raised %r" % (to, o)))
            else:
                if o[2].get("seconds") != to or o[2].get("pid") != PID:
                    out.append(("timeout-fields", "TimeoutExpired fields %r for wait(%r)" % (o[2], to)))
                if e["ended_before_call"]:
                    out.append(("timeout-though-exited-before-deadline", "wait(%r) raised TimeoutExpired, the child had ended before the call" % (to,)))
                if e["took"] < to - EPS:
                    out.append(("timeout-before-deadline", "raised after %r, timeout %r" % (e["took"], to)))
        else:
            if not e["ended_by_return"]:
                out.append(("returned-early", "wait(%r) -> %r, the child is still running" % (to, o)))
            elif o[1] != CODE:
                out.append((_status_cause(o, done), "wait(%r) -> %r, expected %r" % (to, o, CODE)))
    if mode == "exits" and not x.deadlock:
        for e in done.get(0, ()):
            if e["out"] != ("ok", CODE):
                out.append((_status_cause(e["out"], done), "thread A wait() -> %r, expected %r" % (e["out"], CODE)))
    elif mode == "exits":
        out.append(("deadlock", repr(x.deadlock)))
    return out


def _status_cause(o, done):
    """two threads inside wait() of ONE object when the child ends: the thread whose waitpid() loses the race for the zombie gets
    ECHILD, takes the pid for "not my child", answers None and stores None over the status the winner had stored (so the winner,
    which returns the stored value, may answer None as well).  None from a waiter in this scenario is that race; any other wrong
    status keeps the general key."""
    if tuple(o) == ("ok", None):
        return "two-waiters:loser-of-the-reap-race-answers-None"
    return "wrong-status:exit"


def run_s(ctx):
    bound = 2 if ctx.thorough else 1
    tot = {"executions": 0, "points": 0}
    viols, per, outcomes = [], {}, set()
    for scn in SCENARIOS:
        h = Harness(scn)
        stats = {}
        seen = set()

        def check(x, pfx, scn=scn, seen=seen):
            outcomes.add(repr([(e["tid"], e["what"], e.get("out", ("", ""))[:2]) for e in x.events]))
            for cause, msg in judge(x):
                if cause in seen:
                    continue            # one report per cause and scenario (thousands of schedules show the same thing)
                seen.add(cause)
                viols.append({"cause": cause, "msg": msg, "case": {"part": "S", "scenario": scn, "schedule": x.choices()}})
        S.explore(h.run, bound, [], check, stats)
        tot["executions"] += stats.get("executions", 0)
        tot["points"] += stats.get("points", 0)
        per[scn] = {"executions": stats.get("executions", 0), "max_points": stats.get("max_points", 0), "preemption_bound": bound}
    return {"coverage": {"executions": tot["executions"], "transitions": tot["points"], "scenarios": per,
                         "distinct_outcome_vectors": len(outcomes), "preemption_bound": bound}, "violations": viols}


def replay_s(ctx, case):
    h = Harness(case["scenario"])
    x = h.run(case["schedule"])
    j = judge(x)
    return {"violated": bool(j), "viols": j, "events": [str(e)[:300] for e in x.events], "deadlock": repr(x.deadlock)}
