"""C12 — cmdline/environ/exe/cwd and extended name() decode what the kernel exposes.
Explorer I: bounded-exhaustive enumeration of argv blocks (3 kernel layouts),
environment blocks, link targets and (comm, argv[0]) pairs, rendered into
/proc/<pid>/{cmdline,environ,exe,cwd,stat} by simk; reference written from the
statement on the raw bytes."""
import itertools
import os

from vf.harness import use_world, outcome, freeze, sample, guarded, add_histories, history_of, LongLived
from vf.simk.world import World

ID = "C12"
LEVEL = "exploration"
ALT_MOUNT = True          # run once more with procfs mounted at /hostproc (vf/child.py)
ARGS = [b"", b"a", b"a b", b"/bin/x", b"\xff", b"-c", b"c\r\nd\re"]   # the last one: CR / CRLF are data, not line ends
ENVS = [b"A=1", b"A=2", b"B=x=y", b"NOEQ", b"=v", b"", b"C=", b"D=\xff", b"E=1\r\n2\r"]


def fsd(b):
    return b.decode("utf-8", "surrogateescape")


def ref_cmdline(data, zombie):
    if not data:
        return "ZombieProcess" if zombie else []
    s = fsd(data)
    if s.endswith("\0"):
        parts = s[:-1].split("\0")
        if len(parts) == 1 and " " in parts[0]:
            parts = parts[0].split(" ")
        return parts
    if s.endswith(" "):
        s = s[:-1]
    return s.split(" ")


def ref_environ(data):
    """-> (must, may): entries up to the first empty one, last duplicate wins, entries without '=' ignored"""
    s = fsd(data)
    must, may = {}, {}
    for ent in s.split("\0")[:-1] if s.endswith("\0") else s.split("\0")[:-1]:
        if ent == "":
            break
        if "=" in ent:
            k, v = ent.split("=", 1)
            if k:
                must[k] = v
            may[k] = v
    return must, may


def mk_world(seed):
    w = World(ncpus=2)
    w.spawn(1, ppid=0, comm=b"init", start=1)
    w.spawn(w.mypid, ppid=1, comm=b"caller", start=50)
    p = w.spawn(5000 + seed % 40, ppid=w.mypid, comm=b"x", start=777)
    w.set_file("/bin/x", b"#!")
    w.set_file("/bin/noexec", b"data", mode="noexec")
    w.mkdir("/bin/dir")
    w.set_file("/bin/y (deleted)", b"#!")
    # a binary the CALLER may not stat (it lives under a directory without search permission for the caller): stat() -> EACCES
    w.set_file("/priv/tool", b"#!", mode="statdeny")
    for pth in ("/usr/bin/sed", "/tmp/deleted", "/opt/node", "/x/a.out"):
        w.set_file(pth, b"#!")
    return w, p


def _run_case(case, st):
    import psutil
    w, p = st
    p.comm, p.zombie, p.exe, p.cwd = b"x", False, "/bin/x", "/"
    p.cmdline, p.environ = b"/bin/x\0", b"A=1\0"
    p.denied = set()
    gone = False
    k = case[0]
    bad = []

    def chk(what, got, ok, exp):
        if not ok:
            bad.append(("%s:%s" % (k, what), "%s: got %r expected %r (case %r)" % (what, freeze(got), exp, case)))
    pr = LongLived.get(psutil, w, p.pid)
    if k == "cmdline":
        data, zombie = case[1], case[2]
        p.cmdline = data
        if zombie:
            w.exit(p.pid)
        exp = ref_cmdline(b"" if zombie else data, zombie)
        got = outcome(pr.cmdline)
        if exp == "ZombieProcess":
            chk("zombie", got, got[0] == "exc" and got[1] == "ZombieProcess", exp)
        else:
            chk("value", got, got == ("ok", exp), exp)
            # what a caller does with a returned list is the caller's business: inside one oneshot() block, too, every call
            # answers with the kernel's vector (name() and environ() alongside)
            def in_block():
                with pr.oneshot():
                    a = pr.cmdline()
                    a[:] = ["edited-by-the-caller"]
                    pr.name()
                    b = pr.cmdline()
                    b.append("x")
                    e1 = pr.environ()
                    e1["EDITED"] = "1"
                    return pr.cmdline(), pr.environ()
            got2 = outcome(in_block)
            env_exp = outcome(pr.environ)
            chk("value-in-oneshot-after-the-caller-edited-an-earlier-answer", got2,
                got2[0] == "ok" and got2[1][0] == exp and env_exp[0] == "ok" and got2[1][1] == env_exp[1], exp)
        if zombie:
            # restore
            p.zombie = False
            p.wstatus = None
    elif k == "bigcmd":
        # scale: an argument vector longer than any read buffer (32 KiB, 64 KiB, a page)
        nargs, arglen, layout = case[1], case[2], case[3]
        av = [(b"%d:" % i) + b"x" * max(0, arglen - len(b"%d:" % i)) for i in range(nargs)]
        data = (b"\0".join(av) + b"\0") if layout == "nul" else b" ".join(av)
        p.cmdline = data
        got = outcome(pr.cmdline)
        exp = ref_cmdline(data, False)
        if got != ("ok", exp):
            bad.append(("cmdline:long-vector", "%d arguments of %d bytes (%s, %d bytes in all): got %s" % (
                nargs, arglen, layout, len(data), ("%d arguments, first %r last %r" % (len(got[1]), got[1][:1], got[1][-1:])) if got[0] == "ok" else repr(got))))
    elif k == "bigenv":
        n = case[1]
        data = b"".join(b"VAR%d=%s\0" % (i, b"v" * (i % 97)) for i in range(n))
        p.environ = data
        got = outcome(pr.environ)
        exp = {"VAR%d" % i: "v" * (i % 97) for i in range(n)}
        if got != ("ok", exp):
            bad.append(("environ:large-block", "%d entries (%d bytes): got %s" % (n, len(data), len(got[1]) if got[0] == "ok" else repr(got))))
    elif k == "longlink":
        # a link target whose last component is close to NAME_MAX / whose length is close to PATH_MAX, unlinked
        which, shape = case[1], case[2]
        name = {"name250": "/tmp/" + "n" * 250, "name245": "/tmp/" + "n" * 245, "path4090": "/" + "/".join(["d" * 200] * 20) + "/" + "e" * 69}[shape]
        setattr(p, which, name + " (deleted)")
        p.cmdline = b"x\0"
        got = outcome(getattr(pr, which))
        if got != ("ok", name):
            bad.append(("link:%s:name-near-the-kernel-limits" % which, "%s -> target of %d bytes + ' (deleted)': got %r" % (which, len(name), freeze(got) if got[0] != "ok" else got[1][:40] + "...")))
    elif k == "zcmdline":
        p.comm = case[1]
        w.exit(p.pid)
        for nm in ("cmdline",):          # (exe/cwd of a zombie: not specified by the statement)
            got = outcome(getattr(pr, nm))
            ok = got[0] == "exc" and got[1] == "ZombieProcess"
            chk("zombie-%s" % nm, got, ok, "ZombieProcess")
        p.zombie = False
        p.wstatus = None
    elif k == "midzombie":
        # the process exits (becomes a zombie) just before kernel access kk of ONE call: the answer is the one of the live process
        # (everything had been read) or ZombieProcess -- and the same question asked again gets ZombieProcess, not a remembered guess
        what, kk = case[1], case[2]
        p.cmdline = b"/bin/x\0-v\0"
        if what == "exe-withheld":
            p.exe = None                      # (kernel withholds the link of a live task: psutil falls back on argv[0])
        fresh = outcome(psutil.Process, p.pid)
        pr2 = fresh[1]
        cnt = [0]

        def hook(world, kind, subj, pid_):
            if cnt[0] == kk and not p.zombie:
                world.exit(p.pid)
            cnt[0] += 1
        meth = {"exe-withheld": "exe", "exe": "exe", "cmdline": "cmdline", "name": "name"}[what]
        live = {"exe-withheld": "/bin/x", "exe": "/bin/x", "cmdline": ["/bin/x", "-v"], "name": "x"}[what]
        if what == "block":
            pass
        w.hook = hook
        try:
            got = outcome(getattr(pr2, meth))
        finally:
            w.hook = None
        happened = p.zombie
        ok = got == ("ok", live) or (happened and got[0] == "exc" and got[1] == "ZombieProcess")
        if meth == "name" and got[0] == "ok":
            ok = True                         # (name() of a zombie is its kernel name: a value either way)
        chk("%s:exits-before-access-%d" % (what, kk), got, ok, (live, "or ZombieProcess"))
        if happened and meth in ("exe", "cmdline"):
            got2 = outcome(getattr(pr2, meth))
            ok2 = (got2[0] == "exc" and got2[1] == "ZombieProcess") or (meth == "exe" and got == ("ok", live) and got2 == got)
            chk("%s:asked-again-after-the-exit" % what, got2, ok2, "ZombieProcess (or the cached live answer)")
        if p.zombie:
            p.zombie = False
            p.wstatus = None
    elif k == "excname":
        # what psutil says the process is called is one thing: the name name() answered is the name its later errors carry
        comm = case[1]
        p.comm = comm
        p.cmdline = comm + b"-daemon\0--x\0"
        fresh = outcome(psutil.Process, p.pid)
        pr2 = fresh[1]
        nm = outcome(pr2.name)
        want = fsd(comm) + "-daemon"
        chk("extended-name", nm, nm == ("ok", want), want)
        w.exit(p.pid)
        for meth in ("cmdline", "cwd"):
            got = outcome(getattr(pr2, meth))
            if got[0] == "exc" and got[1] in ("ZombieProcess", "NoSuchProcess", "AccessDenied"):
                chk("error-carries-another-name-than-name()-gave:%s" % got[1], got, got[2].get("name") == want, {"name": want})
        p.zombie = False
        p.wstatus = None
    elif k == "blockzombie":
        # inside ONE oneshot() block: a stat-backed answer first, then the process exits, then cmdline(): ZombieProcess, or what a
        # live process had (never the zombie's empty list, which was true of neither)
        p.cmdline = b"/bin/x\0-v\0"
        fresh = outcome(psutil.Process, p.pid)
        pr2 = fresh[1]
        first = case[1]

        def blk():
            with pr2.oneshot():
                getattr(pr2, first)()
                w.exit(p.pid)
                return outcome(pr2.cmdline), outcome(lambda: pr2.as_dict(attrs=["cmdline"], ad_value="AD"))
        got = outcome(blk)
        if got[0] != "ok":
            chk("block-raised", got, False, "answers")
        else:
            a, b = got[1]
            chk("cmdline-after-exit-in-block:%s-first" % first, a, a == ("ok", ["/bin/x", "-v"]) or (a[0] == "exc" and a[1] == "ZombieProcess"), "ZombieProcess")
            chk("as_dict-cmdline-after-exit-in-block:%s-first" % first, b, b[0] == "ok" and b[1].get("cmdline") in ("AD", ["/bin/x", "-v"]), {"cmdline": "AD"})
        if p.zombie:
            p.zombie = False
            p.wstatus = None
    elif k == "nameseq":
        p.comm = case[1]
        for data in case[2]:
            p.cmdline = data
            got = outcome(pr.name)
            argv = ref_cmdline(data, False)
            base = os.path.basename(argv[0]) if argv else ""
            exp = base if base.startswith(fsd(case[1])) else fsd(case[1])
            chk("follows-current-argv", got, got == ("ok", exp), exp)
    elif k == "environ":
        p.environ = case[1]
        must, may = ref_environ(case[1])
        got = outcome(pr.environ)
        ok = got[0] == "ok" and all(got[1].get(a) == b for a, b in must.items()) and \
            all(a in may and may[a] == b for a, b in got[1].items())
        chk("value", got, ok, (must, may))
    elif k == "link":
        which, target, state = case[1], case[2], case[3]
        setattr(p, which, target)
        p.link_esrch = (which,) if state == "esrch" else ()
        if state == "denied":
            p.denied.add(which)
        if state == "gone":
            w.vanish(p.pid)
            gone = True
        p.cmdline = case[4]
        cmd_denied = len(case) > 5 and case[5] == "cmdline-denied"
        if cmd_denied:
            p.denied.add("cmdline")           # the second-level read (argv for the fallback) is refused during the FIRST call only
        got = outcome(getattr(pr, which))
        if state == "gone":
            chk(which + "-gone", got, got[0] == "exc" and got[1] == "NoSuchProcess", "NoSuchProcess")
        else:
            # expected link text
            if state == "denied":
                link = "AD"
            elif target is None:
                link = ""
            else:
                link = target.split("\0")[0]
                if link.endswith(" (deleted)") and link not in w.nodes:
                    link = link[:-10]
            if which == "cwd":
                if link == "AD":
                    chk("cwd-denied", got, got[0] == "exc" and got[1] == "AccessDenied", "AccessDenied")
                else:
                    chk("cwd", got, got == ("ok", link), link)
            else:
                argv = [] if cmd_denied else ref_cmdline(case[4], False)
                guess = None
                if argv and os.path.isabs(argv[0]):
                    try:
                        real0 = w.resolve(argv[0])
                    except OSError:
                        real0 = None
                    if real0 in w.nodes and w.nodes[real0].kind == "f" and w.nodes[real0].mode not in ("noexec", "statdeny"):
                        # (a path the caller may not stat is not known to be an executable file: no guess, and no other error either)
                        guess = argv[0]
                if link == "AD":
                    if guess is not None:
                        chk("exe-denied-guess", got, got == ("ok", guess), guess)
                    else:
                        chk("exe-denied", got, got[0] == "exc" and got[1] == "AccessDenied", "AccessDenied")
                elif link == "":
                    exp = guess if guess is not None else ""
                    chk("exe-withheld", got, got == ("ok", exp), exp)
                else:
                    chk("exe", got, got == ("ok", link), link)
                # cached answer: a second call returns the same without regard to later changes
                if got[0] == "ok":
                    p.exe = "/bin/other"
                    p.denied.discard("cmdline")
                    got2 = outcome(pr.exe)
                    chk("exe-cache", got2, got2 == got, got)
        if gone:
            w.procs[p.pid] = p
            p.zombie = False
            w.dead.pop(p.uid, None)
    elif k == "name":
        comm, data, state = case[1], case[2], case[3]
        p.comm, p.cmdline = comm, data
        if state == "denied":
            p.denied.add("cmdline")
        if state == "zombie":
            w.exit(p.pid)
        got = outcome(pr.name)
        kn = fsd(comm)
        exp = kn
        may = {kn}
        if len(comm) >= 15 and state == "ok":
            argv = ref_cmdline(data, False)
            if argv:
                base = os.path.basename(argv[0])
                if os.fsencode(base).startswith(comm):
                    # the kernel cuts at 15 BYTES (possibly in the middle of a multi-byte character)
                    exp = base
                    may = {base}
        chk("value", got, got[0] == "ok" and got[1] in may, sorted(may))
        if state == "zombie":
            p.zombie = False
            p.wstatus = None
    return bad


def run_case(case, st):
    # exe() is cached for the life of the object by the statement itself; a process that is made to vanish inside the case
    # leaves the object of later cases in a state the case did not set up
    return LongLived.both(_run_case, case, st, skip=lambda c: (c[0] == "link" and (c[1] == "exe" or c[3] == "gone")) or c[0] in ("name", "midzombie", "blockzombie", "excname") or (c[0] == "longlink" and c[1] == "exe"), repoint=True)


def worker(chunk):
    seed, cases = chunk
    w, p = mk_world(seed)
    use_world(w)
    w.logging = False
    return [guarded(run_case, c, (w, p)) for c in cases]


def build_cases(thorough):
    cases = []
    nmax = 4 if thorough else 2
    argvs = [[]]
    for n in range(1, nmax + 1):
        argvs += [list(c) for c in itertools.product(ARGS, repeat=n)]
    for av in argvs:
        nul = b"".join(a + b"\0" for a in av)
        cases.append(("cmdline", nul, False))
        if av and all(b" " not in a and a for a in av):
            sp = b" ".join(av)
            cases.append(("cmdline", sp, False))             # title overwritten, no NUL at all
            cases.append(("cmdline", sp + b"\0", False))     # spaces as separators, trailing NUL only
    cases.append(("cmdline", b"/bin/x\0", True))
    for nargs, arglen, layout in ((6000, 14, "nul"), (3, 50000, "nul"), (1, 32769, "nul"), (2, 16384, "nul"), (9000, 8, "sp"), (4097, 8, "nul")):
        cases.append(("bigcmd", nargs, arglen, layout))
    for n_ in (700, 5000):
        cases.append(("bigenv", n_))
    for which_ in ("exe", "cwd"):
        for shape_ in ("name250", "name245", "path4090"):
            cases.append(("longlink", which_, shape_))
    for zc in (b"Web Content", b"tmux: server", b"a) S (b", b"x y z", b"\tq"):
        cases.append(("zcmdline", zc))
    for comm in (b"a" * 15, b"long-program-na"):
        cases.append(("nameseq", comm, [comm + b"-one\0", comm + b"-two\0", b"/usr/bin/other\0", comm + b"-three x\0"]))
    cases.append(("cmdline", b"", False))
    for what in ("exe-withheld", "exe", "cmdline", "name"):
        for kk in range(0, 9):
            cases.append(("midzombie", what, kk))
    for first in ("ppid", "name", "status", "cpu_times", "create_time"):
        cases.append(("blockzombie", first))
    for comm in (b"gnome-keyring-d", b"long-program-na"):
        cases.append(("excname", comm))
    envs = [[]]
    for n in range(1, nmax + 2):
        envs += [list(c) for c in itertools.product(ENVS, repeat=n)]
    for ev in envs:
        cases.append(("environ", b"".join(e + b"\0" for e in ev)))
    cases.append(("environ", b"A=1\0\0garbage=1\0"))
    cases.append(("environ", b""))
    targets = ["/bin/x", "/bin/x (deleted)", "/bin/y (deleted)", "/bin/x\0junk", "/bin/x (deleted)\0 (deleted)",
               "/tmp/a b", None, "/usr/bin/sed (deleted)", "/tmp/deleted (deleted)", "/opt/node (deleted)", "/x/a.out (deleted)"]
    cmds = [b"/bin/x\0-a\0", b"x\0", b"/bin/noexec\0", b"/bin/dir\0", b"", b"/bin/missing\0", b"/bin/x -a",
            # argv[0] as wrapper scripts produce it ($(dirname $0)/../bin/x): absolute, executable, not normalised -- returned as it is
            b"/bin/../bin/x\0", b"/bin//x\0", b"/bin/./x\0", b"/bin/dir/../x\0",
            # argv[0] absolute, but stat() of it is refused to the caller (EACCES)
            b"/priv/tool\0", b"/priv/tool\0-v\0"]
    for which in ("exe", "cwd"):
        for t in targets:
            for state in ("ok", "denied", "gone") + (("esrch",) if t is None else ()):
                for c in (cmds if which == "exe" else cmds[:1]):
                    cases.append(("link", which, t, state, c))
                    if which == "exe" and state != "gone":
                        # the same exe() question while /proc/<pid>/cmdline is refused (EACCES) during the first call, readable after
                        cases.append(("link", which, t, state, c, "cmdline-denied"))
    longs = [b"a" * 15, b"gnome-keyring-d", b"a" * 14, "é".encode() * 7 + b"x", b"a b c d e f g h"]
    for comm in longs:
        for data in (comm + b"-daemon\0--x\0", b"/usr/bin/" + comm + b"-daemon\0", b"/usr/bin/other\0", comm[:5] + b"\0",
                     b"", b"/usr/bin/" + comm + b"\0", b"/usr/bin/" + comm + b"xyz -f"):
            for state in ("ok", "denied", "zombie"):
                cases.append(("name", comm, data, state))
    return cases


def enc(c):
    return [x.decode("latin-1") if isinstance(x, bytes) else ([y.decode("latin-1") for y in x] if isinstance(x, list) else x) for x in c]


def dec(c):
    c = list(c)
    if c[0] in ("cmdline", "environ"):
        c[1] = c[1].encode("latin-1")
    elif c[0] == "link":
        c[4] = c[4].encode("latin-1")
    elif c[0] == "name":
        c[1], c[2] = c[1].encode("latin-1"), c[2].encode("latin-1")
    elif c[0] == "zcmdline":
        c[1] = c[1].encode("latin-1")
    elif c[0] == "nameseq":
        c[1] = c[1].encode("latin-1")
        c[2] = [x.encode("latin-1") for x in c[2]]
    return tuple(c)


def run(ctx):
    cases = build_cases(ctx.thorough)
    n = max(1, len(cases) // (ctx.ncpu * 4))
    chunks = [(ctx.seed, cases[i:i + n]) for i in range(0, len(cases), n)]
    res = [r for ch in ctx.pmap_fresh(worker, chunks) for r in ch]
    viols, kinds = [], {}
    for _i, (c, bad) in enumerate(zip(cases, res)):
        kinds[c[0]] = kinds.get(c[0], 0) + 1
        for cause, msg in bad:
            viols.append({"cause": cause, "msg": msg, "case": enc(c), "_idx": _i})
    cov = {"evaluations": len(cases), "distinct_nontrivial": len({repr(c) for c in cases}),
           "rule": "one evaluation = one kernel-exposed byte layout (argv block x layout, environ block, link target x state x "
                   "cmdline, (comm, argv) pair x state) queried through the real method; distinct by construction",
           "per_dimension": kinds, "exhaustive": True, "samples": [enc(c) for c in sample(cases, 8)],
           "bounds": "argv <= %d items over %d values; environ <= %d entries over %d values" % (nmax_(ctx), len(ARGS), nmax_(ctx) + 1, len(ENVS))}
    return {"coverage": cov, "violations": add_histories(viols, cases, n, enc),
            "assumptions": ["a single NUL-terminated argument containing a space is indistinguishable from an overwritten title: "
                            "the documented split is the expected answer",
                            "'=v' (empty NAME) may be reported or ignored"]}


def nmax_(ctx):
    return 4 if ctx.thorough else 2


def replay(ctx, case):
    w, p = mk_world(ctx.seed)
    use_world(w)
    for c in history_of(case):
        bad = guarded(run_case, dec(c), (w, p))
    return {"violated": bool(bad), "viols": bad}
