"""C19 — sensors, battery, CPU frequency/count, boot time mirror the kernel's tables.
Explorer I (+ per-file fault states): products over /sys/class/hwmon (both nestings, coretemp
duplicate tree), /sys/class/thermal, /sys/class/power_supply, /sys/devices/system/cpu and
/proc/cpuinfo|stat layouts where every optional file is {ok, missing, unreadable, non-numeric}."""
import itertools
import json
import os
import subprocess
import sys

from vf.harness import use_world, outcome, freeze, sample, guarded, add_histories, history_of
from vf.simk.world import World

ID = "C19"
LEVEL = "exploration"
ALT_MOUNT = True          # run once more with procfs mounted at /hostproc (vf/child.py)
STATES = ("ok", "missing", "unreadable", "garbage")
UNL, UNK = "POWER_TIME_UNLIMITED", "POWER_TIME_UNKNOWN"


def put(w, path, state, ok_bytes):
    if state == "ok":
        w.set_file(path, ok_bytes)
    elif state == "unreadable":
        w.set_file(path, b"", mode="eio")
    elif state == "garbage":
        w.set_file(path, b"N/A\n")
    # missing: nothing


def fresh_world():
    w = World(ncpus=2)
    w.spawn(1, ppid=0, comm=b"init", start=1)
    return w


def secs(x):
    return x.name if hasattr(x, "name") and not isinstance(x, int) else (x if not hasattr(x, "name") else x.name)


# ---------------------------------------------------------------- temperatures
def case_temp(psutil, case):
    _, nesting, st_in, st_max, st_crit, st_label, fahr, vals = case
    w = fresh_world()
    use_world(w)
    w.logging = False
    base = "/sys/class/hwmon/hwmon0" + ("/device" if nesting == "device" else "")
    w.mkdir("/sys/class/hwmon/hwmon0")
    w.mkdir(base)
    # `name` lives next to the temp files
    w.set_file(base + "/name", b"chipA\n")
    cur, hi, cr = vals
    put(w, base + "/temp1_input", st_in, b"%d\n" % cur)
    put(w, base + "/temp1_max", st_max, b"%d\n" % hi)
    put(w, base + "/temp1_crit", st_crit, b"%d\n" % cr)
    put(w, base + "/temp1_label", st_label, b"Core 0\n")
    # healthy neighbour on the same chip and one on another chip
    w.set_file(base + "/temp2_input", b"41000\n")
    w.set_file(base + "/temp2_max", b"81000\n")
    w.set_file(base + "/temp2_crit", b"91000\n")
    w.set_file(base + "/temp2_label", b"Core 1\n")
    w.mkdir("/sys/class/hwmon/hwmon1")
    w.set_file("/sys/class/hwmon/hwmon1/name", b"chipB\n")
    w.set_file("/sys/class/hwmon/hwmon1/temp1_input", b"30500\n")
    # ... a chip with a two-digit number of sensors (coretemp on a many-core CPU, a Super-I/O chip)
    for i_ in range(2, 13):
        w.set_file("/sys/class/hwmon/hwmon1/temp%d_input" % i_, b"%d\n" % (30500 + 500 * i_))
    if nesting == "coretemp-dup":
        # the same sensors also appear under /sys/devices/platform/coretemp.0: must not be listed twice
        d = "/sys/devices/platform/coretemp.0/hwmon/hwmon0"
        w.mkdir(d)
        w.set_file(d + "/name", b"chipA\n")
        w.set_file(d + "/temp1_input", b"%d\n" % cur)
        w.set_file(d + "/temp2_input", b"41000\n")

    def conv(c):
        if c is None:
            return None
        return c * 9 / 5 + 32 if fahr else c
    exp = {"chipA": [], "chipB": [["", conv(30.5), None, None]] + [["", conv((30500 + 500 * i_) / 1000.0), None, None] for i_ in range(2, 13)]}
    if st_in == "ok":
        h = hi / 1000.0 if st_max == "ok" else None
        c = cr / 1000.0 if st_crit == "ok" else None
        if h is not None and c is None:
            c = h
        elif c is not None and h is None:
            h = c
        exp["chipA"].append(["Core 0" if st_label == "ok" else ("N/A" if st_label == "garbage" else ""), conv(cur / 1000.0), conv(h), conv(c)])
    exp["chipA"].append(["Core 1", conv(41.0), conv(81.0), conv(91.0)])
    got = outcome(psutil.sensors_temperatures, fahrenheit=fahr)
    if got[0] != "ok":
        return [("temperatures-raised:%s:input-%s" % (got[1], st_in), "%r (case %r)" % (got, case))]
    g = {k: [[x.label, x.current, x.high, x.critical] for x in v] for k, v in got[1].items()}

    def close(a, b):
        if a is None or b is None or isinstance(a, str):
            return a == b
        return abs(a - b) < 1e-9
    # (the order of the sensors of one chip is not part of the statement: temp10 sorts before temp2 as a string)
    g = {k: sorted(v, key=lambda r: (r[0], r[1])) for k, v in g.items()}
    exp = {k: sorted(v, key=lambda r: (r[0], r[1])) for k, v in exp.items()}
    ok = sorted(g) == sorted(exp) and all(len(g[k]) == len(exp[k]) and all(all(close(x, y) for x, y in zip(r1, r2)) for r1, r2 in zip(g[k], exp[k])) for k in exp)
    if not ok:
        what = "thresholds" if st_in == "ok" and sorted(g) == sorted(exp) and all(len(g[k]) == len(exp[k]) for k in exp) else "sensors"
        return [("temperatures:%s:%s" % (what, nesting if nesting == "coretemp-dup" else "hwmon"), "got %r expected %r (case %r)" % (g, exp, case))]
    return []


def case_thermal(psutil, case):
    _, trips, fahr, st_temp = case
    w = fresh_world()
    use_world(w)
    w.logging = False
    z = "/sys/class/thermal/thermal_zone0"
    w.mkdir(z)
    put(w, z + "/temp", st_temp, b"47000\n")
    w.set_file(z + "/type", b"x86_pkg_temp\n")
    hi = cr = None
    for i, (typ, val) in enumerate(trips):
        w.set_file(z + "/trip_point_%d_type" % i, typ.encode() + b"\n")
        w.set_file(z + "/trip_point_%d_temp" % i, b"%d\n" % val)
        if typ == "critical":
            cr = val / 1000.0
        elif typ == "high":
            hi = val / 1000.0
    w.mkdir("/sys/class/thermal/thermal_zone1")
    w.set_file("/sys/class/thermal/thermal_zone1/temp", b"33000\n")
    w.set_file("/sys/class/thermal/thermal_zone1/type", b"acpitz\n")
    got = outcome(psutil.sensors_temperatures, fahrenheit=fahr)
    if got[0] != "ok":
        return [("thermal-raised:%s" % got[1], "%r (case %r)" % (got, case))]

    def conv(c):
        return None if c is None else (c * 9 / 5 + 32 if fahr else c)
    if hi is not None and cr is None:
        cr = hi
    elif cr is not None and hi is None:
        hi = cr
    exp = {"acpitz": [["", conv(33.0), None, None]]}
    if st_temp == "ok":
        exp["x86_pkg_temp"] = [["", conv(47.0), conv(hi), conv(cr)]]
    g = {k: [[x.label, x.current, x.high, x.critical] for x in v] for k, v in got[1].items()}
    if json.dumps(g, sort_keys=True) != json.dumps(exp, sort_keys=True):
        kinds = sorted(t for t, _ in trips)
        return [("thermal_zone:%s" % ("+".join(kinds) or "no-trip"), "got %r expected %r (case %r)" % (g, exp, case))]
    return []


def case_fans(psutil, case):
    _, nesting, st_in, st_label = case
    w = fresh_world()
    use_world(w)
    w.logging = False
    base = "/sys/class/hwmon/hwmon0" + ("/device" if nesting == "device" else "")
    w.mkdir(base)
    w.set_file(base + "/name", b"fanchip\n")
    put(w, base + "/fan1_input", st_in, b"2100\n")
    put(w, base + "/fan1_label", st_label, b"cpu fan\n")
    w.set_file(base + "/fan2_input", b"900\n")
    # two more fan chips with names of their own, in the same nesting (any number of chips)
    for n_, (nm_, rpm_) in enumerate((("nct6775", 1500), ("thinkpad", 3100)), start=1):
        b_ = "/sys/class/hwmon/hwmon%d" % n_ + ("/device" if nesting == "device" else "")
        w.mkdir(b_)
        w.set_file(b_ + "/name", nm_.encode() + b"\n")
        w.set_file(b_ + "/fan1_input", b"%d\n" % rpm_)
    got = outcome(psutil.sensors_fans)
    if got[0] != "ok":
        return [("fans-raised:%s:input-%s" % (got[1], st_in), "%r (case %r)" % (got, case))]
    if type(got[1]) is not dict:
        return [("fans:not-a-plain-dict", "sensors_fans() returned a %s: %r (asking it for an absent chip must raise KeyError, not grow the answer)"
                 % (type(got[1]).__name__, got[1]))]
    exp = []
    if st_in == "ok":
        exp.append(["cpu fan" if st_label == "ok" else ("N/A" if st_label == "garbage" else ""), 2100])
    exp.append(["", 900])
    g = {k: [[x.label, x.current] for x in v] for k, v in got[1].items()}
    if g != {"fanchip": exp, "nct6775": [["", 1500]], "thinkpad": [["", 3100]]}:
        return [("fans", "got %r expected %r + two more chips (case %r)" % (g, exp, case))]
    return []


# ---------------------------------------------------------------- battery
def case_battery(psutil, case):
    (_, now_f, now_v, pow_f, pow_v, full_f, full_v, tte, cap, status, ac, names) = case
    w = fresh_world()
    use_world(w)
    w.logging = False
    ps = "/sys/class/power_supply"
    if names == "nodir":
        w.remove(ps)
    for n in (names if isinstance(names, (list, tuple)) else []):
        w.mkdir(ps + "/" + n)
    bats = sorted(n for n in (names if isinstance(names, (list, tuple)) else []) if n.startswith("BAT") or "battery" in n.lower())
    if bats:
        b = ps + "/" + bats[0]
        if now_f:
            w.set_file(b + "/" + now_f, b"%d\n" % now_v)
        if pow_f:
            w.set_file(b + "/" + pow_f, b"%d\n" % pow_v)
        if full_f:
            w.set_file(b + "/" + full_f, b"%d\n" % full_v)
        if tte is not None:
            w.set_file(b + "/time_to_empty_now", b"%d\n" % tte)
        if cap is not None:
            w.set_file(b + "/capacity", b"%d\n" % cap)
        if status is not None:
            w.set_file(b + "/status", status.encode() + b"\n")
        # a second battery must be ignored
        for other in bats[1:]:
            w.set_file(ps + "/" + other + "/energy_now", b"1\n")
            w.set_file(ps + "/" + other + "/energy_full", b"2\n")
    if ac is not None:
        w.mkdir(ps + "/" + ac[0])
        w.set_file(ps + "/" + ac[0] + "/online", b"%d\n" % ac[1])
    got = outcome(psutil.sensors_battery)
    if got[0] != "ok":
        return [("battery-raised:%s:%s" % (got[1], "no-power_supply-dir" if names == "nodir" else "x"), "%r (case %r)" % (got, case))]
    if not bats:
        if got[1] is not None:
            return [("battery:none-expected", "%r (case %r)" % (freeze(got[1]), case))]
        return []
    if now_f and full_f:
        pct = 100.0 * now_v / full_v if full_v else 0.0
    elif cap is not None:
        pct = cap
    else:
        pct = None
    if pct is None:
        if got[1] is not None:
            return [("battery:percent-unknowable", "%r (case %r)" % (freeze(got[1]), case))]
        return []
    if ac is not None:
        plugged = ac[1] == 1
    elif status is not None and status.lower() == "discharging":
        plugged = False
    elif status is not None and status.lower() in ("charging", "full"):
        plugged = True
    else:
        plugged = None
    if plugged:
        left = UNL
    elif now_f and pow_f:
        left = int(now_v / pow_v * 3600) if pow_v else UNK
    elif tte is not None:
        left = tte * 60 if tte >= 0 else UNK
    else:
        left = UNK
    r = got[1]
    if r is None:
        return [("battery:none", "None (case %r), expected percent %r" % (case, pct))]
    gl = r.secsleft.name if hasattr(r.secsleft, "name") else r.secsleft
    bad = []
    if abs(r.percent - pct) > 1e-9:
        bad.append(("battery:percent", "percent %r expected %r (case %r)" % (r.percent, pct, case)))
    if gl != left:
        bad.append(("battery:secsleft", "secsleft %r expected %r (case %r)" % (gl, left, case)))
    if r.power_plugged is not plugged:
        bad.append(("battery:power_plugged", "power_plugged %r expected %r (case %r)" % (r.power_plugged, plugged, case)))
    return bad


# ---------------------------------------------------------------- cpu count / stats / boot time / cpuinfo freq
def case_cpu(psutil, case):
    k = case[1]
    w = fresh_world()
    use_world(w)
    w.logging = False
    bad = []
    if k == "count":
        _, _, ncpu, sysconf_ok, cpuinfo_kind, topo, cores = case
        w.ncpus = ncpu
        if not sysconf_ok:
            w.sysconf_fail = {"SC_NPROCESSORS_ONLN"}
        if cpuinfo_kind == "normal":
            w.set_file("/proc/cpuinfo", b"".join(b"processor\t: %d\nphysical id\t: %d\ncpu cores\t: %d\ncpu MHz\t\t: 1000.000\n\n"
                                                 % (i, i // max(1, cores[1]), cores[1]) for i in range(ncpu)))
        elif cpuinfo_kind == "exotic":
            w.set_file("/proc/cpuinfo", b"cpu\t\t: POWER9\nclock\t: 1.0\n\n")
        exp_logical = ncpu
        got = outcome(psutil.cpu_count)
        if got != ("ok", exp_logical):
            bad.append(("cpu_count:logical:%s" % ("sysconf" if sysconf_ok else cpuinfo_kind), "%r expected %r (case %r)" % (got, exp_logical, case)))
        if topo != "none":
            # threads per core = cores[0]; core_cpus_list per cpu
            tpc = cores[0]
            for i in range(ncpu):
                core = i // tpc
                lst = ",".join(str(x) for x in range(core * tpc, min(ncpu, core * tpc + tpc)))
                w.set_file("/sys/devices/system/cpu/cpu%d/topology/%s" % (i, "core_cpus_list" if topo == "new" else "thread_siblings_list"),
                           lst.encode() + b"\n")
            exp = -(-ncpu // tpc)
        else:
            # cpuinfo: sum over physical ids of 'cpu cores'
            if cpuinfo_kind == "normal":
                ids = {i // max(1, cores[1]) for i in range(ncpu)}
                exp = len(ids) * cores[1]
            else:
                exp = None
        got = outcome(psutil.cpu_count, logical=False)
        if got != ("ok", exp):
            bad.append(("cpu_count:cores:%s" % topo, "%r expected %r (case %r)" % (got, exp, case)))
    elif k == "stats":
        _, _, ctxt, intr, soft = case
        w.ctxt, w.intr, w.softirq = ctxt, intr, soft
        got = outcome(psutil.cpu_stats)
        if got[0] != "ok" or (got[1].ctx_switches, got[1].interrupts, got[1].soft_interrupts) != (ctxt, intr, soft):
            bad.append(("cpu_stats", "%r expected %r" % (freeze(got), (ctxt, intr, soft))))
    elif k == "stats-big":
        # scale: /proc/stat much longer than a read buffer (hundreds of CPUs, a long interrupt line) -- ctxt/intr/softirq come last
        w.ncpus = case[2]
        w.cpu_times = [[10 ** 11 + (c + 1) * 100003 + 7 * i for i in range(10)] for c in range(case[2])]
        w.ctxt, w.intr, w.softirq = 123456789012, 987654321098, 55555555555
        got = outcome(psutil.cpu_stats)
        if got[0] != "ok" or (got[1].ctx_switches, got[1].interrupts, got[1].soft_interrupts) != (w.ctxt, w.intr, w.softirq):
            bad.append(("cpu_stats:large-table", "%d CPUs: %r expected %r" % (case[2], freeze(got), (w.ctxt, w.intr, w.softirq))))
    elif k == "btime":
        w.btime = case[2]
        got = outcome(psutil.boot_time)
        if got != ("ok", float(case[2])):
            bad.append(("boot_time", "%r expected %r" % (got, case[2])))
    elif k == "btime-seq":
        # one long-lived interpreter while the published boot time changes (clock steps): every call reports the table as it is NOW
        for step, b in enumerate(case[2]):
            w.btime = b
            got = outcome(psutil.boot_time)
            if got != ("ok", float(b)):
                bad.append(("boot_time:after-earlier-calls", "call %d of %r -> %r expected %r" % (step, case[2], got, b)))
    elif k == "freq-cpuinfo":
        mhz = case[2]
        key = (case[3] if len(case) > 3 else "cpu MHz\t\t").encode()        # (LoongArch spells it "CPU MHz")
        w.set_file("/proc/cpuinfo", b"".join(b"processor\t: %d\n%s: %s\n\n" % (i, key, ("%.3f" % m).encode()) for i, m in enumerate(mhz)))
        got = outcome(psutil.cpu_freq, percpu=True)
        if got[0] != "ok" or [x.current for x in got[1]] != list(mhz):
            bad.append(("cpu_freq:cpuinfo:percpu", "%r expected %r" % (freeze(got), mhz)))
        got = outcome(psutil.cpu_freq)
        if not mhz:
            if got != ("ok", None):
                bad.append(("cpu_freq:cpuinfo:none", repr(got)))
        elif got[0] != "ok" or got[1] is None or abs(got[1].current - sum(mhz) / len(mhz)) > 1e-9:
            bad.append(("cpu_freq:cpuinfo:mean", "%r expected mean of %r" % (freeze(got), mhz)))
    return bad


# --------------------------------------------------- cpu_freq, sysfs implementation (separate interpreter)
def case_freq_sysfs(psutil, case):
    _, layout, cpus, cpuinfo_n = case
    w = fresh_world()
    use_world(w)
    w.logging = False
    exp = []
    for i, c in enumerate(cpus):
        d = "/sys/devices/system/cpu/cpufreq/policy%d" % i if layout == "policy" else "/sys/devices/system/cpu/cpu%d/cpufreq" % i
        w.mkdir(d)
        cur, mn, mx, online, curfile = c
        if online:
            if curfile == "scaling":
                w.set_file(d + "/scaling_cur_freq", b"%d\n" % cur)
            elif curfile == "cpuinfo":
                w.set_file(d + "/cpuinfo_cur_freq", b"%d\n" % cur)
            w.set_file(d + "/scaling_min_freq", b"%d\n" % mn)
            w.set_file(d + "/scaling_max_freq", b"%d\n" % mx)
            exp.append([cur / 1000.0, mn / 1000.0, mx / 1000.0])
        else:
            w.set_file("/sys/devices/system/cpu/cpu%d/online" % i, b"0\n")
            exp.append([0.0, 0.0, 0.0])
    # /proc/cpuinfo lists only cpuinfo_n entries (online CPUs); when the counts match psutil may take 'current' from there
    online_idx = [i for i, c in enumerate(cpus) if c[3]]
    lines = []
    for j in range(cpuinfo_n):
        src = cpus[online_idx[j]][0] / 1000.0 if j < len(online_idx) else 1234.0
        lines.append(b"processor\t: %d\ncpu MHz\t\t: %.3f\n\n" % (j, src))
    w.set_file("/proc/cpuinfo", b"".join(lines))
    got = outcome(psutil.cpu_freq, percpu=True)
    bad = []
    if got[0] != "ok":
        return [("cpu_freq:sysfs-raised:%s" % got[1], "%r (case %r)" % (got, case))]
    g = [[x.current, x.min, x.max] for x in got[1]]
    if len(g) != len(exp) or any(abs(a - b) > 1e-6 for r1, r2 in zip(g, exp) for a, b in zip(r1, r2)):
        off = "offline" if any(not c[3] for c in cpus) else "all-online"
        bad.append(("cpu_freq:sysfs:percpu:%s" % off, "got %r expected %r (case %r)" % (g, exp, case)))
    got = outcome(psutil.cpu_freq)
    if exp and got[0] == "ok" and got[1] is not None:
        mean = [sum(r[i] for r in exp) / len(exp) for i in range(3)]
        if any(abs(a - b) > 1e-6 for a, b in zip([got[1].current, got[1].min, got[1].max], mean)) and not bad:
            bad.append(("cpu_freq:sysfs:mean", "got %r expected %r" % (freeze(got[1]), mean)))
    # the limits are run-time tunables (governor, power profile, thermal throttling): a later call reports them as they are THEN
    exp2 = [list(r) for r in exp]
    changed = False
    for i, c in enumerate(cpus):
        if c[3]:
            d = "/sys/devices/system/cpu/cpufreq/policy%d" % i if layout == "policy" else "/sys/devices/system/cpu/cpu%d/cpufreq" % i
            w.set_file(d + "/scaling_min_freq", b"%d\n" % (c[1] + 400000))
            w.set_file(d + "/scaling_max_freq", b"%d\n" % (c[2] - 100000))
            exp2[i][1], exp2[i][2] = (c[1] + 400000) / 1000.0, (c[2] - 100000) / 1000.0
            changed = True
    if changed and not bad:
        got = outcome(psutil.cpu_freq, percpu=True)
        g = [[x.current, x.min, x.max] for x in got[1]] if got[0] == "ok" else got
        if got[0] != "ok" or len(g) != len(exp2) or any(abs(a - b) > 1e-6 for r1, r2 in zip(g, exp2) for a, b in zip(r1, r2)):
            bad.append(("cpu_freq:sysfs:second-call-after-limits-changed", "got %r expected %r (case %r)" % (g, exp2, case)))
    return bad


def sysfs_cases(thorough):
    cases = []
    one = [(2000000, 800000, 3000000, True, "scaling"), (2500000, 800000, 3200000, True, "scaling"),
           (1500000, 600000, 2800000, True, "cpuinfo"), (1000000, 400000, 1900000, False, "none")]
    for layout in ("policy", "percpu"):
        for n in (1, 2, 3, 4):
            for combo in itertools.product(range(len(one)), repeat=n):
                if not thorough and n == 4 and combo[0] != 0:
                    continue
                cpus = [one[i] for i in combo]
                non = sum(1 for c in cpus if c[3])
                for cn in sorted({non, 0}):      # /proc/cpuinfo lists online CPUs only
                    cases.append(("freq-sysfs", layout, cpus, cn))
    big = [(1000000 + 10000 * i, 400000 + 1000 * i, 2000000 + 100000 * i, True, "scaling") for i in range(12)]
    for layout in ("policy", "percpu"):
        for cn in (12, 0):
            cases.append(("freq-sysfs", layout, big, cn))
    return cases


def sysfs_main():
    """run in a fresh interpreter: import psutil with the cpufreq tree 'present' so that the sysfs implementation is defined"""
    real = os.path.exists
    os.path.exists = lambda p: True if p in ("/sys/devices/system/cpu/cpufreq/policy0", "/sys/devices/system/cpu/cpu0/cpufreq") else real(p)
    import psutil
    os.path.exists = real
    cases = json.loads(sys.stdin.read())
    out = []
    for c in cases:
        c = tuple(c[:2]) + ([tuple(x) for x in c[2]], c[3])
        out.append(case_freq_sysfs(psutil, c))
    print("@@RESULT@@" + json.dumps(out))


RUNNERS = {"temp": case_temp, "thermal": case_thermal, "fans": case_fans, "battery": case_battery, "cpu": case_cpu}


def worker(chunk):
    import psutil
    return [guarded(lambda c_, ps_: RUNNERS[c_[0]](ps_, c_), c, psutil) for c in chunk]


def build_cases(thorough):
    cases = []
    for nesting in ("flat", "device", "coretemp-dup"):
        for st in itertools.product(STATES, repeat=4):
            if nesting == "coretemp-dup" and not thorough and st != ("ok", "ok", "ok", "ok") and st.count("ok") != 3:
                continue
            for fahr in (False, True):
                cases.append(("temp", nesting, st[0], st[1], st[2], st[3], fahr, (45500, 80000, 95000)))
    for vals in ((45500, 80000, 0), (45500, 0, 95000), (-5000, 80000, 95000)):
        if 0 in vals[1:]:
            continue          # a zero threshold is outside the statement (DESIGN Reading)
        cases.append(("temp", "flat", "ok", "ok", "ok", "ok", False, vals))
    trips = [[], [("critical", 100000)], [("high", 85000)], [("critical", 100000), ("high", 85000)], [("high", 85000), ("critical", 100000)],
             [("passive", 70000), ("critical", 100000)], [("active", 60000), ("high", 85000), ("critical", 100000)]]
    for tp in trips:
        for fahr in (False, True):
            for st in STATES:
                cases.append(("thermal", tp, fahr, st))
    for nesting in ("flat", "device"):
        for st_in in ("ok", "missing", "unreadable"):
            for st_label in STATES:
                cases.append(("fans", nesting, st_in, st_label))
    # battery: full product of file alternatives x small value domains
    nows = [(None, 0), ("energy_now", 30000), ("charge_now", 30000), ("energy_now", 0)]
    pows = [(None, 0), ("power_now", 15000), ("current_now", 15000), ("power_now", 0)]
    fulls = [(None, 0), ("energy_full", 60000), ("charge_full", 60000), ("energy_full", 0)]
    ttes = [None, 90, -1]
    caps = [None, 88]
    stats = [None, "Discharging", "Charging", "Full", "Unknown"]
    acs = [None, ("AC0", 1), ("AC0", 0), ("AC", 1), ("AC", 0)]
    for nw, pw, fl, tte, cap, stt, ac in itertools.product(nows, pows, fulls, ttes, caps, stats, acs):
        if not thorough and (hash((nw, pw, fl, tte, cap, stt, ac).__repr__()) % 1 != 0):
            continue
        cases.append(("battery", nw[0], nw[1], pw[0], pw[1], fl[0], fl[1], tte, cap, stt, ac, ["BAT0"]))
    # a battery holding more than its last learnt "full" figure (right after calibration, or a worn cell): now/full*100 is above 100
    for nf, ff in (("energy_now", "energy_full"), ("charge_now", "charge_full")):
        cases.append(("battery", nf, 63180, "power_now", 15000, ff, 60000, None, None, "Discharging", None, ["BAT0"]))
        cases.append(("battery", nf, 66000, None, 0, ff, 60000, None, 88, "Full", ("AC", 1), ["BAT0"]))
    for names in (["BAT1", "BAT0"], ["hid-battery-1", "BAT0"], ["CMB0", "macsmc-battery"], [], "nodir", ["AC"]):
        cases.append(("battery", "energy_now", 30000, "power_now", 15000, "energy_full", 60000, None, 50, "Discharging", None, names))
    for ncpu in (1, 2, 4, 16):
        for sysconf_ok in (True, False):
            for ck in ("normal", "exotic"):
                for topo in ("new", "old", "none"):
                    for cores in ((1, 1), (2, 2), (2, 4)):
                        if ncpu % cores[0] or (ck == "exotic" and sysconf_ok is False and topo == "x"):
                            continue
                        cases.append(("cpu", "count", ncpu, sysconf_ok, ck, topo, cores))
    for v in (0, 1, 2 ** 31, 2 ** 63, 2 ** 64 - 1):
        cases.append(("cpu", "stats", v, v + 1 if v < 2 ** 64 - 1 else 5, 7))
        cases.append(("cpu", "stats", 3, 4, v))
    for b in (0, 1, 1700000000, 2 ** 31, 2 ** 32 + 5):
        cases.append(("cpu", "btime", b))
    cases.append(("cpu", "stats-big", 700))
    offs = (0, 1, -1, 2, -2, 3600)
    for a in offs:
        for b in offs:
            for c in offs:
                cases.append(("cpu", "btime-seq", [1700000000 + a, 1700000000 + b, 1700000000 + c]))
    for mhz in ([], [1000.0], [1000.0, 3000.5], [800.0, 900.0, 4000.25, 0.0]):
        cases.append(("cpu", "freq-cpuinfo", mhz))
    cases.append(("cpu", "freq-cpuinfo", [2500.0, 2300.0, 625.0], "CPU MHz\t\t\t"))
    return cases


def run(ctx):
    cases = build_cases(ctx.thorough)
    n = max(1, len(cases) // (ctx.ncpu * 4))
    chunks = [cases[i:i + n] for i in range(0, len(cases), n)]
    res = [r for ch in ctx.pmap_fresh(worker, chunks) for r in ch]
    sc = sysfs_cases(ctx.thorough)
    p = subprocess.run([sys.executable, "-c", "import vf.checks.c19 as m; m.sysfs_main()"], input=json.dumps(sc),
                       capture_output=True, text=True, env=dict(os.environ))
    if "@@RESULT@@" not in p.stdout:
        raise RuntimeError("sysfs cpu_freq runner failed: %s" % p.stderr[-2000:])
    res += json.loads(p.stdout.split("@@RESULT@@")[1])
    cases = cases + sc
    viols, kinds = [], {}
    for _i, (c, bad) in enumerate(zip(cases, res)):
        kinds[c[0] if c[0] != "cpu" else "cpu:" + c[1]] = kinds.get(c[0] if c[0] != "cpu" else "cpu:" + c[1], 0) + 1
        for cause, msg in bad:
            viols.append({"cause": cause, "msg": msg, "case": list(c), "_idx": _i})
    cov = {"evaluations": len(cases), "distinct_nontrivial": len({repr(c) for c in cases}),
           "rule": "one evaluation = one /sys + /proc layout queried through the public function; every optional file takes each of "
                   "{ok, missing, unreadable, non-numeric}; distinct by construction", "per_dimension": kinds, "exhaustive": True,
           "samples": [list(map(str, c)) for c in sample(cases, 6)]}
    return {"coverage": cov, "violations": add_histories(viols, cases, n, list),
            "assumptions": ["a threshold value of 0 is outside the statement", "a sensor's `name` file is always present",
                            "the sysfs cpu_freq implementation is exercised in a separate interpreter that imports psutil with the "
                            "cpufreq tree reported present"]}


def _replay_one(psutil, case):
    c = tuple(case)
    if c[0] == "freq-sysfs":
        p = subprocess.run([sys.executable, "-c", "import vf.checks.c19 as m; m.sysfs_main()"], input=json.dumps([case]),
                           capture_output=True, text=True, env=dict(os.environ))
        return json.loads(p.stdout.split("@@RESULT@@")[1])[0]
    if c[0] == "thermal":
        c = (c[0], [tuple(x) for x in c[1]], c[2], c[3])
    if c[0] == "temp":
        c = c[:7] + (tuple(c[7]),)
    if c[0] == "battery":
        c = c[:10] + (tuple(c[10]) if c[10] is not None else None, c[11])
    if c[0] == "cpu" and c[1] == "count":
        c = c[:6] + (tuple(c[6]),)
    return guarded(lambda c_, ps_: RUNNERS[c_[0]](ps_, c_), c, psutil)


def replay(ctx, case):
    import psutil
    for c in history_of(case):
        bad = _replay_one(psutil, c)
    return {"violated": bool(bad), "viols": bad}
