"""C10 — nowrap=True counters never decrease while their device stays present.
Explorer H: histories of raw counter changes (incl. going backwards), devices
unplugged / re-plugged, cache_clear(), alternating nowrap / per-device forms and
the two functions interleaved, through the *public* functions over simk.
Reference: per (function, device, counter) accumulator over the snapshots seen
by nowrap=True calls."""
from vf.explore.history import bfs
from vf.harness import use_world, outcome, sample, residue, ModuleResidue
from vf.simk.world import World

ID = "C10"
LEVEL = "model_checking"
ALT_MOUNT = True
_CFG = None
VALS = (1, 5, 9)
VALS_BIG = (3, 2 ** 63 + 5, 2 ** 64 - 7)
NET_HDR = (b"Inter-|   Receive                                                |  Transmit\n"
           b" face |bytes    packets errs drop fifo frame compressed multicast|bytes    packets errs drop fifo colls carrier compressed\n")
# psutil field order of snetio -> column index in /proc/net/dev
NET_COL = {"bytes_sent": 8, "bytes_recv": 0, "packets_sent": 9, "packets_recv": 1,
           "errin": 2, "errout": 10, "dropin": 3, "dropout": 11}
NET_FIELDS = ["bytes_sent", "bytes_recv", "packets_sent", "packets_recv", "errin", "errout", "dropin", "dropout"]
DISK_FIELDS = ["read_count", "write_count", "read_bytes", "write_bytes", "read_time", "write_time",
               "read_merged_count", "write_merged_count", "busy_time"]
# diskstats columns after the name: reads, rmerged, rsect, rtime, writes, wmerged, wsect, wtime, inflight, iotime, wiotime
DISK_COL = {"read_count": 0, "read_merged_count": 1, "read_bytes": 2, "read_time": 3, "write_count": 4,
            "write_merged_count": 5, "write_bytes": 6, "write_time": 7, "busy_time": 9}


class Cfg:
    def __init__(self, seed, mode, thorough, big=False, cross=False):
        self.mode = mode          # 'net' | 'disk' | 'both'
        # cross: the two functions interleaved over kernels whose device NAMES coincide (a NIC may be called "sda"), with a reduced
        # alphabet (see Exec.enabled) and the event "the kernel lists no device at all for this function"
        self.cross = cross
        self.thorough = thorough
        # the values the moving counters take: small ones, or the neighbourhood of 2**63 / 2**64 (u64 counters about to wrap)
        self.vals = VALS_BIG if big else VALS
        self.off = 100 * (seed % 7)   # don't-care base offset of untouched counters
        self.net_devs = ("x", "y", "z") if not cross else ("sda", "sda1")
        self.disk_devs = ("sda", "sda1")
        # the counters that events move (psutil field names)
        self.net_ctrs = ("bytes_sent", "packets_recv")
        self.disk_ctrs = ("read_count",) if not thorough else ("read_count", "write_bytes")


class Exec:
    def __init__(self, cfg):
        import psutil
        self.ps = psutil
        self.cfg = cfg
        c = cfg
        w = World()
        w.spawn(1, ppid=0, comm=b"init", start=1)
        self.w = w
        use_world(w)
        self.modres = ModuleResidue([psutil, psutil._pslinux, psutil._common])
        # raw kernel tables: fn -> dev -> field -> value ; presence
        self.raw = {"net": {d: {f: c.off + 10 + i for i, f in enumerate(NET_FIELDS)} for d in c.net_devs},
                    "disk": {d: {f: c.off + 20 + i for i, f in enumerate(DISK_FIELDS)} for d in c.disk_devs}}
        for d in c.net_devs:
            for f in c.net_ctrs:
                self.raw["net"][d][f] = c.vals[1]
        for d in c.disk_devs:
            for f in c.disk_ctrs:
                self.raw["disk"][d][f] = c.vals[1]
        self.present = {"net": {d: d != "z" for d in c.net_devs}, "disk": {d: True for d in c.disk_devs}}
        # reference accumulator: fn -> None | {"prev": {dev: {f: raw}}, "rem": {dev: {f: n}}}
        self.ref = {"net": None, "disk": None}
        self.hidden_by_totals = set()
        self.blank = {"net": False, "disk": False}     # the function's kernel table lists no device at all
        self.nfail = 0
        self.last = {"net": {}, "disk": {}}      # last nowrap=True value returned per (dev, field)
        w.mkdir("/sys/block/sda")
        self.viols = []
        self.label = ""
        self.sync()

    def _rev(self, fn):
        """the kernel lists devices in no promised order: here the listing order is a function of the counters themselves
        (it flips whenever one counter moves to a neighbouring value), so that two successive reads of the same device set
        come in different orders without the order being a state variable of its own"""
        return sum(v // 4 for vals in self.raw[fn].values() for v in vals.values()) % 2 == 1

    def sync(self):
        w = self.w
        self.rev = {"net": self._rev("net"), "disk": self._rev("disk")}
        lines = [NET_HDR]
        for d, vals in (reversed(list(self.raw["net"].items())) if self.rev["net"] else self.raw["net"].items()):
            if self.present["net"][d] and not self.blank["net"]:
                cols = [0] * 16
                for f, v in vals.items():
                    cols[NET_COL[f]] = v
                lines.append(b"%6s: " % d.encode() + b" ".join(b"%d" % v for v in cols) + b"\n")
        w.set_file("/proc/net/dev", b"".join(lines))
        lines = []
        order = list(enumerate(self.raw["disk"].items()))
        for i, (d, vals) in (reversed(order) if self.rev["disk"] else order):
            if self.present["disk"][d] and not self.blank["disk"]:
                cols = [0] * 17
                for f, v in vals.items():
                    cols[DISK_COL[f]] = v
                lines.append(b"   8 %7d %s " % (i, d.encode()) + b" ".join(b"%d" % v for v in cols) + b"\n")
        w.set_file("/proc/diskstats", b"".join(lines))

    def fns(self):
        return ("net", "disk") if self.cfg.mode == "both" else (self.cfg.mode,)

    def enabled(self):
        c = self.cfg
        ev = []
        if c.cross:
            # reduced alphabet: nowrap=True calls (per-device; disk also totals, whose device set is smaller), one moving counter
            # of the pluggable device, its unplug / plug, and ONE function's table going empty for good (every call form is then
            # asked on the empty table; the other function's history must not notice).
            # and filling up again ("unblank"): a device the function has been seen without starts afresh
            for fn in ("net", "disk"):
                devs = c.net_devs if fn == "net" else c.disk_devs
                f0 = (c.net_ctrs if fn == "net" else c.disk_ctrs)[0]
                if self.blank[fn]:
                    ev += [["call", fn, nowrap, per] for nowrap in (True, False) for per in (True, False)]
                    ev.append(["unblank", fn])      # the table fills up again (the devices it listed before, counters as set)
                    continue
                ev.append(["call", fn, True, True])
                if fn == "disk":
                    ev.append(["call", fn, True, False])
                ev += [["set", fn, devs[1], f0, v] for v in c.vals if v != self.raw[fn][devs[1]][f0]]
                ev.append(["unplug", fn, devs[1]] if self.present[fn][devs[1]] else ["plug", fn, devs[1]])
                if not any(self.blank.values()):
                    ev.append(["blank", fn])
            return ev
        for fn in self.fns():
            devs = c.net_devs if fn == "net" else c.disk_devs
            ctrs = c.net_ctrs if fn == "net" else c.disk_ctrs
            for nowrap in (True, False):
                for per in (True, False):
                    ev.append(["call", fn, nowrap, per])
            for d in devs:
                for f in ctrs:
                    if d == "z":
                        continue          # (a re-plugged device may come back with other counter values)
                    for v in c.vals:
                        if v != self.raw[fn][d][f]:
                            ev.append(["set", fn, d, f, v])
            for plug in devs[1:]:
                ev.append(["unplug", fn, plug] if self.present[fn][plug] else ["plug", fn, plug])
            ev.append(["clear", fn])
            if fn == "net" and self.nfail < 1:
                ev.append(["failcall", fn])
        return ev

    def viol(self, cause, msg):
        self.viols.append({"cause": cause, "msg": msg})

    def visible(self, fn, per):
        """devices the call's raw dict contains"""
        devs = [d for d, p in self.present[fn].items() if p and not self.blank[fn]]
        if fn == "disk" and not per:
            devs = [d for d in devs if d == "sda"]       # totals: whole disks only
        return devs

    def rawval(self, fn, d, f):
        v = self.raw[fn][d][f]
        if fn == "disk" and f in ("read_bytes", "write_bytes"):
            v *= 512
        return v

    def apply(self, ev):
        ps, c = self.ps, self.cfg
        self.viols = []
        k = ev[0]
        lab = k
        if k == "set":
            _, fn, d, f, v = ev
            self.raw[fn][d][f] = v
            self.sync()
        elif k == "zero":
            # (root histories only) a counter restarts from exactly 0: a driver reload / statistics reset of an idle device
            _, fn, d, f = ev
            self.raw[fn][d][f] = 0
            self.sync()
        elif k == "reset":
            # (root histories only) EVERY counter of a device that stays present drops at once: a statistics reset of a busy device
            _, fn, d = ev
            for i, f in enumerate(self.raw[fn][d]):
                self.raw[fn][d][f] = min(self.raw[fn][d][f] - 1, 2 + i % 3) if self.raw[fn][d][f] > 0 else 0
            self.sync()
        elif k == "blank":
            # (cross histories only) the kernel lists NO device at all for this function from now on (diskless / NIC-less box).
            # "unblank" brings the same devices back.  (This found a defect of the pinned tree, repaired by a fix: commit: the public
            # functions returned early on an empty table WITHOUT showing it to the nowrap history, so after  call(x=5) ; table
            # empty ; call -> {} ; table back with x=1 ; call  psutil returned 1+5 for a device that had disappeared and reappeared.)
            self.blank[ev[1]] = True
            self.sync()
        elif k == "unblank":
            self.blank[ev[1]] = False
            self.sync()
        elif k == "unplug":
            self.present[ev[1]][ev[2]] = False
            self.sync()
        elif k == "plug":
            self.present[ev[1]][ev[2]] = True
            self.sync()
        elif k == "clear":
            fn = ev[1]
            f = ps.net_io_counters if fn == "net" else ps.disk_io_counters
            out = outcome(f.cache_clear)
            if out[0] != "ok":
                self.viol("cache_clear-raised", repr(out))
            self.ref[fn] = None
            self.last[fn] = {}
        elif k == "failcall":
            # ONE call that fails at the source (the table cannot be opened: ENOENT for an instant, e.g. during a remount): the
            # caller gets an error, and the history kept for the calls that follow is what it was
            self.nfail += 1
            self.w.remove("/proc/net/dev")
            try:
                out = outcome(ps.net_io_counters, pernic=True)
            finally:
                self.sync()
            lab = "failcall:%s" % (out[1] if out[0] == "exc" else "ok")
        elif k == "call":
            lab = self.do_call(ev[1], ev[2], ev[3])
        self.label = lab

    def do_call(self, fn, nowrap, per):
        ps = self.ps
        fields = NET_FIELDS if fn == "net" else DISK_FIELDS
        if fn == "net":
            out = outcome(ps.net_io_counters, pernic=per, nowrap=nowrap)
        else:
            out = outcome(ps.disk_io_counters, perdisk=per, nowrap=nowrap)
        if out[0] != "ok":
            self.viol("call-raised:%s" % out[1], "%s(per=%r, nowrap=%r) raised %r" % (fn, per, nowrap, out))
            return "call:" + out[1]
        devs = self.visible(fn, per)
        # expected per-device values
        exp = {}
        if not nowrap:
            for d in devs:
                exp[d] = {f: self.rawval(fn, d, f) for f in fields}
        else:
            ref = self.ref[fn]
            if ref is None:
                ref = {"prev": {}, "rem": {}}
            nprev, nrem = {}, {}
            for d in devs:
                cur = {f: self.rawval(fn, d, f) for f in fields}
                if d in ref["prev"]:
                    rem = dict(ref["rem"][d])
                    for f in fields:
                        if cur[f] < ref["prev"][d][f]:
                            rem[f] += ref["prev"][d][f]
                else:
                    rem = dict.fromkeys(fields, 0)
                nprev[d], nrem[d] = cur, rem
                exp[d] = {f: cur[f] + rem[f] for f in fields}
            self.ref[fn] = {"prev": nprev, "rem": nrem}
        val = out[1]
        got = None
        if not devs:
            if val != ({} if per else None):
                self.viol("empty-convention", "%s(per=%r) with no device -> %r" % (fn, per, val))
            if nowrap:
                self.last[fn] = {}       # every device is absent at this observation: whatever comes back starts afresh
                if fn == "disk":
                    self.hidden_by_totals = set()
            return "call:empty"
        if per:
            if not isinstance(val, dict) or sorted(val) != sorted(devs):
                self.viol("devices", "%s per-device keys %r, kernel lists %r" % (fn, val if not isinstance(val, dict) else sorted(val), devs))
                return "call:baddevs"
            got = {d: {f: getattr(val[d], f) for f in fields} for d in devs}
        else:
            tot = {f: sum(exp[d][f] for d in devs) for f in fields}
            g = {f: getattr(val, f, None) for f in fields}
            if g != tot:
                bad = {f: (g[f], tot[f]) for f in fields if g[f] != tot[f]}
                self.viol("total:%s:%s" % (fn, "nowrap" if nowrap else "raw"),
                          "%s total (nowrap=%r): (got, expected) %r" % (fn, nowrap, bad))
        if got is not None:
            for d in devs:
                for f in fields:
                    if got[d][f] != exp[d][f]:
                        lastv = self.last[fn].get((d, f))
                        dec = nowrap and lastv is not None and got[d][f] < lastv
                        self.viol("value:%s:%s%s" % (fn, "nowrap" if nowrap else "raw", ":decreased" if dec else ""),
                                  "%s[%s].%s (nowrap=%r) -> %r, expected %r (raw now %r, previous nowrap value %r)"
                                  % (fn, d, f, nowrap, got[d][f], exp[d][f], self.rawval(fn, d, f), lastv))
                        break
        if nowrap and got is not None:
            # monotonicity while the device stays present, whatever the reference says
            newlast = {}
            for d in devs:
                for f in fields:
                    lv = self.last[fn].get((d, f))
                    if lv is not None and got[d][f] < lv and not any(v["cause"].endswith(":decreased") for v in self.viols):
                        if fn == "disk" and d != "sda" and d in self.hidden_by_totals:
                            self.viol("partition-history-forgotten-by-totals-call",
                                      "disk[%s].%s went from %r to %r while present: a disk_io_counters(perdisk=False) call in "
                                      "between (which does not list partitions) made the shared nowrap cache forget it"
                                      % (d, f, lv, got[d][f]))
                        else:
                            self.viol("decreased:%s" % fn, "%s[%s].%s went from %r to %r while present" % (fn, d, f, lv, got[d][f]))
                    newlast[(d, f)] = got[d][f]
            if fn == "disk":
                self.hidden_by_totals = set()
            self.last[fn] = newlast      # devices absent at this observation start afresh
        elif nowrap:
            # totals call: devices that are absent now start afresh; partitions are merely not listed
            # (an empty table -- "blank" -- lists no device at all: every device is absent at this observation)
            self.last[fn] = {k: v for k, v in self.last[fn].items() if self.present[fn].get(k[0]) and not self.blank[fn]}
            if fn == "disk":
                self.hidden_by_totals |= {d for d, p in self.present[fn].items() if p and d not in devs}
        return "call:%s:%s:%s" % (fn, "nowrap" if nowrap else "raw", "per" if per else "tot")

    def canon(self):
        wn = self.ps._common._wn
        c = self.cfg
        key = {"raw": {}, "present": {}, "ref": {}, "wn": {}, "last": {}, "hid": sorted(self.hidden_by_totals), "nfail": self.nfail}
        if c.cross:
            key["blank"] = dict(self.blank)
        for fn in self.fns():
            ctrs = c.net_ctrs if fn == "net" else c.disk_ctrs
            key["raw"][fn] = {d: [self.raw[fn][d][f] for f in ctrs] for d in self.raw[fn]}
            key["present"][fn] = dict(self.present[fn])
            r = self.ref[fn]
            key["ref"][fn] = None if r is None else {d: [[r["prev"][d][f], r["rem"][d][f]] for f in
                                                         (ctrs if True else ())] for d in sorted(r["prev"])}
            name = "psutil.%s_io_counters" % fn
            cache = wn.cache.get(name)
            key["wn"][fn] = None if cache is None else {
                "cache": {d: list(v) for d, v in sorted(cache.items())},
                "rem": sorted((list(k), v) for k, v in wn.reminders.get(name, {}).items() if v),
                "rk": sorted((k, sorted(map(list, v))) for k, v in wn.reminder_keys.get(name, {}).items() if v)}
            key["last"][fn] = sorted((list(k), v) for k, v in self.last[fn].items()
                                     if k[1] in ctrs)
        key["wn_rest"] = residue(wn, ("cache", "reminders", "reminder_keys", "lock"))
        key["modules"] = self.modres.diff()
        return key


def run_h(history):
    ex = Exec(_CFG)
    for ev in history:
        ex.apply(ev)
    return {"key": ex.canon(), "enabled": ex.enabled(), "viols": list(ex.viols), "label": ex.label}


ROOTS = {
    # start also from states where a device already carries a wrap reminder
    "net": [[["call", "net", True, True], ["set", "net", "y", "bytes_sent", 1], ["call", "net", True, True]],
            # ... the wrap was seen on a later snapshot than the device's second
            [["call", "net", True, True], ["call", "net", True, True], ["set", "net", "y", "bytes_sent", 1], ["call", "net", True, True]],
            ],
    "disk": [[["call", "disk", True, True], ["set", "disk", "sda1", "read_count", 1], ["call", "disk", True, True]],
             [["call", "disk", True, True], ["call", "disk", True, True], ["set", "disk", "sda1", "read_count", 1],
              ["call", "disk", True, True]]],
    "both": [],
}
# short searches (every continuation of <= 2 events) from states outside the value alphabet
SPECIAL = {
    # a counter that restarted from exactly 0 (the wrap has been seen; what follows sees 0 again, or a rise)
    "net": [[["call", "net", True, True], ["zero", "net", "y", "bytes_sent"], ["call", "net", True, True]],
            # every counter of a device that never left went backwards in one step
            [["call", "net", True, True], ["reset", "net", "y"]]],
    "disk": [[["call", "disk", True, True], ["zero", "disk", "sda", "read_count"], ["call", "disk", True, True]],
             [["call", "disk", True, True], ["reset", "disk", "sda"]]],
}


def _special_task(arg):
    mode, h = arg
    r = run_h(h)
    return [dict(v, case={"history": h, "mode": mode}) for v in r["viols"]], r["enabled"]


def special(ctx, mode):
    """-> (runs, violations)"""
    global _CFG
    _CFG = Cfg(ctx.seed, mode, ctx.thorough)
    ctx.close()
    viols, n = [], 0
    level = [(mode, list(r)) for r in SPECIAL[mode]]
    for depth in range(3):
        res = ctx.pmap(_special_task, level)
        n += len(level)
        nxt = []
        for (m, h), (vs, en) in zip(level, res):
            viols += vs
            if depth < 2:
                nxt += [(m, h + [e]) for e in en if e[0] in ("call", "set")]
        level = nxt
    return n, viols


def _cross_roots():
    """start states: function A has been called, function B carries a wrap reminder for its pluggable device, which has just been
    unplugged (not yet observed) -- both ways round"""
    rs = []
    for a, b, f in (("disk", "net", "bytes_sent"), ("net", "disk", "read_count")):
        rs.append([["call", a, True, True], ["call", b, True, True], ["set", b, "sda1", f, 1], ["call", b, True, True],
                   ["unplug", b, "sda1"]])
    return rs


def cross(ctx, depth):
    global _CFG
    _CFG = Cfg(ctx.seed, "both", ctx.thorough, cross=True)
    ctx.close()
    res = bfs(run_h, depth, ctx, roots=_cross_roots())
    for v in res["violations"]:
        v["case"]["mode"] = "cross"
    return res


def one(ctx, mode, depth):
    global _CFG
    big = mode.endswith("-big")
    mode = mode.split("-")[0]
    _CFG = Cfg(ctx.seed, mode, ctx.thorough, big=big)
    ctx.close()          # workers must see the new configuration
    res = bfs(run_h, depth, ctx, roots=ROOTS[mode] if not big else None)
    for v in res["violations"]:
        v["case"]["mode"] = mode + ("-big" if big else "")
    return res


def run(ctx):
    plan = [("net", 6), ("disk", 6), ("both", 4)] if not ctx.thorough else [("net", 7), ("disk", 7), ("both", 5)]
    plan += [("net-big", 5 if ctx.thorough else 4), ("disk-big", 5 if ctx.thorough else 4)]
    if ctx.alt:
        plan = [("net", 4), ("disk", 4)]          # second pass with procfs mounted elsewhere: shorter histories, no schedules
    tot = {"states": 0, "transitions": 0}
    viols, labels, parts, samples = [], {}, {}, []
    capped = None
    if not ctx.alt:
        plan.append(("cross", 6 if ctx.thorough else 5))
    import os
    only = os.environ.get("VF_C10_ONLY")      # development aid: run one part of the plan alone (e.g. VF_C10_ONLY=cross)
    if only:
        plan = [p for p in plan if p[0] == only]
    for mode, depth in plan:
        r = one(ctx, mode, depth) if mode != "cross" else cross(ctx, depth)
        tot["states"] += r["states"]
        tot["transitions"] += r["transitions"]
        viols += r["violations"]
        for k, v in r["labels"].items():
            labels[k] = labels.get(k, 0) + v
        parts[mode] = {"depth": r["max_depth"], "states": r["states"], "transitions": r["transitions"],
                       "new_states_per_level": r["new_states_per_level"]}
        samples += [{"mode": mode, "history": h} for h in sample(r["samples"], 3)]
        capped = capped or r["capped"]
    if not ctx.alt and not only:
        for mode in ("net", "disk"):
            n_, vs_ = special(ctx, mode)
            viols += vs_
            tot["transitions"] += n_
            parts["beyond-the-value-alphabet:" + mode] = {"histories": n_, "starts": SPECIAL[mode]}
    from vf.checks import c10s
    ctx.close()
    try:
        sres = c10s.run_s(ctx) if not ctx.alt and not only else {"violations": [], "coverage": {"executions": 0, "transitions": 0}}
    except Exception as e:
        # The schedule part refuses to go on when an execution does not reproduce its own prefix (state the code under test carries
        # from one execution into the next).  That stays a machinery failure (exit 2) -- unless the history parts above have
        # already produced violations that no known finding explains: those are reported, and the schedule part is recorded as
        # not completed (the run is then not called exhaustive).
        known = set()
        try:
            for line in open(os.path.join(os.path.dirname(os.path.dirname(os.path.dirname(os.path.abspath(__file__)))), "known_findings.txt")):
                if line.startswith("C10 "):
                    known.add(line.split()[1])
        except OSError:
            pass
        if not [v for v in viols if v["cause"] not in known]:
            raise
        capped = "schedule part not completed (%s: %s)" % (type(e).__name__, str(e)[:160])
        sres = {"violations": [], "coverage": {"executions": 0, "transitions": 0, "aborted": capped}}
    viols += sres["violations"]
    tot["states"] += sres["coverage"]["executions"]
    tot["transitions"] += sres["coverage"]["transitions"]
    cov = {"states": tot["states"], "transitions": tot["transitions"], "schedules": sres["coverage"],
           "traces_validated_against_impl": tot["transitions"], "parts": parts,
           "distinct_outcomes": len(labels), "outcome_counts": labels, "samples": samples,
           "exhaustive": capped is None, "capped": capped,
           "roots": ROOTS, "alphabet": {"net devices": ["x", "y (pluggable)", "z (pluggable, initially absent)"], "disk devices": ["sda (whole disk)", "sda1 (partition, pluggable)"],
                        "values": list(VALS), "calls": "net|disk x nowrap T/F x per-device T/F", "other": ["cache_clear(fn)"],
                        "cross": "net and disk both over devices named sda / sda1 (shared names); calls nowrap=True (per-device, disk also "
                                 "totals), one counter of sda1, unplug/plug sda1, one function's table going empty for good (then all 4 "
                                 "call forms on it); roots: see _cross_roots()"}}
    return {"coverage": cov, "violations": viols,
            "assumptions": ["a counter 'went backwards' / a device 'disappeared' as observed between successive nowrap=True calls "
                            "of the same function (psutil can observe the kernel only at calls)"]}


def replay(ctx, case):
    global _CFG
    if case.get("part") == "S":
        from vf.checks import c10s
        return c10s.replay_s(ctx, case)
    if case.get("mode") == "cross":
        _CFG = Cfg(ctx.seed, "both", ctx.thorough, cross=True)
    else:
        _CFG = Cfg(ctx.seed, case.get("mode", "both").split("-")[0], ctx.thorough, big=case.get("mode", "").endswith("-big"))
    ex = Exec(_CFG)
    trace = []
    for ev in case["history"]:
        ex.apply(ev)
        trace.append([ev, ex.label, [v["cause"] for v in ex.viols]])
    return {"violated": bool(ex.viols), "trace": trace, "viols": ex.viols}
