"""C02 (schedule part) — Process objects built and compared by two threads at once: identity (pid, creation time) must
not depend on what another thread is doing with another process; explorer S."""
from vf.explore import sched as S
from vf.harness import use_world, outcome
from vf.simk.world import World

PIDS = {"X": 610, "Y": 620}
SCENARIOS = {
    "ctor-vs-ctor": [["new:X", "new:Y"], ["new:Y", "new:X"]],
    "ctor-vs-query": [["new:X", "run:0", "new:X"], ["new:Y", "ct:0"]],
}


def _inner(f):
    while hasattr(f, "__wrapped__"):
        f = f.__wrapped__
    return f


class Harness:
    def __init__(self, scn):
        import psutil
        self.ps = psutil
        self.scn = scn
        lp = psutil._pslinux.Process
        fns = [lp._parse_stat_file, lp.create_time, psutil.Process._init, psutil.Process._get_ident, psutil.Process.create_time,
               psutil.Process.is_running, psutil.Process.__eq__, psutil.Process.__hash__, psutil._pslinux.boot_time]
        self.watched = []
        for f in fns:
            g = f
            while True:
                c = getattr(g, "__code__", None)
                if c is not None and c not in self.watched:
                    self.watched.append(c)
                if not hasattr(g, "__wrapped__"):
                    break
                g = g.__wrapped__

    def run(self, prefix):
        ps = self.ps
        sc = S.Sched(prefix, self.watched)
        w = World(ncpus=2)
        w.spawn(1, ppid=0, comm=b"init", start=1)
        w.spawn(w.mypid, ppid=1, comm=b"caller", start=50)
        for s in ("X", "Y"):
            w.tick(700)
            w.spawn(PIDS[s], ppid=1, comm=b"p" + s.encode())
        use_world(w)
        objs = {0: [], 1: []}
        ev = []

        def hook(world, kind, subj, pid):
            sc.point("access", (kind, str(subj)))
        w.hook = hook
        w.logging = False

        def mk(tid, prog):
            def body():
                for step in prog:
                    op, arg = step.split(":")
                    if op == "new":
                        o = outcome(ps.Process, PIDS[arg])
                        if o[0] == "ok":
                            objs[tid].append((arg, o[1]))
                        ev.append((tid, step, o[0] if o[0] == "ok" else o))
                    elif op == "run":
                        o = outcome(objs[tid][int(arg)][1].is_running)
                        ev.append((tid, step, o))
                    elif op == "ct":
                        o = outcome(objs[tid][int(arg)][1].create_time)
                        ev.append((tid, step, o))
            return body
        for i, prog in enumerate(SCENARIOS[self.scn]):
            sc.add(i, mk(i, prog))
        with S.coop_locks(sc, ps):
            x = sc.run()
        w.hook = None
        x.events = ev
        # sequential reference objects, built after the concurrent phase
        ref = {s: ps.Process(PIDS[s]) for s in PIDS}
        allobjs = [(s, o) for t in (0, 1) for s, o in objs[t]]
        facts = []
        for s, o in allobjs:
            facts.append((s, o == ref[s], hash(o) == hash(ref[s]), o.is_running(),
                          [o == ref[t] for t in PIDS if t != s], o.create_time() == ref[s].create_time()))
        x.facts = facts
        x.nobj = len(allobjs)
        return x


def judge(x, scn):
    out = []
    if x.deadlock:
        return [("deadlock", repr(x.deadlock))]
    for t, e in x.errors.items():
        out.append(("thread-raised:%s" % type(e).__name__, repr(e)))
    want = sum(1 for prog in SCENARIOS[scn] for st in prog if st.startswith("new:"))
    if x.nobj != want:
        out.append(("ctor-failed", repr([e for e in x.events if e[1].startswith("new:")])))
    for tid, step, o in x.events:
        if step.startswith("run:") and o != ("ok", True):
            out.append(("is_running-of-a-live-process:%r" % (o[1] if o[0] == "ok" else o[1],), "thread %d %s -> %r" % (tid, step, o)))
        if step.startswith("ct:") and o[0] != "ok":
            out.append(("create_time-raised", repr(o)))
    for s, eq, hs, run, others, ct in x.facts:
        if not eq or not hs:
            out.append(("object-built-concurrently-is-not-equal-to-one-built-alone", "process %s: == %r, same hash %r" % (s, eq, hs)))
        if not run:
            out.append(("object-built-concurrently:is_running-False", "process %s (alive)" % s))
        if any(others):
            out.append(("object-equal-to-another-process", "process %s" % s))
        if not ct:
            out.append(("object-built-concurrently:create_time-of-another-process", "process %s" % s))
    return out


_H = None


def _task(arg):
    scn, bound, prefix = arg
    global _H
    if _H is None or _H.scn != scn:
        _H = Harness(scn)
    stats, viols, outcomes = {}, [], set()

    def check(x, pfx):
        outcomes.add(repr(x.facts))
        for cause, msg in judge(x, scn):
            viols.append({"cause": cause, "msg": msg, "case": {"part": "S", "scenario": scn, "schedule": x.choices()}})
    S.explore(_H.run, bound, prefix, check, stats)
    return stats, viols, len(outcomes)


def run_s(ctx):
    bound = 2 if ctx.thorough else 1
    tot = {"executions": 0, "points": 0}
    viols, per, distinct = [], {}, 0
    for scn in SCENARIOS:
        h = Harness(scn)
        root = h.run([])
        for cause, msg in judge(root, scn):
            viols.append({"cause": cause, "msg": msg, "case": {"part": "S", "scenario": scn, "schedule": root.choices()}})
        tasks, ch = [], root.choices()
        for i, p in enumerate(root.points):
            if len(p.enabled) < 2:
                continue
            cost = root.preemptions_before(i) + (1 if p.running_enabled else 0)
            if cost > bound:
                continue
            for alt in range(1, len(p.enabled)):
                tasks.append((scn, bound, ch[:i] + [alt]))
        n = 1
        for st, vs, nd in ctx.pmap(_task, tasks, chunk=1):
            n += st.get("executions", 0)
            tot["points"] += st.get("points", 0)
            viols += vs
            distinct += nd
        tot["executions"] += n
        per[scn] = {"executions": n, "points_in_default_schedule": len(root.points), "preemption_bound": bound}
    return {"coverage": {"executions": tot["executions"], "transitions": tot["points"], "scenarios": per,
                         "distinct_outcome_vectors": distinct, "preemption_bound": bound,
                         "programs": SCENARIOS}, "violations": viols}


def replay_s(ctx, case):
    h = Harness(case["scenario"])
    x = h.run(case["schedule"])
    j = judge(x, case["scenario"])
    return {"violated": bool(j), "viols": j, "events": [str(e)[:200] for e in x.events], "facts": [str(f) for f in x.facts]}
