"""C07 — CPU times and percentages are exact shares of elapsed time.
I: /proc/stat contents (1-3 CPUs x 7-10 fields x boundary counters); all snapshot pairs whose per-field
deltas come from a small set (complete 3-valued product + every pair of fields over 6 values) through
cpu_percent()/cpu_times_percent() in blocking and non-blocking, system-wide and per-CPU forms;
Process.cpu_percent over (dproc, dwall) grids and call sequences over {non-blocking, blocking, inside a oneshot() block left
normally, inside a oneshot() block left by an exception}."""
import itertools

from vf.harness import use_world, outcome, freeze, sample, guarded, add_histories, history_of
from vf.simk.world import World, CLK_TCK

ID = "C07"
LEVEL = "exploration"
ALT_MOUNT = True
FIELDS = ["user", "nice", "system", "idle", "iowait", "irq", "softirq", "steal", "guest", "guest_nice"]
BOUND = [0, 1, 99, 2 ** 31 - 1, 2 ** 32, 2 ** 63 - 1, 2 ** 64 - 1]
D3 = [0, 1, 50]
D6 = [-5, 0, 1, 7, 50, 10 ** 6]
BASE = [50000, 4000, 30000, 900000, 2000, 600, 700, 80, 9000, 100]


def mk_world(seed):
    w = World(ncpus=1)
    w.spawn(1, ppid=0, comm=b"init", start=1)
    w.spawn(w.mypid, ppid=1, comm=b"caller", start=50)
    w.spawn(4321, ppid=w.mypid, comm=b"subject", start=60)
    return w


def set_stat(w, percpu_rows, nf):
    w.ncpus = len(percpu_rows)
    w.cpu_fields = nf
    w.cpu_times = [list(r) + [0] * (10 - len(r)) for r in percpu_rows]
    w.cpu_total_override = None


def kernel_ok(delta, nf):
    """guest time is accounted inside user (guest_nice inside nice)"""
    d = list(delta) + [0] * (10 - len(delta))
    if nf >= 9 and max(d[8], 0) > max(d[0], 0):
        return False
    if nf >= 10 and max(d[9], 0) > max(d[1], 0):
        return False
    return True


def ref_percent(t1, t2, nf):
    d = [max(0, (b - a)) / CLK_TCK for a, b in zip(t1[:nf], t2[:nf])]
    tot = sum(d)
    if nf >= 9:
        tot -= d[8]
    if nf >= 10:
        tot -= d[9]
    busy = tot - d[3] - d[4]
    return d, tot, busy


def check_pair(psutil, w, rows1, rows2, nf, form, blocking, viols, case):
    """rows: per-cpu tick rows. form: 'sys' | 'percpu'"""
    percpu = form == "percpu"
    def call(fn, first):
        if blocking:
            # the snapshot changes while psutil sleeps
            def hook(world, kind, subj, pid):
                if kind == "sleep":
                    set_stat(world, rows2, nf)
            w.hook = hook
            try:
                return outcome(fn, interval=0.25, percpu=percpu)
            finally:
                w.hook = None
        # the non-blocking form is spelled None, 0 or 0.0
        return outcome(fn, interval=(None, 0.0, 0)[(len(rows1) + nf + (0 if first else 1)) % 3], percpu=percpu)
    for name in ("cpu_percent", "cpu_times_percent"):
        fn = getattr(psutil, name)
        set_stat(w, rows1, nf)
        psutil._pslinux.set_scputimes_ntuple.cache_clear()
        for dct in (psutil._last_cpu_times, psutil._last_per_cpu_times, psutil._last_cpu_times_2, psutil._last_per_cpu_times_2):
            dct.clear()
        if blocking:
            got = call(fn, True)
        else:
            call(fn, True)              # first sample
            set_stat(w, rows2, nf)
            got = call(fn, False)
        if got[0] != "ok":
            viols.append(("%s-raised:%s" % (name, got[1]), "%s raised %r (case %r)" % (name, got, case)))
            continue
        if percpu:
            pairs = list(zip(rows1, rows2))
            res = got[1]
        else:
            pairs = [([sum(c) for c in zip(*rows1)], [sum(c) for c in zip(*rows2)])]
            res = [got[1]]
        if len(res) != len(pairs):
            viols.append(("%s:length" % name, "%r for %d cpus" % (freeze(got[1]), len(pairs))))
            continue
        for (t1, t2), r in zip(pairs, res):
            d, tot, busy = ref_percent(t1, t2, nf)
            if name == "cpu_percent":
                exp = 100 * busy / tot if tot > 0 else 0.0
                if not (0.0 <= r <= 100.0) or abs(r - exp) > 0.05 + 1e-9:
                    viols.append(("cpu_percent:value", "got %r expected %r (t1 %r t2 %r, %s, blocking=%s)" % (r, exp, t1[:nf], t2[:nf], form, blocking)))
            else:
                vals = list(r)
                if len(vals) != nf or list(r._fields) != FIELDS[:nf]:
                    viols.append(("cpu_times_percent:fields", "%r" % (freeze(r),)))
                    continue
                sub = "total<1s" if 0 < tot < 1.0 else "total>=1s"
                ok = True
                for f, v, dd in zip(FIELDS, vals, d):
                    exp = 100 * dd / tot if tot > 0 else 0.0
                    exp = min(max(0.0, exp), 100.0)
                    if not (0.0 <= v <= 100.0) or abs(v - exp) > 0.05 + 1e-9:
                        ok = False
                        viols.append(("cpu_times_percent:share:%s" % sub, "%s: got %r expected %r (deltas %r total %r, %s, blocking=%s)"
                                      % (f, v, exp, d, tot, form, blocking)))
                        break
                if ok and tot > 0:
                    s = sum(v for f, v in zip(FIELDS, vals) if f not in ("guest", "guest_nice"))
                    if abs(s - 100.0) > 0.05 * nf + 1e-9:
                        viols.append(("cpu_times_percent:sum:%s" % sub, "shares sum to %r (deltas %r)" % (s, d)))


class _AppError(Exception):
    pass


def _others(p, i):
    """CPU time of reaped children and block-I/O wait also move between two calls: they are not the process's own CPU time"""
    p.stat["cutime"] += 37 * (i + 1)
    p.stat["cstime"] += 41
    p.stat["blkio_ticks"] += 53 + i


def run_case(case, w):
    import psutil
    k = case[0]
    viols = []
    if k == "times":
        rows, nf = case[1], case[2]
        set_stat(w, rows, nf)
        psutil._pslinux.set_scputimes_ntuple.cache_clear()
        got = outcome(psutil.cpu_times, percpu=True)
        exp = [[float(v) / CLK_TCK for v in r[:nf]] for r in rows]
        if got[0] != "ok" or [list(x) for x in got[1]] != exp or any(list(x._fields) != FIELDS[:nf] for x in got[1]):
            viols.append(("cpu_times:percpu", "got %r expected %r" % (freeze(got), exp)))
        got = outcome(psutil.cpu_times)
        tot = [float(sum(c)) / CLK_TCK for c in zip(*[r[:nf] for r in rows])]
        if got[0] != "ok" or list(got[1]) != tot or list(got[1]._fields) != FIELDS[:nf]:
            viols.append(("cpu_times:total", "got %r expected %r" % (freeze(got), tot)))
    elif k == "pair":
        deltas, nf, ncpu, form, blocking = case[1], case[2], case[3], case[4], case[5]
        rows1 = [[b + 1000 * c for b in BASE] for c in range(ncpu)]
        rows2 = [[a + (dl if c == 0 else (dl if dl > 0 else 0) * ((c * 7) % 11 + 1)) for a, dl in zip(r, list(deltas) + [0] * 10)]
                 for c, r in enumerate(rows1)]
        check_pair(psutil, w, rows1, rows2, nf, form, blocking, viols, case)
    elif k == "proc":
        seq = case[1]           # list of (kind 'n'|'b'|'o'|'e'|'x', dproc_ticks_user, dproc_ticks_sys, dwall_s)
        ncpu = case[2]
        w.ncpus = ncpu
        w.cpu_times = None
        p = w.procs[4321]
        p.stat["utime"], p.stat["stime"] = 100, 50
        w.mono = 1000.0
        # the object is a plain Process, a psutil.Popen (over a stub subprocess) or an application's subclass, and the process
        # name contains the stat record's own delimiters -- none of which changes how CPU time is measured
        flavour = (len(seq) + ncpu + sum(int(x[1]) for x in seq)) % 3
        p.comm = (b"plain", b"job (v2) worker", b"a) S 1 2 3 4")[flavour]
        if flavour == 1:
            from vf.checks.procmodel import mk_popen
            pr = mk_popen(psutil, 4321)
        elif flavour == 2:
            from vf.checks.procmodel import _subclass
            pr = _subclass(psutil)(4321)
        else:
            pr = psutil.Process(4321)
        prev = None
        for i, (kind, du, ds, dw) in enumerate(seq):
            if kind == "x":
                # a call that fails (stat refused): it must not disturb what the next call measures against
                w.mono += dw
                p.stat["utime"] += du
                p.stat["stime"] += ds
                _others(p, i)
                p.denied.add("stat")
                got = outcome(pr.cpu_percent, None)
                p.denied.discard("stat")
                if not (got[0] == "exc" and got[1] == "AccessDenied"):
                    viols.append(("Process.cpu_percent:denied-call", repr(got)))
                continue
            if kind in ("n", "o", "e"):
                w.mono += dw
                p.stat["utime"] += du
                p.stat["stime"] += ds
                _others(p, i)
                if kind == "n":
                    got = outcome(pr.cpu_percent, None)
                else:
                    # the same question asked inside a `with oneshot():` block, which the application leaves normally ('o')
                    # or through an exception of its own ('e'): either way the block is over afterwards and later calls
                    # measure the kernel's current counters
                    try:
                        with pr.oneshot():
                            got = outcome(pr.cpu_percent, None)
                            if kind == "e":
                                raise _AppError("application code failed inside the block")
                    except _AppError:
                        pass
                if prev is None:
                    exp = 0.0
                else:
                    wall = w.mono - prev[0]
                    cpu = (p.stat["utime"] + p.stat["stime"] - prev[1]) / CLK_TCK
                    exp = round(100 * cpu / wall, 1) if wall > 0 else 0.0
            else:
                def hook(world, kind_, subj, pid):
                    if kind_ == "sleep":
                        p.stat["utime"] += du
                        p.stat["stime"] += ds
                        _others(p, i)
                w.hook = hook
                try:
                    got = outcome(pr.cpu_percent, dw)
                finally:
                    w.hook = None
                exp = round(100 * ((du + ds) / CLK_TCK) / dw, 1)
            prev = (w.mono, p.stat["utime"] + p.stat["stime"])
            if got[0] != "ok" or abs(got[1] - exp) > 0.051:
                if any(k_ == "x" for k_, *_ in seq[:i]):
                    # after a failed call either baseline (last successful call / the failed call) is acceptable as long as
                    # CPU seconds and wall seconds are taken from the same instant
                    alt_ok = False
                    if got[0] == "ok" and prev is not None:
                        # since the failed call: cpu and wall deltas of this step only
                        exp2 = round(100 * ((du + ds) / CLK_TCK) / dw, 1) if dw > 0 else 0.0
                        alt_ok = abs(got[1] - exp2) <= 0.051
                    if alt_ok:
                        prev = (w.mono, p.stat["utime"] + p.stat["stime"])
                        continue
                viols.append(("Process.cpu_percent:%s" % ("first" if i == 0 else "after-" + seq[i - 1][0] + "-then-" + kind),
                              "call %d of %r (ncpu=%d): got %r expected %r" % (i, seq, ncpu, got, exp)))
                break
        for bad in (-1, -0.001):
            got = outcome(pr.cpu_percent, bad)
            if not (got[0] == "exc" and got[1] == "ValueError"):
                viols.append(("Process.cpu_percent:negative-interval", repr(got)))
    elif k == "other-kernel":
        # a program that turns to the procfs of ANOTHER machine generation (psutil.PROCFS_PATH; fewer / more CPU-time columns)
        # after it has sampled: whatever the first call after the switch answers, the calls after it compare two samples of
        # the new tree and are exact again
        nf1, nf2 = case[1], case[2]
        base = [1000 * (j + 1) for j in range(10)]
        s1 = [[b + d for b, d in zip(base, [10, 0, 5, 85, 0, 0, 0, 0, 0, 0])]]
        s2 = [[b + d for b, d in zip(s1[0], [75, 0, 0, 25, 0, 0, 0, 0, 0, 0])]]
        s3 = [[b + d for b, d in zip(s2[0], [20, 0, 30, 50, 0, 0, 0, 0, 0, 0])]]
        psutil._pslinux.set_scputimes_ntuple.cache_clear()
        for dct in (psutil._last_cpu_times, psutil._last_per_cpu_times, psutil._last_cpu_times_2, psutil._last_per_cpu_times_2):
            dct.clear()
        saved = (w.procfs, psutil.PROCFS_PATH)
        try:
            set_stat(w, [list(base)], nf1)
            outcome(psutil.cpu_percent, None)
            outcome(psutil.cpu_times_percent, None)
            set_stat(w, s1, nf1)
            outcome(psutil.cpu_percent, None)
            w.procfs = "/mnt/other-generation/proc"
            psutil.PROCFS_PATH = w.procfs
            set_stat(w, s1, nf2)
            outcome(psutil.cpu_percent, None)            # (first call after the switch: not judged)
            outcome(psutil.cpu_times_percent, None)
            for a, b in ((s1, s2), (s2, s3)):
                set_stat(w, b, nf2)
                got = outcome(psutil.cpu_percent, None)
                d, tot, busy = ref_percent(a[0], b[0], nf2)
                exp = round(100.0 * busy / tot, 1)
                if got[0] != "ok" or abs(got[1] - exp) > 0.05 + 1e-9:
                    viols.append(("cpu_percent:after-turning-to-another-procfs", "%d -> %d columns: got %r expected %r" % (nf1, nf2, got, exp)))
                got = outcome(psutil.cpu_times_percent, None)
                if got[0] != "ok" or len(got[1]) != nf2:
                    viols.append(("cpu_times_percent:after-turning-to-another-procfs", "%d -> %d columns: got %r" % (nf1, nf2, freeze(got))))
        finally:
            w.procfs, psutil.PROCFS_PATH = saved
            psutil._pslinux.set_scputimes_ntuple.cache_clear()
    elif k == "foreign":
        # a thread that was not created through the threading module (C extension / embedding / _thread.start_new_thread)
        # is a calling thread like any other: measured against ITS OWN previous sample, whatever other threads do in between
        import _thread
        import threading
        nf = 10
        base = [1000 * (j + 1) for j in range(10)]
        snaps = [[[b + st * dlt for b, dlt in zip(base, dl)]] for st, dl in enumerate(
            [[0] * 10, [10, 0, 5, 85, 0, 0, 0, 0, 0, 0], [40, 0, 5, 55, 0, 0, 0, 0, 0, 0]])]
        # cumulative: snapshot k = base + k * delta_k is not cumulative; build explicitly
        s0 = [list(base)]
        s1 = [[b + d for b, d in zip(base, [10, 0, 5, 85, 0, 0, 0, 0, 0, 0])]]
        s2 = [[b + d for b, d in zip(s1[0], [75, 0, 0, 25, 0, 0, 0, 0, 0, 0])]]
        psutil._pslinux.set_scputimes_ntuple.cache_clear()
        for dct in (psutil._last_cpu_times, psutil._last_per_cpu_times, psutil._last_cpu_times_2, psutil._last_per_cpu_times_2):
            dct.clear()
        go, back = threading.Semaphore(0), threading.Semaphore(0)
        res = []

        def raw_thread():
            try:
                for _ in range(3):
                    go.acquire()
                    res.append((outcome(psutil.cpu_percent, None), outcome(psutil.cpu_percent, None, True)))
                    back.release()
            finally:
                back.release()
        set_stat(w, s0, nf)
        _thread.start_new_thread(raw_thread, ())
        for snap in (s0, s1, s2):
            set_stat(w, snap, nf)
            outcome(psutil.cpu_percent, None)            # the main thread samples in between (its own history)
            outcome(psutil.cpu_times_percent, None)
            go.release()
            if not back.acquire(timeout=30):
                viols.append(("foreign-thread:no-answer", "raw thread did not answer"))
                break
        # raw thread: call 0 first sample (0.0), call 1 measures s0->s1 (busy 15/100), call 2 s1->s2 (75/100)
        exp = [0.0, 15.0, 75.0]
        for i, r in enumerate(res[:3]):
            a, b = r
            if a[0] != "ok" or abs(a[1] - exp[i]) > 0.051:
                viols.append(("foreign-thread:cpu_percent", "call %d from a thread not created by threading -> %r expected %r" % (i, a, exp[i])))
            if b[0] != "ok" or len(b[1]) != 1 or abs(b[1][0] - exp[i]) > 0.051:
                viols.append(("foreign-thread:cpu_percent-percpu", "call %d -> %r expected [%r]" % (i, b, exp[i])))
    elif k == "neg":
        for fn in (psutil.cpu_percent, psutil.cpu_times_percent):
            got = outcome(fn, interval=-1)
            if not (got[0] == "exc" and got[1] == "ValueError"):
                viols.append(("negative-interval-accepted", repr(got)))
    return viols


def worker(chunk):
    seed, cases = chunk
    w = mk_world(seed)
    use_world(w)
    w.logging = False
    return [guarded(run_case, c, w) for c in cases]


def build_cases(thorough):
    cases = [("neg",), ("foreign",), ("other-kernel", 10, 8), ("other-kernel", 8, 10), ("other-kernel", 10, 9)]
    # scale: the per-CPU section of /proc/stat longer than one read buffer (hundreds of CPUs, long-uptime counters)
    big = [[10 ** 11 + (c + 1) * 100003 + 7 * i for i in range(10)] for c in range(600)]
    cases.append(("times", big, 10))
    cases.append(("pair", [5, 0, 3, 40, 0, 0, 0, 0, 0, 0], 10, 600, "percpu", False))
    for nf in (8, 10):
        rows12 = [[(c + 1) * 1000 + 7 * i for i in range(10)] for c in range(12)]
        cases.append(("times", rows12, nf))
        d12 = [5, 0, 3, 40, 0, 0, 0, 0, 0, 0][:nf]
        cases.append(("pair", d12, nf, 12, "percpu", False))
        cases.append(("pair", d12, nf, 12, "percpu", True))
    for ncpu in (1, 2, 3):
        for nf in (7, 8, 9, 10):
            cases.append(("times", [[(c + 1) * 1000 + 7 * i for i in range(10)] for c in range(ncpu)], nf))
            for col in range(nf):
                for v in BOUND:
                    rows = [[(c + 1) * 1000 + 7 * i for i in range(10)] for c in range(ncpu)]
                    rows[-1][col] = v
                    cases.append(("times", rows, nf))
    # complete 3-valued product of deltas for each field count
    forms = [("sys", False), ("percpu", False), ("percpu", True), ("sys", True)]
    for nf in (7, 8, 9, 10):
        for deltas in itertools.product(D3, repeat=nf):
            if not kernel_ok(deltas, nf):
                continue
            if nf < 10 and not thorough and sum(1 for d in deltas if d) > 3:
                continue
            form, blocking = forms[(sum(deltas) + nf) % 4] if not thorough else ("percpu", False)
            cases.append(("pair", list(deltas), nf, 2 if form == "percpu" else 1, form, blocking))
            if thorough:
                cases.append(("pair", list(deltas), nf, 1, "sys", True))
    # all 6 values: one field at a time and every pair of fields (others 0 / idle 50)
    for nf in (10, 8):
        for i, j in itertools.combinations_with_replacement(range(nf), 2):
            for vi, vj in itertools.product(D6, repeat=2):
                d = [0] * nf
                d[3] = 50
                d[i] = vi
                d[j] = vj if j != i else vi
                if not kernel_ok(d, nf):
                    continue
                for form, blocking in forms:
                    cases.append(("pair", d, nf, 2 if form == "percpu" else 1, form, blocking))
    # Process.cpu_percent: sequences of 3 calls over a grid
    grid = [(0, 0, 0.5), (10, 5, 0.5), (50, 0, 0.25), (0, 200, 1.0), (30, 30, 2.0)]
    for ncpu in (1, 4):
        for gs in ((grid[1], grid[2], grid[3]), (grid[3], grid[4], grid[1])):
            cases.append(("proc", [("n",) + gs[0], ("x",) + gs[1], ("n",) + gs[2]], ncpu))
            cases.append(("proc", [("b",) + gs[0], ("x",) + gs[1], ("n",) + gs[2], ("n",) + gs[0]], ncpu))
    kinds = ["n", "b", "o", "e"]
    for ncpu in (1, 16):
        for ks in itertools.product(kinds, repeat=3):
            for gs in itertools.product(grid, repeat=3) if thorough else [(grid[1], grid[2], grid[3]), (grid[0], grid[4], grid[1]), (grid[3], grid[0], grid[2])]:
                cases.append(("proc", [(k,) + g for k, g in zip(ks, gs)], ncpu))
    return cases


def run(ctx):
    cases = build_cases(ctx.thorough)
    if ctx.alt:
        # second pass with procfs mounted elsewhere: every kind of case, one snapshot pair in eight, no schedules
        cases = [c for i, c in enumerate(cases) if c[0] != "pair" or i % 8 == 0]
    n = max(1, len(cases) // (ctx.ncpu * 6))
    chunks = [(ctx.seed, cases[i:i + n]) for i in range(0, len(cases), n)]
    res = [r for ch in ctx.pmap_fresh(worker, chunks) for r in ch]
    viols, kinds = [], {}
    for _i, (c, bad) in enumerate(zip(cases, res)):
        kinds[c[0]] = kinds.get(c[0], 0) + 1
        for cause, msg in bad:
            viols.append({"cause": cause, "msg": msg, "case": list(c), "_idx": _i})
    from vf.checks import c07s
    ctx.close()
    sres = c07s.run_s(ctx) if not ctx.alt else {"violations": [], "coverage": {"executions": 0, "distinct_outcome_vectors": 0}}
    viols += sres["violations"]
    cov = {"schedules": sres["coverage"], "evaluations": len(cases) + sres["coverage"]["executions"],
           "distinct_nontrivial": len({repr(c) for c in cases}) + sres["coverage"]["distinct_outcome_vectors"],
           "rule": "one evaluation = one /proc/stat content (cpu_times) or one pair of snapshots (both percentage functions) or one "
                   "3-call sequence of Process.cpu_percent in virtual time; distinct by construction",
           "per_dimension": kinds, "delta_values": {"product": D3, "pairs": D6}, "exhaustive": True,
           "samples": [list(c) for c in sample(cases, 6)]}
    return {"coverage": cov, "violations": add_histories(viols, cases, n, list),
            "assumptions": ["kernel invariant: guest time is contained in user time (dguest <= duser, dguest_nice <= dnice)",
                            "100 ticks per second"]}


def replay(ctx, case):
    if isinstance(case, dict) and case.get("part") == "S":
        from vf.checks import c07s
        return c07s.replay_s(ctx, case)
    w = mk_world(ctx.seed)
    use_world(w)
    for c in history_of(case):
        c = list(c)
        if c[0] == "proc":
            c[1] = [tuple(x) for x in c[1]]
        bad = guarded(run_case, tuple(c), w)
    return {"violated": bool(bad), "viols": bad}
