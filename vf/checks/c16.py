"""C16 — oneshot() and as_dict() change speed, never answers; safe across threads.
H: explicit-state BFS over enter/exit/nested/exception/call/bump/zombie/deny/vanish/as_dict
histories on one object (vf.checks.c16h);  S: thread interleavings (vf.checks.c16s)."""
from vf.checks import c16h
from vf.explore.history import bfs
from vf.harness import sample

ID = "C16"
LEVEL = "model_checking"
ALT_MOUNT = True


def run(ctx):
    c16h._CFG = c16h.Cfg(ctx.seed, ctx.thorough)
    depth = (6 if ctx.thorough else 5) - (2 if ctx.alt else 0)
    res = bfs(c16h.run_h, depth, ctx)
    viols = res["violations"]
    for v in viols:
        v["case"]["part"] = "H"
    cov = {
        "states": res["states"], "transitions": res["transitions"],
        "traces_validated_against_impl": res["transitions"],
        "max_depth": res["max_depth"], "new_states_per_level": res["new_states_per_level"],
        "distinct_outcomes": len(res["labels"]), "outcome_counts": res["labels"],
        "samples": sample(res["samples"], 8),
        "exhaustive": res["capped"] is None, "capped": res["capped"],
        "alphabet": {"methods": c16h._CFG.methods, "as_dict": c16h._CFG.asdict,
                     "other": ["enter", "exit", "exit_exc", "bump(stat|status|smaps|statm)", "zombie", "deny/allow(status)", "vanish"]},
    }
    try:
        from vf.checks import c16s
    except ImportError:
        c16s = None
    if c16s is not None and not ctx.alt:
        s = c16s.run_s(ctx)
        viols += s["violations"]
        cov["schedules"] = s["coverage"]
        cov["states"] += s["coverage"].get("states", 0)
        cov["transitions"] += s["coverage"].get("transitions", 0)
        cov["traces_validated_against_impl"] += s["coverage"].get("executions", 0)
    return {"coverage": cov, "violations": viols,
            "assumptions": ["each record carries its version so that 'which read produced this value' is observable",
                            "statm is not one of the shared cached sources the statement lists: first-read or current version accepted"]}


def replay(ctx, case):
    if case.get("part") == "S":
        from vf.checks import c16s
        return c16s.replay_s(ctx, case)
    c16h._CFG = c16h.Cfg(ctx.seed, ctx.thorough)
    ex = c16h.Exec(c16h._CFG)
    trace = []
    for ev in case["history"]:
        ex.apply(ev)
        trace.append([ev, ex.label, [v["cause"] for v in ex.viols]])
    return {"violated": bool(ex.viols), "trace": trace, "viols": ex.viols}
