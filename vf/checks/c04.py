"""C04 — pids(), pid_exists() and process_iter() give one coherent, cached list.
Explorer H: histories of process-table changes (spawn / zombie / reap / die /
thread creation) interleaved with full iterations, partially consumed
generators, cache_clear() and is_running() on yielded objects.  pids() and
pid_exists(n) are evaluated in *every* reached state."""
from vf.explore.history import bfs
from vf.harness import use_world, outcome, sample, residue, ModuleResidue
from vf.simk.world import World, CLK_TCK

ID = "C04"
LEVEL = "model_checking"
ALT_MOUNT = True
_CFG = None
ATTRS = {"none": None, "np": ("name", "ppid"), "n": {"name"}, "e": ()}          # (attrs as a tuple and as a set: any collection is documented)


class Cfg:
    def __init__(self, seed, thorough, noctx=False):
        self.noctx = noctx            # a kernel whose status records lack the context-switch lines: num_ctx_switches() is "not implemented"
        base = 900 + (seed % 9) * 17
        # (B's pid lies above the kernel's DEFAULT pid_max of 32768: pids go up to 4194304 when pid_max is raised)
        self.pid = {"A": base, "B": base + 40005, "C": base + 11}
        self.tid = base + 3           # a thread id of A, between A and B
        self.absent = base + 7
        self.slots = ("A", "B", "C") if thorough else ("A", "B")
        self.max_gens = 2 if thorough else 1
        self.attrs = ("none", "np", "e") if not thorough else ("none", "np", "n", "e")
        self.thorough = thorough


class Exec:
    def __init__(self, cfg):
        import psutil
        self.ps = psutil
        self.cfg = cfg
        w = World(ncpus=2)
        w.spawn(1, ppid=0, comm=b"init", start=1)
        w.spawn(w.mypid, ppid=1, comm=b"caller", start=50)
        self.w = w
        w.status_noctx = cfg.noctx
        w.listing_reversed = cfg.noctx          # ... and whose /proc listing does not come in ascending pid order (lxcfs, a FUSE view)
        use_world(w)
        self.modres = ModuleResidue([psutil, psutil._pslinux, psutil._common, psutil._psposix],
                                    known=("_pmap", "_pids_reused", "_LOWEST_PID"))
        self.gens = []          # live generators: dict(g=gen, listed=set|None, yielded=[pids], attrs=key)
        self.held = {}          # pid -> (object, incarnation uid) yielded by the last complete iteration
        self.ref = None         # reference cache: pid -> object   (None = unknown, identity not required)
        self.flagged = set()    # pids whose cached object is_running() reported as recycled
        self.stale = {}         # pid -> the object found recycled by is_running()
        self.seen_gone_then_recycled = {}
        self.must_be_fresh = {}  # pid -> cached object whose process an (un-overlapped) iteration saw vanish
        self.viols = []
        self.label = ""

    def viol(self, cause, msg):
        self.viols.append({"cause": cause, "msg": msg})

    def enabled(self):
        c, w = self.cfg, self.w
        ev = []
        for s in c.slots:
            p = w.procs.get(c.pid[s])
            if p is None:
                ev.append(["spawn", s])
            else:
                ev.append(["die", s])
                ev.append(["exit", s] if not p.zombie else ["reap", s])
        pa = w.procs.get(c.pid["A"])
        if pa is not None and not pa.zombie and c.tid not in w.tids:
            ev.append(["thread"])
        for a in c.attrs:
            ev.append(["iter", a])
        ev.append(["clear"])
        if not self.gens and getattr(c, "badattr", True):
            ev.append(["badattr"])
        for s in c.slots:
            if c.pid[s] in self.held:
                ev.append(["isr", s])
        if len(self.gens) < c.max_gens:
            ev.append(["gstart", "none"])
            ev.append(["gstart", "np"])
        for i in range(len(self.gens)):
            ev.append(["gnext", i])
            ev.append(["gclose", i])
        return ev

    # -- reference
    def listed(self):
        return sorted(self.w.procs)

    def check_yield(self, proc, attrs_key, where):
        attrs = ATTRS[attrs_key]
        if attrs is None:
            if hasattr(proc, "info") and False:
                pass
        else:
            info = getattr(proc, "info", None)
            want = set(attrs) if len(attrs) else set(self.ps._as_dict_attrnames)      # an empty collection asks for everything
            if not len(attrs) and self.cfg.noctx:
                want = want - {"num_ctx_switches"}       # (what the platform does not implement is left out of "everything")
            if not isinstance(info, dict) or set(info) != want:
                self.viol("info-keys", "%s: pid %d info=%r, requested %r" % (where, proc.pid, info, attrs))

    def apply(self, ev):
        ps, w, c = self.ps, self.w, self.cfg
        self.viols = []
        k = ev[0]
        lab = k
        if k == "spawn":
            w.tick(1)
            w.spawn(c.pid[ev[1]], ppid=1, comm={"A": b"Tgid:\t%d" % c.tid, "B": b"Tgid:\t1"}.get(ev[1], b"p" + ev[1].encode()))
        elif k == "exit":
            w.exit(c.pid[ev[1]])
        elif k == "reap":
            w.reap(c.pid[ev[1]])
        elif k == "die":
            w.vanish(c.pid[ev[1]])
        elif k == "thread":
            w.tids[c.tid] = w.procs[c.pid["A"]]
        elif k == "clear":
            out = outcome(ps.process_iter.cache_clear)
            if out[0] != "ok":
                self.viol("cache_clear-raised", repr(out))
            if self.ref is not None:
                self.ref = {}
            for st in self.gens:
                if st["listed"] is None:
                    if st["ref0"] is not None:
                        st["ref0"] = {}          # the generator body has not run yet: it will copy the emptied cache
                else:
                    st["overlap"] = True         # what a running iteration writes back after a clear is unspecified
            self.flagged.clear()
            if not self.gens and ps._pmap:
                self.viol("cache_clear-not-empty", "_pmap still has %r" % sorted(ps._pmap))
        elif k == "isr":
            pid = c.pid[ev[1]]
            obj, uid = self.held[pid]
            was_gone = obj._gone
            out = outcome(obj.is_running)
            p = w.procs.get(pid)
            exp = p is not None and p.uid == uid
            lab = "isr:%r" % (out[1],)
            if out != ("ok", exp):
                self.viol("is_running", "is_running() of yielded object pid %d -> %r, expected %r" % (pid, out, exp))
            if out == ("ok", False) and p is not None and p.uid != uid:
                if was_gone:
                    # the object had already been seen gone while the pid was free; is_running() answers from
                    # that cached fact and cannot notice the later recycling
                    self.seen_gone_then_recycled[pid] = obj
                else:
                    self.flagged.add(pid)      # psutil has now *found* the pid recycled
                    self.stale[pid] = obj
        elif k == "badattr":
            # a call that fails on a misspelt attribute name: the caller gets its ValueError, and whatever the call had already noted
            # (entries found recycled, entries gone) must not be lost for the iterations that follow
            out = outcome(lambda: list(ps.process_iter(attrs=["name", "no_such_attr"])))
            lab = "badattr:%s" % (out[1] if out[0] == "exc" else "ok")
            if w.procs and not (out[0] == "exc" and out[1] == "ValueError"):
                self.viol("invalid-attr-name-accepted", "process_iter(attrs=['name', 'no_such_attr']) -> %r" % (out,))
            self.ref = None           # (which entries the failed call has already refreshed is not specified)
        elif k == "iter":
            lab = self.do_full_iter(ev[1])
        elif k == "gstart":
            g = ps.process_iter(attrs=ATTRS[ev[1]])
            for st in self.gens:
                st["overlap"] = True
            self.gens.append({"g": g, "listed": None, "yielded": [], "attrs": ev[1], "alive_all": None,
                              "ref0": self.ref, "overlap": bool(self.gens), "objs": {}})
            self.ref = None
        elif k == "gnext":
            lab = self.do_gnext(ev[1])
        elif k == "gclose":
            st = self.gens.pop(ev[1])
            out = outcome(st["g"].close)
            if out[0] != "ok":
                self.viol("gen-close-raised", repr(out))
            self.ref = None
            self.gen_done(st)
        else:
            raise AssertionError(ev)
        # processes that left the table are no longer "alive throughout" any running iteration
        for st in self.gens:
            if st["listed"] is not None:
                st["alive_all"] &= {pid for pid in st["alive_all"] if w.procs.get(pid) is not None
                                    and w.procs[pid].uid == st["uids"].get(pid)}
        self.label = lab
        self.state_invariants()

    def gen_done(self, st):
        """a generator that never overlapped another iteration is an iteration like any other: what it yielded (and
        what it inherited) is the cache the next iteration must start from; what it saw vanish must be dropped"""
        if st["overlap"] or self.gens:
            return
        if st["listed"] is None:
            self.ref = st["ref0"]          # never started: nothing changed
            return
        if st["ref0"] is not None:
            ref = {pid: o for pid, o in st["ref0"].items() if pid in st["listed"]}
            ref.update(st["objs"])
            for pid in st.get("vanished", ()):
                ref.pop(pid, None)
            self.ref = ref
        for pid in st.get("vanished", ()):
            if pid in self.held:
                self.must_be_fresh[pid] = self.held[pid][0]

    def do_full_iter(self, akey):
        ps, w = self.ps, self.w
        for st in self.gens:
            st["overlap"] = True
        listed = self.listed()
        uids = {pid: w.procs[pid].uid for pid in listed}
        pre_reused = set(ps._pids_reused)
        pre_stale = {pid for pid, o in ps._pmap.items() if pid in w.procs and o._ident[1] is not None and
                     o._ident[1] != w.procs[pid].start / CLK_TCK + w.btime}
        out = outcome(lambda: list(ps.process_iter(attrs=ATTRS[akey])))
        if out[0] != "ok":
            self.viol("iter-raised:%s" % out[1], "process_iter() raised %r" % (out,))
            self.ref = None
            return "iter:" + out[1]
        procs = out[1]
        pids = [p.pid for p in procs]
        lab = "iter:ok"
        if pids != sorted(set(pids)):
            self.viol("iter-order", "yielded %r" % (pids,))
        missing = [p for p in listed if p not in pids]
        extra = [p for p in pids if p not in listed]
        if extra:
            self.viol("iter-extra", "yielded unlisted pids %r (listed %r)" % (extra, listed))
        if missing:
            # cache entries that stood for a previous owner of a (recycled) pid when the iteration started
            stale = [p for p in missing if p in self.flagged or p in pre_reused or p in pre_stale or
                     (p in self.held and self.held[p][1] != uids[p])]
            if len(stale) == len(missing):
                self.viol("iter-omits-recycled-pid-once",
                          "process_iter() did not yield listed pid(s) %r: the cached entry stood for the previous owner of the "
                          "pid; when the recycling is noticed (is_running() before, or ppid() via attrs during the iteration) "
                          "the entry is dropped but no fresh one is created in that same iteration" % (stale,))
                lab = "iter:omitted-recycled"
            else:
                self.viol("iter-missing", "listed %r, yielded %r" % (listed, pids))
        for p in procs:
            self.check_yield(p, akey, "iter")
        overlapping = bool(self.gens)
        if not overlapping:
            for p in procs:
                if self.must_be_fresh.get(p.pid) is p:
                    self.viol("vanished-entry-not-dropped",
                              "pid %d: an earlier iteration saw this process vanish, yet the same cached object is yielded again "
                              "after the pid was recycled" % p.pid)
                if self.seen_gone_then_recycled.get(p.pid) is p:
                    self.viol("entry-seen-gone-then-pid-recycled-is-never-replaced",
                              "pid %d: process_iter() keeps yielding a cached object whose is_running() is False for a pid that now "
                              "belongs to a live process (the object was seen gone while the pid was free, no iteration ran in between)" % p.pid)
                if self.stale.get(p.pid) is p:
                    self.viol("entry-found-recycled-is-yielded-again",
                              "pid %d: the object on which is_running() reported the recycling is yielded again by a later, "
                              "non-overlapped process_iter()" % p.pid)
        if self.ref is not None and not overlapping:
            for p in procs:
                old = self.ref.get(p.pid)
                if p.pid in self.flagged:
                    if old is not None and p is old:
                        self.viol("flagged-entry-not-replaced", "pid %d still yields the object found recycled" % p.pid)
                elif old is not None:
                    # the pid was listed at the previous iteration too
                    oh = self.held.get(p.pid)
                    same_inc = oh is not None and oh[1] == uids[p.pid]
                    if same_inc and p is not old:
                        self.viol("identity-lost", "pid %d stayed listed (same process) but a different object was yielded" % p.pid)
        # new reference cache
        if not overlapping:
            self.ref = {p.pid: p for p in procs}
        else:
            self.ref = None
        self.held = {}
        for p in procs:
            if p.pid in uids:
                # which incarnation does the yielded object stand for?  a cached object keeps its own
                prev_uid = getattr(p, "_vf_uid", None)
                if prev_uid is None:
                    p._vf_uid = uids[p.pid]
                self.held[p.pid] = (p, p._vf_uid)
        self.flagged -= set(pids)
        self.flagged &= set(listed)
        # a complete iteration has now acted on every recycling found so far; what an overlapping generator
        # writes back later is outside the statement (Reading: non-overlapping iterations only)
        self.stale.clear()
        self.must_be_fresh = {}
        return lab

    def do_gnext(self, i):
        ps, w = self.ps, self.w
        st = self.gens[i]
        first = st["listed"] is None
        if first:
            st["listed"] = set(self.listed())
            st["uids"] = {pid: w.procs[pid].uid for pid in st["listed"]}
            st["alive_all"] = set(st["listed"])
            st["flagged0"] = set(self.flagged) | set(ps._pids_reused) | {
                pid for pid, o in ps._pmap.items() if pid in w.procs and o._ident[1] is not None and
                o._ident[1] != w.procs[pid].start / CLK_TCK + w.btime}
        out = outcome(next, st["g"])
        self.ref = None
        if out[0] == "exc":
            if out[1] != "StopIteration":
                self.viol("gen-raised:%s" % out[1], "next(process_iter) raised %r" % (out,))
            self.gens.pop(i)
            st["vanished"] = [p for p in sorted(st["listed"]) if p not in st["yielded"] and p not in st["alive_all"]]
            self.gen_done(st)
            # exhausted: must have covered every pid listed at its start that stayed alive
            miss = [p for p in sorted(st["alive_all"]) if p not in st["yielded"] and p not in st["flagged0"]]
            known = [p for p in sorted(st["alive_all"]) if p not in st["yielded"] and p in st["flagged0"]]
            if known:
                self.viol("iter-omits-recycled-pid-once",
                          "generator did not yield listed pid(s) %r whose cached entry stood for the previous owner of the pid" % (known,))
            if miss:
                self.viol("gen-missing", "generator listed %r at start, yielded %r; %r stayed alive throughout"
                          % (sorted(st["listed"]), st["yielded"], miss))
            return "gnext:stop"
        p = out[1]
        if st["yielded"] and p.pid <= st["yielded"][-1]:
            self.viol("gen-order", "yielded %d after %r" % (p.pid, st["yielded"]))
        if p.pid not in st["listed"]:
            self.viol("gen-extra", "yielded pid %d not listed at generator start %r" % (p.pid, sorted(st["listed"])))
        st["yielded"].append(p.pid)
        st["objs"][p.pid] = p
        if st["ref0"] is not None and not st["overlap"] and len(self.gens) == 1:
            old = st["ref0"].get(p.pid)
            oh = self.held.get(p.pid)
            if old is not None and oh is not None and oh[1] == st["uids"].get(p.pid) and p is not old and p.pid not in st["flagged0"]:
                self.viol("identity-lost", "pid %d stayed listed (same process) but the generator yielded a different object" % p.pid)
        self.check_yield(p, st["attrs"], "gnext")
        return "gnext:ok"

    def state_invariants(self):
        ps, w, c = self.ps, self.w, self.cfg
        out = outcome(ps.pids)
        if out != ("ok", self.listed()):
            self.viol("pids", "pids() -> %r, table %r" % (out, self.listed()))
        probes = [-1, 0, c.pid["A"], c.pid["B"], c.pid["C"], c.tid, c.absent, 2 ** 31 - 1, 2 ** 31, 2 ** 64]
        for n in probes:
            exp = n in w.procs
            out = outcome(ps.pid_exists, n)
            if out != ("ok", exp):
                if out[0] == "exc" and n >= 2 ** 31:
                    self.viol("pid_exists-raises-beyond-pid_t:%s" % out[1], "pid_exists(%d) raised %r" % (n, out))
                else:
                    what = "tid" if n == c.tid else "pid"
                    self.viol("pid_exists:%s" % what, "pid_exists(%d) -> %r, expected %r (table %r, tids %r)"
                              % (n, out, exp, self.listed(), sorted(w.tids)))

    def canon(self):
        ps, w, c = self.ps, self.w, self.cfg
        slots = {}
        uids = set()
        for s in c.slots:
            p = w.procs.get(c.pid[s])
            slots[s] = None if p is None else ["Z" if p.zombie else "R", p.uid]
            if p is not None:
                uids.add(p.uid)
        objs = {}

        def tok(o):
            p = w.procs.get(o.pid)
            m = None if p is None else (o._ident[1] == p.start / CLK_TCK + w.btime)
            return [o.pid, m, o._gone, o._pid_reused, getattr(o, "_vf_uid", None) is not None and
                    (p is not None and p.uid == o._vf_uid),
                    residue(o, ("_pid", "_gone", "_pid_reused", "_ident", "_create_time", "_proc", "_lock", "_hash", "_exitcode", "info",
                                "_name")), o._name is not None, sorted(getattr(o, "info", None) or ()),
                    residue(o._proc, ("pid", "_procfs_path", "_name")), o._proc._name is not None]
        pm = {pid: tok(o) + [self.ref is not None and self.ref.get(pid) is o,
                             pid in self.held and self.held[pid][0] is o]
              for pid, o in sorted(ps._pmap.items())}
        held = {pid: tok(o) for pid, (o, u) in sorted(self.held.items())}
        gens = []
        for st in self.gens:
            g = st["g"]
            fl = g.gi_frame.f_locals if g.gi_frame is not None else {}
            gens.append({"attrs": st["attrs"], "started": st["listed"] is not None, "ov": st["overlap"],
                         "ref0": None if st["ref0"] is None else sorted(st["ref0"]),
                         "listed": sorted(st["listed"]) if st["listed"] is not None else None,
                         "alive": sorted(st["alive_all"]) if st["alive_all"] is not None else None,
                         "yielded": st["yielded"],
                         "pmap": {pid: tok(o) + [ps._pmap.get(pid) is o] for pid, o in sorted(fl.get("pmap", {}).items())},
                         "ls": [x[0] for x in fl.get("ls", [])]})
        rel = {u: i for i, u in enumerate(sorted(uids))}
        return {"slots": {s: (None if v is None else [v[0], rel[v[1]]]) for s, v in slots.items()},
                "tid": c.tid in w.tids, "pmap": pm, "held": held, "gens": gens,
                "reused": sorted(ps._pids_reused), "flagged": sorted(self.flagged),
                "mbf": {pid: ps._pmap.get(pid) is o for pid, o in sorted(self.must_be_fresh.items())},
                "sgr": {pid: ps._pmap.get(pid) is o for pid, o in sorted(self.seen_gone_then_recycled.items())},
                "stale": {pid: [ps._pmap.get(pid) is o, any(fl_pmap_has(st, pid, o) for st in self.gens)] for pid, o in sorted(self.stale.items())},
                "ref": None if self.ref is None else sorted(self.ref), "modules": self.modres.diff()}


def ps_cached(obj):
    return True


def fl_pmap_has(st, pid, o):
    g = st["g"]
    fl = g.gi_frame.f_locals if g.gi_frame is not None else {}
    return fl.get("pmap", {}).get(pid) is o


def run_h(history):
    ex = Exec(_CFG)
    for ev in history:
        ex.apply(ev)
    return {"key": ex.canon(), "enabled": ex.enabled(), "viols": list(ex.viols), "label": ex.label}


# ---------------------------------------------------------------- F part
# process-table changes *during* a call: every OS access of pid_exists(n) /
# pids() / a complete process_iter(attrs) x {vanish, zombie} (+ all pairs)
F_OPS = ["pid_exists:A", "pid_exists:B", "pid_exists:tid", "pids", "iter:none", "iter:np", "iter:n"]


def f_world(cfg):
    w = World(ncpus=2)
    w.spawn(1, ppid=0, comm=b"init", start=1)
    w.spawn(w.mypid, ppid=1, comm=b"caller", start=50)
    for s in ("A", "B", "C"):
        w.tick(1)
        w.spawn(cfg.pid[s], ppid=1, comm={"A": b"Tgid:\t%d" % cfg.tid, "B": b"Tgid:\t1"}.get(s, b"p" + s.encode()))
    w.tids[cfg.tid] = w.procs[cfg.pid["A"]]
    return w


def f_apply(world, dev, kind, subj, pid):
    if pid in world.tids:
        pid = world.tids[pid].pid
    if dev == "vanish":
        world.vanish(pid)
    elif dev == "zombie":
        if pid in world.procs and not world.procs[pid].zombie:
            world.exit(pid)
    elif dev == "dying":
        if pid in world.procs:
            world.procs[pid].dying = True          # entries open, every read answers ESRCH
    elif dev == "halfgone":
        # the window of psutil issue 2418: the entry is still listed, the files inside it already answer ENOENT
        if pid in world.procs:
            world.procs[pid].halfgone = True


def f_run(arg):
    op, plan, warm = arg
    import psutil
    from vf.explore.deviate import PlanHook
    cfg = _CFG
    w = f_world(cfg)
    use_world(w)
    if warm:
        list(psutil.process_iter())          # populate the cache first
    listed0 = sorted(w.procs)
    hook = PlanHook(plan, f_apply)
    w.hook = hook
    w.logging = False
    if op.startswith("pid_exists:"):
        k = op.split(":")[1]
        n = cfg.tid if k == "tid" else cfg.pid[k]
        out = outcome(psutil.pid_exists, n)
    elif op == "pids":
        out = outcome(psutil.pids)
    else:
        akey = op.split(":")[1]
        out = outcome(lambda: [(p.pid, getattr(p, "info", None)) for p in psutil.process_iter(attrs=ATTRS[akey])])
    w.hook = None
    listed1 = sorted(p_ for p_ in w.procs if not getattr(w.procs[p_], "halfgone", False) and not getattr(w.procs[p_], "dying", False))      # a half-gone entry is as good as gone
    v = None
    if out[0] != "ok":
        v = ("f:%s-raised:%s" % (op.split(":")[0], out[1]), "%s raised %r under %r at %r"
             % (op, out, hook.applied, [hook.accesses[i] for i, _ in hook.applied]))
    elif op.startswith("pid_exists:"):
        k = op.split(":")[1]
        n = cfg.tid if k == "tid" else cfg.pid[k]
        ok = {n in listed0, n in listed1} if k != "tid" else {False}
        if out[1] not in ok:
            v = ("f:pid_exists-value", "%s -> %r, table before %r after %r" % (op, out[1], listed0, listed1))
    elif op == "pids":
        if out[1] != sorted(out[1]) or not (set(listed1) <= set(out[1]) <= set(listed0)):
            v = ("f:pids-value", "pids() -> %r, table before %r after %r" % (out[1], listed0, listed1))
    else:
        pids = [x[0] for x in out[1]]
        akey = op.split(":")[1]
        if pids != sorted(set(pids)) or not (set(pids) <= set(listed0)):
            v = ("f:iter-order-or-extra", "yielded %r, table before %r" % (pids, listed0))
        elif not (set(listed1) <= set(pids)):
            v = ("f:iter-missing-live", "yielded %r but %r stayed listed throughout" % (pids, listed1))
        elif ATTRS[akey] is not None:
            for pid_, info in out[1]:
                if not isinstance(info, dict) or set(info) != set(ATTRS[akey]):
                    v = ("f:info-keys", "pid %d info %r" % (pid_, info))
    return {"accesses": hook.accesses, "viol": v, "label": "%s:%s" % (op.split(":")[0], out[0] if out[0] == "ok" else out[1])}


def f_part(ctx):
    tasks = []
    for op in F_OPS:
        for warm in (False, True):
            base = f_run((op, (), warm))
            tasks.append((op, (), warm))
            n = len(base["accesses"])
            singles = [(i, d) for i in range(n) if base["accesses"][i][2] is not None for d in ("vanish", "zombie", "halfgone", "dying")]
            for sd in singles:
                tasks.append((op, (sd,), warm))
            # pairs: second deviation at a later access of the *re-run*
            for sd in singles:
                r1 = f_run((op, (sd,), warm))
                for j in range(sd[0] + 1, len(r1["accesses"])):
                    if r1["accesses"][j][2] is not None:
                        for d2 in ("vanish", "zombie"):
                            tasks.append((op, (sd, (j, d2)), warm))
    res = ctx.pmap(f_run, tasks)
    viols, labels = [], {}
    for t, r in zip(tasks, res):
        labels[r["label"]] = labels.get(r["label"], 0) + 1
        if r["viol"]:
            viols.append({"cause": r["viol"][0], "msg": r["viol"][1],
                          "case": {"f": {"op": t[0], "plan": [list(x) for x in t[1]], "warm": t[2]}}})
    return len(tasks), labels, viols, sample([{"op": t[0], "plan": t[1], "warm": t[2]} for t in tasks], 4)


def run(ctx):
    global _CFG
    _CFG = Cfg(ctx.seed, ctx.thorough, noctx=bool(getattr(ctx, 'alt', False)))
    depth = (7 if ctx.thorough else 6) - (2 if ctx.alt else 0)
    roots = [[["spawn", "A"], ["iter", "none"], ["die", "A"], ["spawn", "A"]],      # a cached entry that stands for a previous owner
             # an iteration with attrs under way (pids listed, first one yielded) over a cache that already holds A
             [["spawn", "A"], ["iter", "np"], ["gstart", "np"], ["gnext", 0]]]
    res = bfs(run_h, depth, ctx, roots=roots)
    nf, flabels, fviols, fsamples = f_part(ctx)
    res["violations"] = res["violations"] + fviols
    from vf.checks import c04s
    sres = c04s.run_s(ctx) if not ctx.alt else {"violations": [], "coverage": {"executions": 0, "transitions": 0}}
    res["violations"] = res["violations"] + sres["violations"]
    res["states"] += sres["coverage"]["executions"]
    res["transitions"] += sres["coverage"]["transitions"]
    res["schedules"] = sres["coverage"]
    cov = {
        "states": res["states"], "transitions": res["transitions"],
        "traces_validated_against_impl": res["transitions"],
        "max_depth": res["max_depth"], "new_states_per_level": res["new_states_per_level"],
        "distinct_outcomes": len(res["labels"]), "outcome_counts": res["labels"],
        "samples": sample(res["samples"], 8),
        "exhaustive": res["capped"] is None, "capped": res["capped"],
        "alphabet": {"slots": list(_CFG.slots), "generators": _CFG.max_gens, "attrs": list(_CFG.attrs)},
        "schedules": res["schedules"], "fault_runs_during_a_call": nf, "fault_run_outcomes": flabels, "fault_run_samples": fsamples,
        "state_invariants": "pids() and pid_exists(n) for n in {-1,0,A,B,C,tid,absent,2^31-1,2^31,2^64} evaluated in every reached state",
    }
    return {"coverage": cov, "violations": res["violations"],
            "assumptions": ["kernel events happen between API calls / between next() calls of a generator",
                            "object identity across iterations is required only between complete iterations not overlapping a live generator"]}


def replay(ctx, case):
    global _CFG
    _CFG = Cfg(ctx.seed, ctx.thorough, noctx=bool(getattr(ctx, 'alt', False)))
    if case.get("part") == "S":
        from vf.checks import c04s
        return c04s.replay_s(ctx, case)
    if "f" in case:
        f = case["f"]
        r = f_run((f["op"], tuple(tuple(x) for x in f["plan"]), f["warm"]))
        return {"violated": r["viol"] is not None, "viol": r["viol"], "accesses": [list(map(str, a)) for a in r["accesses"]]}
    ex = Exec(_CFG)
    trace = []
    for ev in case["history"]:
        ex.apply(ev)
        trace.append([ev, ex.label, [v["cause"] for v in ex.viols]])
    return {"violated": bool(ex.viols), "trace": trace, "viols": ex.viols}
