"""C09 — disk/network counters: exact per-device values, totals never double count; disk_usage.
Explorer I: /proc/net/dev and /proc/diskstats contents (all kernel line layouts, device
mixes over /sys/block membership, boundary counters) and statvfs results."""
import itertools
import types

from vf.harness import use_world, outcome, freeze, sample, guarded, add_histories, history_of
from vf.simk.world import World

ID = "C09"
LEVEL = "exploration"
ALT_MOUNT = True          # run once more with procfs mounted at /hostproc (vf/child.py)
NET_HDR = (b"Inter-|   Receive                                                |  Transmit\n"
           b" face |bytes    packets errs drop fifo frame compressed multicast|bytes    packets errs drop fifo colls carrier compressed\n")
NET_MAP = {"bytes_recv": 0, "packets_recv": 1, "errin": 2, "dropin": 3, "bytes_sent": 8, "packets_sent": 9, "errout": 10, "dropout": 11}
NET_FIELDS = ["bytes_sent", "bytes_recv", "packets_sent", "packets_recv", "errin", "errout", "dropin", "dropout"]
NAMES = ["lo", "eth0", "eth0:1", "a.b", "abcdefghijklmno", "wlp0s20f3", "br-1a2b3c4d5e6f"]
PRIMES = [2, 3, 5, 7, 11, 13, 17, 19, 23, 29, 31, 37, 41, 43, 47, 53, 59, 61, 67, 71]
BOUND = [0, 1, 2 ** 31, 2 ** 32 - 1, 2 ** 32, 2 ** 63, 2 ** 64 - 1]
DISK_FIELDS = ["read_count", "write_count", "read_bytes", "write_bytes", "read_time", "write_time",
               "read_merged_count", "write_merged_count", "busy_time"]
DEVS = {"sda": True, "sda1": False, "sdaa": True, "nvme0n1": True, "nvme0n1p1": False, "nvme0n10": True, "loop0": True,
        "loop1": True, "loop10": True, "cciss/c0d0": True, "cciss/c0d0p1": False, "md1": True, "md10": True, "dm-1": True}


def mk_world(seed):
    w = World(ncpus=2)
    w.spawn(1, ppid=0, comm=b"init", start=1)
    return w


def net_file(ifs, glue=False):
    """glue: the layout of kernels that print "%6s:%8lu ..." -- no blank between the colon and a wide first counter"""
    out = [NET_HDR]
    for name, cols in ifs:
        out.append(b"%6s:" % name.encode() + (b"" if glue else b" ") + b" ".join(b"%d" % c for c in cols) + b"\n")
    return b"".join(out)


def rec(v, fields):
    """the named fields of a record psutil returned (or a description of whatever it returned instead)"""
    try:
        return {f: getattr(v, f) for f in fields}
    except AttributeError:
        return "not-a-record: %r" % (v,)


def recs(v, fields):
    try:
        return {n: rec(x, fields) for n, x in v.items()}
    except AttributeError:
        return "not-a-dict: %r" % (v,)


def disk_line(i, name, vals, layout):
    """vals: 11+ iostat fields after the name"""
    if layout == 7:
        v = [vals[0], vals[2], vals[4], vals[6]]
        return b"%4d %7d %s %s\n" % (8, i, name.encode(), b" ".join(b"%d" % x for x in v))
    if layout == 15:
        return b"%4d %4d %d %s %s\n" % (8, i, 777000 + i, name.encode(), b" ".join(b"%d" % x for x in vals[:11]))
    n = layout - 3
    v = (vals + [900 + j for j in range(20)])[:n]
    return b"%4d %7d %s %s\n" % (8, i, name.encode(), b" ".join(b"%d" % x for x in v))


PARENT = {"sda1": "sda", "nvme0n1p1": "nvme0n1", "cciss/c0d0p1": "cciss/c0d0"}      # sysfs: a partition is a directory of its disk
SYSFS_LAYOUTS = (11, 15, 17)     # fields of /sys/block/<disk>/[<part>/]stat: classic, 4.18+ (discards), 5.5+ (flushes)


def sysfs_stat(vals, nfields):
    """the kernel's "%8lu %8lu ..." stat line: same columns as /proc/diskstats after the name, sectors in columns 2 and 6"""
    v = (vals + [900 + j for j in range(20)])[:nfields]
    return b" ".join(b"%8d" % x for x in v) + b"\n"


def disk_ref(i, vals, layout):
    if layout == 7:
        return dict(read_count=vals[0], read_bytes=vals[2] * 512, write_count=vals[4], write_bytes=vals[6] * 512, read_time=0,
                    write_time=0, read_merged_count=0, write_merged_count=0, busy_time=0)
    if layout == 15:
        # psutil's own description of the 2.4 layout is the only specification available (DESIGN C09 Reading)
        f = [8, i, 777000 + i, "name"] + vals[:11]
        return dict(read_count=f[2], read_merged_count=f[4], read_bytes=f[5] * 512, read_time=f[6], write_count=f[7],
                    write_merged_count=f[8], write_bytes=f[9] * 512, write_time=f[10], busy_time=f[12])
    return dict(read_count=vals[0], read_merged_count=vals[1], read_bytes=vals[2] * 512, read_time=vals[3], write_count=vals[4],
                write_merged_count=vals[5], write_bytes=vals[6] * 512, write_time=vals[7], busy_time=vals[9])


def run_case(case, w):
    import psutil
    k = case[0]
    bad = []
    if k == "net":
        ifs = case[1]
        w.set_file("/proc/net/dev", net_file(ifs, glue=len(case) > 2 and case[2]))
        exp = {name: {f: cols[NET_MAP[f]] for f in NET_FIELDS} for name, cols in ifs}
        got = outcome(psutil.net_io_counters, pernic=True, nowrap=False)
        if not ifs:
            if got != ("ok", {}):
                bad.append(("net:empty-pernic", repr(got)))
        elif got[0] != "ok" or recs(got[1], NET_FIELDS) != exp:
            bad.append(("net:pernic", "got %r expected %r" % (freeze(got), exp)))
        got = outcome(psutil.net_io_counters, pernic=False, nowrap=False)
        if not ifs:
            if got != ("ok", None):
                bad.append(("net:empty-total", repr(got)))
        else:
            tot = {f: sum(e[f] for e in exp.values()) for f in NET_FIELDS}
            if got[0] != "ok" or rec(got[1], NET_FIELDS) != tot:
                bad.append(("net:total", "got %r expected %r" % (freeze(got), tot)))
    elif k == "disk":
        devs, layout, bval = case[1], case[2], case[3]
        # source of the counters: /proc/diskstats, or (no such file: restricted procfs, very old kernel) the per-device stat
        # files under /sys/block, which carry the same columns in the same unit (512-byte sectors)
        sysfs = len(case) > 4 and case[4] == "sysfs"
        for d in list(w.children.get("/sys/block", ())):
            w.remove("/sys/block/" + d)
        lines, exp, whole = [], {}, []
        for i, name in enumerate(devs):
            vals = [PRIMES[j] * (i + 1) * 10 + j for j in range(11)]
            if bval is not None:
                for col_, v_ in (bval if isinstance(bval[0], (list, tuple)) else [bval]):
                    vals[col_] = v_
            if sysfs:
                sname = name.replace("/", "!")          # the name the kernel lists there
                base = "/sys/block/" + (sname if DEVS[name] else PARENT[name].replace("/", "!") + "/" + sname)
                w.mkdir(base)
                w.set_file(base + "/stat", sysfs_stat(vals, layout))
                exp[sname] = disk_ref(i, vals, 20)
                if DEVS[name]:
                    w.mkdir(base + "/queue")
                    w.set_file(base + "/queue/hw_sector_size", b"4096\n")
                    w.set_file(base + "/queue/logical_block_size", b"4096\n")
                    whole.append(sname)
                continue
            lay = layout if not (layout == 7 and DEVS[name]) else 14     # 2.6: 7 fields only on partition lines
            lines.append(disk_line(i, name, vals, lay))
            exp[name] = disk_ref(i, vals, lay)
            if DEVS[name]:
                w.mkdir("/sys/block/" + name.replace("/", "!"))
                # a 4K-native drive: its logical sector size says nothing about /proc/diskstats, whose unit is always 512 bytes
                w.mkdir("/sys/block/" + name.replace("/", "!") + "/queue")
                w.set_file("/sys/block/" + name.replace("/", "!") + "/queue/hw_sector_size", b"4096\n")
                w.set_file("/sys/block/" + name.replace("/", "!") + "/queue/logical_block_size", b"4096\n")
                whole.append(name)
        if sysfs:
            w.remove("/proc/diskstats")
        else:
            w.set_file("/proc/diskstats", b"".join(lines))
        got = outcome(psutil.disk_io_counters, perdisk=True, nowrap=False)
        if not devs:
            if got != ("ok", {}):
                bad.append(("disk:empty-perdisk", repr(got)))
        elif got[0] != "ok" or recs(got[1], DISK_FIELDS) != exp:
            bad.append(("disk:perdisk:%slayout%d" % ("sysfs-stat:" if sysfs else "", layout), "got %r expected %r" % (freeze(got), exp)))
        got = outcome(psutil.disk_io_counters, perdisk=False, nowrap=False)
        if not whole:
            if got != ("ok", None):
                bad.append(("disk:empty-total", "devices %r (no whole disk): %r" % (devs, freeze(got))))
        else:
            tot = {f: sum(exp[d][f] for d in whole) for f in DISK_FIELDS}
            if got[0] != "ok" or rec(got[1], DISK_FIELDS) != tot:
                bad.append(("disk:total", "devices %r whole %r: got %r expected %r" % (devs, whole, freeze(got), tot)))
            # the flag is a truth value: 0 / None ask for the totals like False does
            for flag in (0, None):
                got = outcome(psutil.disk_io_counters, perdisk=flag, nowrap=False)
                if got[0] != "ok" or got[1] is None or isinstance(got[1], dict) or rec(got[1], DISK_FIELDS) != tot:
                    bad.append(("disk:total:perdisk=%r" % (flag,), "devices %r whole %r: got %r expected %r" % (devs, whole, freeze(got), tot)))
    elif k == "disk-seq":
        # call 1: `name` is not in /sys/block (partition / not yet registered); call 2: it is a whole disk (and vice versa)
        name, first_whole = case[1], case[2]
        for step, whole in enumerate((first_whole, not first_whole)):
            for d in list(w.children.get("/sys/block", ())):
                w.remove("/sys/block/" + d)
            w.mkdir("/sys/block/sda")
            if whole:
                w.mkdir("/sys/block/" + name)
            vals_a = [PRIMES[j] * 10 + j for j in range(11)]
            vals_b = [PRIMES[j] * 20 + j for j in range(11)]
            w.set_file("/proc/diskstats", disk_line(0, "sda", vals_a, 20) + disk_line(1, name, vals_b, 20))
            ea, eb = disk_ref(0, vals_a, 20), disk_ref(1, vals_b, 20)
            tot = {f: ea[f] + (eb[f] if whole else 0) for f in DISK_FIELDS}
            got = outcome(psutil.disk_io_counters, perdisk=False, nowrap=False)
            if got[0] != "ok" or rec(got[1], DISK_FIELDS) != tot:
                bad.append(("disk:total:after-sysfs-change", "step %d (%s whole=%s): got %r expected %r" % (step, name, whole, freeze(got), tot)))
    elif k == "net-seq":
        # successive contents read through the DEFAULT forms (nowrap=True): counters only grow, interfaces come and go; with no
        # wrap anywhere the answers are the plain kernel values / their sums at every step
        psutil.net_io_counters.cache_clear()
        held = []
        for step, (names, pernic_first) in enumerate(case[1]):
            ifs = [(nm, [PRIMES[j] * (NAMES.index(nm) + 1) * 100 + j + 1000 * step for j in range(16)]) for nm in names]
            w.set_file("/proc/net/dev", net_file(ifs))
            exp = {name: {f: cols[NET_MAP[f]] for f in NET_FIELDS} for name, cols in ifs}
            tot = {f: sum(e[f] for e in exp.values()) for f in NET_FIELDS} if ifs else None
            for form in ((True, False) if pernic_first else (False,)):
                got = outcome(psutil.net_io_counters, pernic=form)
                if got[0] == "ok" and form:
                    held.append((step, got[1], freeze(got[1])))
                want = exp if form else tot
                have = got[1] if got[0] != "ok" else (recs(got[1], NET_FIELDS) if form else (None if got[1] is None else rec(got[1], NET_FIELDS)))
                if got[0] != "ok" or have != want:
                    bad.append(("net:sequence:%s" % ("pernic" if form else "total"),
                                "step %d of %r: got %r expected %r" % (step, case[1], freeze(got), want)))
        for step, obj, was in held:
            if freeze(obj) != was:
                bad.append(("net:earlier-result-rewritten-by-a-later-call", "the dict returned at step %d of %r was %r and is now %r" % (step, case[1], was, freeze(obj))))
        psutil.net_io_counters.cache_clear()
    elif k == "net-many":
        # scale: a table much longer than any read buffer (a container host with hundreds of veth pairs)
        n = case[1]
        ifs = [("veth%04x" % i, [10 ** 11 + 1000 * i + j for j in range(16)]) for i in range(n)]
        w.set_file("/proc/net/dev", net_file(ifs))
        exp = {name: {f: cols[NET_MAP[f]] for f in NET_FIELDS} for name, cols in ifs}
        got = outcome(psutil.net_io_counters, pernic=True, nowrap=False)
        if got[0] != "ok" or recs(got[1], NET_FIELDS) != exp:
            bad.append(("net:many-interfaces:pernic", "%d interfaces listed, %s returned" % (n, len(got[1]) if got[0] == "ok" else repr(got))))
        tot = {f: sum(e[f] for e in exp.values()) for f in NET_FIELDS}
        got = outcome(psutil.net_io_counters, pernic=False, nowrap=False)
        if got[0] != "ok" or rec(got[1], NET_FIELDS) != tot:
            bad.append(("net:many-interfaces:total", "total over %d interfaces: got %r expected %r" % (n, freeze(got), tot)))
    elif k == "disk-many":
        n = case[1]
        for d in list(w.children.get("/sys/block", ())):
            w.remove("/sys/block/" + d)
        lines, exp = [], {}
        for i in range(n):
            name = "dm-%d" % i
            vals = [10 ** 9 + 97 * i + j for j in range(11)]
            lines.append(disk_line(i, name, vals, 20))
            exp[name] = disk_ref(i, vals, 20)
            w.mkdir("/sys/block/" + name)
        w.set_file("/proc/diskstats", b"".join(lines))
        got = outcome(psutil.disk_io_counters, perdisk=True, nowrap=False)
        if got[0] != "ok" or recs(got[1], DISK_FIELDS) != exp:
            bad.append(("disk:many-devices:perdisk", "%d devices listed, %s returned" % (n, len(got[1]) if got[0] == "ok" else repr(got))))
        tot = {f: sum(e[f] for e in exp.values()) for f in DISK_FIELDS}
        got = outcome(psutil.disk_io_counters, perdisk=False, nowrap=False)
        if got[0] != "ok" or rec(got[1], DISK_FIELDS) != tot:
            bad.append(("disk:many-devices:total", "total over %d disks wrong" % n))
        for i in range(n):
            w.remove("/sys/block/dm-%d" % i)
    elif k == "net-swap":
        # default forms again: one interface's counters wrap, then the interface is replaced by another one (the number of
        # interfaces stays the same), then it is created again: a re-created interface reports exactly the kernel's counters
        psutil.net_io_counters.cache_clear()
        a, b = case[1], case[2]
        steps = [[("lo", 50), (a, 1000)], [("lo", 60), (a, 350)], [("lo", 70), (b, 10)], [("lo", 80), (a, 350 if len(b) % 2 else 100)],
                 [("lo", 90), (a, 360)]]
        held = []
        for step, ifs_ in enumerate(steps):
            ifs = [(nm, [v + j for j in range(16)]) for nm, v in ifs_]
            w.set_file("/proc/net/dev", net_file(ifs))
            got = outcome(psutil.net_io_counters, pernic=True)
            tot = outcome(psutil.net_io_counters)
            if got[0] == "ok":
                held.append((step, got[1], freeze(got[1])))
            if step >= 2:
                exp = {name: {f: cols[NET_MAP[f]] for f in NET_FIELDS} for name, cols in ifs}
                want_tot = {f: sum(e[f] for e in exp.values()) for f in NET_FIELDS}
                if got[0] != "ok" or recs(got[1], NET_FIELDS) != exp:
                    bad.append(("net:recreated-interface:pernic", "step %d of swap %s->%s->%s: got %r expected %r" % (step, a, b, a, freeze(got), exp)))
                if tot[0] != "ok" or rec(tot[1], NET_FIELDS) != want_tot:
                    bad.append(("net:recreated-interface:total", "step %d: got %r expected %r" % (step, freeze(tot), want_tot)))
        for step, obj, was in held:
            if freeze(obj) != was:
                bad.append(("net:earlier-result-rewritten-by-a-later-call", "the dict returned at step %d was %r and is now %r" % (step, was, freeze(obj))))
        psutil.net_io_counters.cache_clear()
    elif k == "net-flap":
        # default form (nowrap=True), ONE form per history: an interface that comes and goes and whose counters may restart lower
        # (tun0 / ppp0 / a re-plugged dongle).  No call may fail, and an interface listed now but not in the previous call
        # reports exactly the kernel's counters
        form, seq = case[1], case[2]
        psutil.net_io_counters.cache_clear()
        prev = None
        for step, v in enumerate(seq):
            ifs = [("lo", [50 + step + j for j in range(16)])] + ([("tun0", [v + j for j in range(16)])] if v is not None else [])
            w.set_file("/proc/net/dev", net_file(ifs))
            got = outcome(psutil.net_io_counters, pernic=form)
            if got[0] != "ok":
                bad.append(("net:flapping-interface:raised:%s" % got[1], "step %d of %r (pernic=%s): %r" % (step, seq, form, got)))
                break
            if v is not None and prev is None and step > 0 and form:
                exp = {f: [v + j for j in range(16)][NET_MAP[f]] for f in NET_FIELDS}
                if rec(got[1].get("tun0"), NET_FIELDS) != exp if "tun0" in got[1] else True:
                    bad.append(("net:flapping-interface:re-created", "step %d of %r: got %r expected %r" % (step, seq, freeze(got[1].get("tun0")), exp)))
            prev = v
        psutil.net_io_counters.cache_clear()
    elif k == "disk-useq":
        # same for disk_io_counters(): whole disks appear / disappear between default-form calls
        psutil.disk_io_counters.cache_clear()
        for d in list(w.children.get("/sys/block", ())):
            w.remove("/sys/block/" + d)
        for nm in ("sda", "sdb", "sdc"):
            w.mkdir("/sys/block/" + nm)
        held = []
        for step, names in enumerate(case[1]):
            lines, exp = [], {}
            for nm in names:
                i = ("sda", "sdb", "sdc").index(nm)
                vals = [PRIMES[j] * (i + 1) * 10 + j + 100 * step for j in range(11)]
                lines.append(disk_line(i, nm, vals, 20))
                exp[nm] = disk_ref(i, vals, 20)
            w.set_file("/proc/diskstats", b"".join(lines))
            tot = {f: sum(e[f] for e in exp.values()) for f in DISK_FIELDS} if names else None
            got = outcome(psutil.disk_io_counters)
            have = got[1] if got[0] != "ok" else (None if got[1] is None else rec(got[1], DISK_FIELDS))
            if got[0] != "ok" or have != tot:
                bad.append(("disk:sequence:total", "step %d of %r: got %r expected %r" % (step, case[1], freeze(got), tot)))
            per = outcome(psutil.disk_io_counters, perdisk=True)
            if per[0] != "ok" or recs(per[1], DISK_FIELDS) != exp:
                bad.append(("disk:sequence:perdisk", "step %d of %r: got %r expected %r" % (step, case[1], freeze(per), exp)))
            else:
                held.append((step, per[1], freeze(per[1])))
        for step, obj, was in held:
            if freeze(obj) != was:
                bad.append(("disk:earlier-result-rewritten-by-a-later-call", "the dict returned at step %d of %r was %r and is now %r" % (step, case[1], was, freeze(obj))))
        psutil.disk_io_counters.cache_clear()
    elif k == "usage":
        blocks, bfree, bavail, frsize, bsize = case[1:]
        w.statvfs_result = types.SimpleNamespace(f_blocks=blocks, f_bfree=bfree, f_bavail=bavail, f_frsize=frsize, f_bsize=bsize,
                                                 f_files=1, f_ffree=1, f_favail=1, f_flag=0, f_namemax=255)
        got = outcome(psutil.disk_usage, "/mnt")
        total, used, free = blocks * frsize, (blocks - bfree) * frsize, bavail * frsize
        pct = round(used / (used + free) * 100, 1) if (used + free) != 0 else 0.0
        if got[0] != "ok" or (got[1].total, got[1].used, got[1].free, got[1].percent) != (total, used, free, pct):
            bad.append(("disk_usage:%s" % ("bsize!=frsize" if bsize != frsize else "plain"),
                        "statvfs %r -> %r expected %r" % (case[1:], freeze(got), (total, used, free, pct))))
    return bad


def worker(chunk):
    seed, cases = chunk
    w = mk_world(seed)
    use_world(w)
    w.logging = False
    return [guarded(run_case, c, w) for c in cases]


def build_cases(thorough):
    cases = []
    nmax = 3 if thorough else 2
    for n in range(0, nmax + 1):
        for combo in itertools.permutations(NAMES, n) if n < 3 else itertools.combinations(NAMES, n):
            ifs = [(nm, [PRIMES[j] * (i + 1) * 100 + j for j in range(16)]) for i, nm in enumerate(combo)]
            cases.append(("net", ifs))
    for col in range(16):
        for v in BOUND:
            cols = [PRIMES[j] * 100 + j for j in range(16)]
            cols[col] = v
            cases.append(("net", [("eth0", cols), ("lo", [1] * 16)]))
            if col == 0:
                cases.append(("net", [("eth0", cols), ("eth0:1", cols), ("lo", [1] * 16)], True))
    sets = [(), ("lo",), ("lo", "eth0"), ("eth0",), ("lo", "eth0", "eth0:1")]
    for a in sets:
        for b in sets:
            for c in (sets if thorough else sets[:3]):
                for pf in (False, True):
                    cases.append(("net-seq", [(a, pf), (b, False), (c, pf)]))
    for n in range(3, 7 if thorough else 6):
        for seq in itertools.product((None, 100, 1000), repeat=n):
            if seq[0] is None or None not in seq:
                continue
            for form in (True, False):
                cases.append(("net-flap", form, list(seq)))
    cases.append(("net-many", 600))
    cases.append(("disk-many", 500))
    for a, b in (("ppp0", "ppp1"), ("eth0:1", "eth0"), ("wlp0s20f3", "a.b")):
        cases.append(("net-swap", a, b))
    dsets = [(), ("sda",), ("sda", "sdb"), ("sdb",), ("sda", "sdb", "sdc")]
    for a in dsets:
        for b in dsets:
            for c in (dsets if thorough else dsets[:3]):
                cases.append(("disk-useq", [a, b, c]))
    names = list(DEVS)
    dmax = 5 if thorough else 2
    for layout in (14, 18, 20, 7, 15):
        for n in range(0, dmax + 1):
            for combo in itertools.combinations(names, n):
                if n >= 3 and not thorough:
                    continue
                cases.append(("disk", list(combo), layout, None))
    for pair in itertools.permutations(["loop1", "loop10", "sda", "sdaa", "md1", "md10", "sda1"], 2):
        cases.append(("disk", list(pair), 20, None))
    # whole disks that never read or wrote (only trimmed / flushed: busy time and merges may still be non-zero), and disks idle in
    # every column: they are disks all the same
    cases.append(("disk", ["sda", "sda1", "nvme0n1"], 20, [[0, 0], [4, 0]]))
    cases.append(("disk", ["sda"], 20, [[0, 0], [4, 0]]))
    cases.append(("disk", ["sda", "loop0"], 20, [[c_, 0] for c_ in range(11)]))
    cases.append(("disk", ["sda", "sda1"], 14, [[c_, 0] for c_ in range(11)]))
    for col in range(11):
        for v in BOUND:
            if col in (2, 6) and v * 512 >= 2 ** 80:
                continue
            cases.append(("disk", ["sda", "sda1"], 20, [col, v]))
    # the same device mixes and boundary counters read from the /sys/block stat files (no /proc/diskstats); a partition brings
    # its disk along (it is a sub-directory of it)
    seen = set()
    for layout in SYSFS_LAYOUTS:
        for n in range(0, dmax + 1):
            for combo in itertools.combinations(names, n):
                if n >= 3 and not thorough:
                    continue
                full = [d for d in names if d in combo or any(PARENT.get(c) == d for c in combo)]
                if (layout, tuple(full)) in seen:
                    continue
                seen.add((layout, tuple(full)))
                cases.append(("disk", full, layout, None, "sysfs"))
        cases.append(("disk", ["sda", "sda1", "loop0"], layout, [[c_, 0] for c_ in range(11)], "sysfs"))
    for col in range(11):
        for v in BOUND:
            cases.append(("disk", ["sda", "sda1"], 17, [col, v], "sysfs"))
    for i, nm in enumerate(["sdq", "nvme7n1", "md77", "loop42", "dm-9"]):
        cases.append(("disk-seq", nm, i % 2 == 0))
    sv = [0, 1, 1000, 2 ** 31, 2 ** 40]
    for blocks, bfree, bavail in itertools.product(sv, repeat=3):
        if bfree > blocks:
            continue
        for frsize, bsize in ((4096, 4096), (1024, 4096), (4096, 1048576), (512, 512)):
            cases.append(("usage", blocks, bfree, bavail, frsize, bsize))
    return cases


def run(ctx):
    cases = build_cases(ctx.thorough)
    n = max(1, len(cases) // (ctx.ncpu * 4))
    chunks = [(ctx.seed, cases[i:i + n]) for i in range(0, len(cases), n)]
    res = [r for ch in ctx.pmap_fresh(worker, chunks) for r in ch]
    viols, kinds = [], {}
    for _i, (c, bad) in enumerate(zip(cases, res)):
        kinds[c[0]] = kinds.get(c[0], 0) + 1
        for cause, msg in bad:
            viols.append({"cause": cause, "msg": msg, "case": list(c), "_idx": _i})
    cov = {"evaluations": len(cases), "distinct_nontrivial": len({repr(c) for c in cases}),
           "rule": "one evaluation = one /proc/net/dev or /proc/diskstats(+/sys/block) content or statvfs result read through the public "
                   "functions (per-device and total forms); distinct by construction; every column carries a distinct prime-scaled value",
           "per_dimension": kinds, "exhaustive": True, "samples": [list(c) for c in sample(cases, 6)],
           "layouts": [14, 18, 20, 7, 15], "sysfs_stat_layouts": list(SYSFS_LAYOUTS)}
    return {"coverage": cov, "violations": add_histories(viols, cases, n, list),
            "assumptions": ["15-field (Linux 2.4) layout: psutil's in-code description is the only specification; the reference adopts it",
                            "whole disk <=> /sys/block/<name with '/' -> '!'> exists",
                            "without /proc/diskstats the kernel's listing is /sys/block/<disk>/stat and /sys/block/<disk>/<part>/stat, "
                            "devices named as the directories are; unit 512-byte sectors as in diskstats"]}


def replay(ctx, case):
    w = mk_world(ctx.seed)
    use_world(w)
    for c in history_of(case):
        c = list(c)
        if c[0] == "net":
            c[1] = [(n, cols) for n, cols in c[1]]
        if c[0] == "net-seq":
            c[1] = [(tuple(n), pf) for n, pf in c[1]]
        if c[0] == "disk-useq":
            c[1] = [tuple(n) for n in c[1]]
        bad = guarded(run_case, tuple(c), w)
    return {"violated": bool(bad), "viols": bad}
