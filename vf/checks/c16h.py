"""C16 (history part) — oneshot()/as_dict() change speed, never answers.
One Process object; events enter / exit / exit-by-exception / nested enter /
method calls / source bumps (every record carries its version) / zombie / deny /
vanish / as_dict(attrs).  Reference: a per-block cache of first-read versions."""
import errno

from vf.harness import use_world, outcome, freeze, residue, ModuleResidue
from vf.simk.world import World, Mapping, Thread

SRCS = ("stat", "status", "smaps", "statm")
CACHED_SRCS = ("stat", "status", "smaps")      # the shared sources the statement names
TOP_MEMO = ("cpu_times", "memory_info", "ppid", "uids")   # documented: cached per block at method level


def ver_name(r):
    return int(r[1:])


METHODS = {
    # name: (sources, version extractor -> tuple aligned with sources)
    "name": (("stat",), lambda r: (ver_name(r),)),
    "cpu_times": (("stat",), lambda r: (int(round(r.user * 100)),)),
    "cpu_num": (("stat",), lambda r: (r,)),
    "ppid": (("stat",), lambda r: (None,)),
    "uids": (("status",), lambda r: (r.real - 1000,)),
    "gids": (("status",), lambda r: (r.real - 2000,)),
    "num_ctx_switches": (("status",), lambda r: (r.voluntary,)),
    "memory_info": (("statm",), lambda r: (r.rss // 4096,)),
    "memory_full_info": (("smaps", "statm"), lambda r: (r.uss // 1024, r.rss // 4096)),
    "memory_maps": (("smaps",), lambda r: (r[0].rss // 1024,)),
    "cpu_percent": (("stat",), lambda r: (None,)),
    "status": (("stat",), lambda r: (None,)),
    "username": (("status",), lambda r: (None,)),
    "terminal": (("stat",), lambda r: (None,)),
}
ASDICT = {
    "nu": ["name", "uids"], "nc": ["name", "cmdline"], "mm": ["memory_info", "memory_full_info"],
    "all": None, "empty": [], "str": "name", "bad": ["name", "nope"], "gen": "GEN", "tup": ("cpu_times", "gids"),
    "set": {"num_ctx_switches"},
    # falsy things that are no collection of names: rejected like any other non-collection, before anything is queried
    "estr": "", "zero": 0, "edict": {},
}


class Cfg:
    def __init__(self, seed, thorough):
        self.pid = 640 + (seed % 11) * 3
        self.thorough = thorough
        self.methods = (list(METHODS) if thorough else ["name", "cpu_times", "ppid", "uids", "gids", "memory_info",
                                                         "memory_full_info", "memory_maps", "num_ctx_switches"]) + ["cmdline"]
        self.asdict = list(ASDICT) if thorough else ["nu", "nc", "mm", "all", "str", "bad", "empty", "tup", "gen", "estr", "zero"]
        self.max_nest = 2


class Exec:
    def __init__(self, cfg):
        import psutil
        self.ps = psutil
        self.cfg = cfg
        w = World(ncpus=2)
        w.spawn(1, ppid=0, comm=b"init", start=1)
        w.spawn(w.mypid, ppid=1, comm=b"caller", start=50)
        p = w.spawn(cfg.pid, ppid=w.mypid, comm=b"n0", start=900)
        p.rollup = False
        p.maps = [Mapping(0x1000, 0x2000, path=b"/lib/a.so", kb={"Size": 4})]
        self.p = p
        self.w = w
        self.v = dict.fromkeys(SRCS, 0)
        use_world(w)
        self.modres = ModuleResidue([psutil, psutil._pslinux, psutil._common, psutil._psposix])
        self.setv()
        self.obj = psutil.Process(cfg.pid)
        self.cms = []           # stack of entered context managers
        self.block = None       # reference: src -> first-read version (outermost block)
        self.block_reads = None  # src -> reads counted in this block
        self.block_methods = set()
        self.gone = False
        self.viols = []
        self.label = ""

    def setv(self):
        p, v = self.p, self.v
        p.comm = b"n%d" % v["stat"]
        p.stat["utime"] = v["stat"]
        p.stat["processor"] = v["stat"]
        p.uids = (1000 + v["status"],) * 4
        p.gids = (2000 + v["status"],) * 4
        p.vctx = v["status"]
        p.maps[0].kb.update({"Rss": v["smaps"], "Private_Clean": v["smaps"], "Pss": v["smaps"]})
        p.statm = (9000, v["statm"], 3, 4, 5, 6, 7)

    def viol(self, cause, msg):
        self.viols.append({"cause": cause, "msg": msg})

    def enabled(self):
        c = self.cfg
        ev = []
        if len(self.cms) < c.max_nest:
            ev.append(["enter"])
        if not self.cms:
            ev.append(["enter_fault"])      # an exception (signal handler, MemoryError) strikes while the block is being entered
        if self.cms:
            ev.append(["exit"])
            for kind in ("KeyError", "KeyboardInterrupt", "AccessDenied"):
                ev.append(["exit_exc", kind])      # the block is left by an exception: an ordinary one, a BaseException, one of psutil's own
        for m in c.methods:
            ev.append(["call", m])
        if not self.gone:
            for s in SRCS:
                ev.append(["bump", s])
        for a in c.asdict:
            ev.append(["as_dict", a])
        ev.append(["repr"])
        if not self.gone:
            # another Process object of the same process opens and leaves a block of its own (explicitly / through as_dict)
            ev.append(["other", "block"])
            ev.append(["other", "as_dict"])
        if not self.gone:
            ev.append(["vanish"])
            if not self.p.zombie:
                ev.append(["zombie"])
            ev.append(["deny"] if "status" not in self.p.denied else ["allow"])
        return ev

    # --------------------------------------------------------- reference
    def expect_versions(self, srcs):
        """versions a call depending on `srcs` must report, updating the block cache"""
        out = []
        for s in srcs:
            if self.block is not None and s in CACHED_SRCS:
                if s not in self.block:
                    self.block[s] = self.v[s]
                out.append({self.block[s]})
            elif self.block is not None:
                # a source the statement does not list (statm): first-read or current
                if s not in self.block:
                    self.block[s] = self.v[s]
                out.append({self.block[s], self.v[s]})
            else:
                out.append({self.v[s]})
        return out

    def count_reads(self, log0):
        """reads of the object's source files since log index log0"""
        cnt = dict.fromkeys(SRCS, 0)
        pre = "/proc/%d/" % self.cfg.pid
        for kind, subj, pid in self.w.log[log0:]:
            if kind == "read" and pid == self.cfg.pid and subj.startswith(pre):
                tail = subj[len(pre):]
                if tail in cnt:
                    cnt[tail] += 1
        return cnt

    def apply(self, ev):
        ps, w = self.ps, self.w
        self.viols = []
        k = ev[0]
        lab = k
        log0 = len(w.log)
        if k == "enter":
            cm = self.obj.oneshot()
            out = outcome(cm.__enter__)
            if out[0] != "ok":
                self.viol("enter-raised", repr(out))
            self.cms.append(cm)
            if self.block is None:
                self.block = {}
                self.block_methods = set()
                self.block_reads = dict.fromkeys(SRCS, 0)
            if self.count_reads(log0) != dict.fromkeys(SRCS, 0):
                self.viol("enter-reads", "entering the block read %r" % self.count_reads(log0))
        elif k == "enter_fault":
            # the platform half's oneshot_enter() does its work and then an exception arrives, before the block body starts:
            # the with statement never runs its body, and the object must be left as if no block had been opened
            plat = type(self.obj._proc)
            orig = plat.oneshot_enter

            def faulty(self_):
                orig(self_)
                raise KeyError("interrupted while entering")
            plat.oneshot_enter = faulty
            try:
                cm = self.obj.oneshot()
                out = outcome(cm.__enter__)
            finally:
                plat.oneshot_enter = orig
            if not (out[0] == "exc" and out[1] == "KeyError"):
                self.viol("enter-fault-swallowed", repr(out))
        elif k in ("exit", "exit_exc"):
            cm = self.cms.pop()
            if k == "exit":
                out = outcome(cm.__exit__, None, None, None)
            else:
                kind = ev[1] if len(ev) > 1 else "KeyError"
                e = {"KeyError": KeyError("boom"), "KeyboardInterrupt": KeyboardInterrupt(),
                     "AccessDenied": self.ps.AccessDenied(self.cfg.pid)}[kind]
                try:
                    r = cm.__exit__(type(e), e, None)
                    out = ("ok", r)
                except BaseException as e2:  # noqa: BLE001
                    out = ("ok", False) if e2 is e else ("exc", type(e2).__name__, {"str": str(e2)[:200]})
            if out[0] != "ok":
                self.viol("exit-raised", repr(out))
            if not self.cms:
                self.block = None
                self.block_reads = None
        elif k == "bump":
            self.v[ev[1]] += 1
            self.setv()
        elif k == "vanish":
            w.vanish(self.cfg.pid)
            self.gone = True
        elif k == "zombie":
            w.exit(self.cfg.pid)
        elif k == "deny":
            self.p.denied.add("status")
        elif k == "allow":
            self.p.denied.discard("status")
        elif k == "call":
            lab = self.do_call(ev[1], log0)
        elif k == "as_dict":
            lab = self.do_as_dict(ev[1], log0)
        elif k == "repr":
            lab = self.do_repr(log0)
        elif k == "other":
            lab = self.do_other(ev[1])
        self.label = lab

    def source_state(self, s):
        """None readable | exception class the source read raises now"""
        if self.gone:
            return "NoSuchProcess"
        if s == "status" and "status" in self.p.denied:
            return "AccessDenied"
        return None

    def do_call(self, m, log0):
        if m == "cmdline":
            # not cached by a block: always answers for the process as it is now
            out = outcome(self.obj.cmdline)
            want = "NoSuchProcess" if self.gone else ("ZombieProcess" if self.p.zombie else ["/bin/proc"])
            got = out[1] if out[0] == "ok" or out[0] == "exc" else None
            if got != want:
                self.viol("cmdline:%s-expected-%s" % (out[1] if out[0] == "exc" else "value", want if isinstance(want, str) else "value"),
                          "cmdline() -> %r, expected %r (in block: %r)" % (out, want, self.block is not None))
            return "call:cmdline:%s" % (out[1] if out[0] == "exc" else "ok")
        srcs, ext = METHODS[m]
        fresh_needed = [s for s in srcs if not (self.block is not None and s in self.block and s in CACHED_SRCS)]
        if self.block is not None and m in TOP_MEMO:
            if m in self.block_methods:
                fresh_needed = []
        out = outcome(getattr(self.obj, m))
        if self.block is not None and m in TOP_MEMO and out[0] == "ok":
            self.block_methods.add(m)
        reads = self.count_reads(log0)
        if self.block is not None and out[0] == "exc":
            # a source that was read (and thus cached) by a call that then failed for another reason
            for s in CACHED_SRCS:
                if reads[s] and s not in self.block and s in srcs:
                    self.block[s] = self.v[s]
        if self.block_reads is not None and not self.gone:
            # (error paths probe /proc/<pid>/stat directly to tell zombie from gone: stat reads of a zombie are not counted)
            for s in SRCS:
                if s == "stat" and self.p.zombie:
                    continue
                n = reads[s]
                if m == "ppid" and s == "stat":
                    n = max(0, n - 1)        # identity re-check by a temporary Process (DESIGN: not counted)
                self.block_reads[s] += n
                if s in CACHED_SRCS and self.block_reads[s] > 1:
                    self.viol("source-read-twice:%s" % s, "%s read %d times inside one block (call %s)"
                              % (s, self.block_reads[s], m))
        if out[0] == "exc":
            cls = out[1]
            bad = [self.source_state(s) for s in fresh_needed if self.source_state(s)]
            zombie_ok = self.p.zombie and cls == "ZombieProcess" and m in ("memory_maps",)
            if cls in bad or zombie_ok:
                return "call:%s:%s" % (m, cls)
            if self.gone and cls == "NoSuchProcess":
                # sources cached in the block may legitimately still answer; a raise is fine too
                return "call:%s:%s" % (m, cls)
            self.viol("call-raised:%s:%s" % (m, cls), "%s() raised %r (block=%r, versions=%r)" % (m, out, self.block, self.v))
            return "call:%s:%s" % (m, cls)
        # value: every needed fresh source must have been readable
        blocked = [self.source_state(s) for s in fresh_needed if self.source_state(s)]
        if blocked and m not in ("memory_full_info",):
            if not (m == "username"):
                self.viol("call-should-raise:%s" % m, "%s() returned %r although its source raises %r"
                          % (m, freeze(out[1]), blocked))
                return "call:%s:value!" % m
        exp = self.expect_versions(srcs)
        try:
            got = ext(out[1])
        except Exception as e:  # noqa: BLE001
            if self.p.zombie and m == "memory_maps":
                return "call:%s:empty" % m
            self.viol("call-shape:%s" % m, "%s() -> %r (%r)" % (m, freeze(out[1]), e))
            return "call:%s:shape" % m
        for s, g, e in zip(srcs, got, exp):
            if g is None:
                continue
            if self.p.zombie and s in ("smaps", "statm"):
                continue      # a zombie has no address space: zeros
            if g not in e:
                inblk = self.block is not None
                self.viol("stale-or-fresh:%s:%s:%s" % (m, s, "in-block" if inblk else "outside"),
                          "%s() reports %s version %r, expected %r (current %r, block cache %r)"
                          % (m, s, g, sorted(e), self.v[s], self.block))
        return "call:%s:ok" % m

    def do_repr(self, log0):
        """str()/repr() of the object (they open a block of their own to read name and status)"""
        import re
        out = outcome(repr, self.obj)
        out2 = outcome(str, self.obj)
        if out[0] != "ok" or out2[0] != "ok":
            self.viol("repr-raised", "repr -> %r, str -> %r" % (out, out2))
            return "repr:exc"
        reads = self.count_reads(log0)
        if self.block_reads is not None and not self.gone and not self.p.zombie:
            self.block_reads["stat"] += reads["stat"]
            if self.block_reads["stat"] > 1:
                self.viol("source-read-twice:stat", "stat read %d times inside one block (repr/str of the object)" % self.block_reads["stat"])
        if self.block is not None and reads["stat"] and "stat" not in self.block:
            self.block["stat"] = self.v["stat"]       # (also when the record read is a zombie's: it is the block's first read)
        if not self.gone and not self.p.zombie:
            exp = self.expect_versions(("stat",))[0]
            for txt in (out[1], out2[1]):
                m = re.search(r"name='n(\d+)'", txt)
                if m is None or int(m.group(1)) not in exp:
                    self.viol("stale-or-fresh:repr:stat:%s" % ("in-block" if self.block is not None else "outside"),
                              "%s, expected name version %r (current %r, block cache %r)" % (txt, sorted(exp), self.v["stat"], self.block))
        return "repr:ok"

    def do_other(self, how):
        """a second object of the same process uses a block of its own: nothing of this object's block may change"""
        o = outcome(self.ps.Process, self.cfg.pid)
        if o[0] != "ok":
            if not self.p.zombie:
                self.viol("other-ctor", repr(o))
            return "other:ctor-" + str(o[1])
        other = o[1]
        if how == "block":
            def f():
                with other.oneshot():
                    return other.name(), other.uids()
            out = outcome(f)
        else:
            out = outcome(other.as_dict, ["name", "uids"], "AD")
        if out[0] != "ok" and not (self.p.zombie or "status" in self.p.denied):
            self.viol("other-raised", repr(out))
        return "other:%s:%s" % (how, out[0] if out[0] == "ok" else out[1])

    def do_as_dict(self, a, log0):
        attrs = ASDICT[a]
        if attrs == "GEN":
            attrs = (x for x in ["name"])
        out = outcome(self.obj.as_dict, attrs=attrs, ad_value="AD")
        reads = self.count_reads(log0)
        nacc = len(self.w.log) - log0
        if a in ("str", "gen", "bad", "estr", "zero", "edict"):
            want = "ValueError" if a == "bad" else "TypeError"
            if not (out[0] == "exc" and out[1] == want):
                self.viol("as_dict-validation:%s" % a, "as_dict(%r) -> %r, expected %s" % (ASDICT[a], freeze(out), want))
            if nacc:
                self.viol("as_dict-queried-before-validation", "as_dict(%r) touched the OS %d times before rejecting" % (ASDICT[a], nacc))
            return "as_dict:%s" % (out[1] if out[0] == "exc" else "ok")
        if self.block_reads is not None and not (self.p.zombie or self.gone):
            for s in SRCS:
                self.block_reads[s] += reads[s] - (1 if (s == "stat" and (attrs is None or not attrs or "ppid" in attrs)) else 0) \
                    if reads[s] else 0
        names = sorted(self.ps._as_dict_attrnames) if not attrs else sorted(attrs)
        if out[0] == "exc":
            if out[1] == "NoSuchProcess" and self.gone:
                return "as_dict:NSP"
            self.viol("as_dict-raised:%s" % out[1], "as_dict(%r) raised %r" % (ASDICT[a], out))
            return "as_dict:" + out[1]
        d = out[1]
        if sorted(d) != names:
            self.viol("as_dict-keys", "as_dict(%r) keys %r" % (ASDICT[a], sorted(d)))
            return "as_dict:keys"
        if self.gone:
            # every attribute needing a fresh source must have propagated NoSuchProcess
            fresh = [n for n in names if n in METHODS and
                     any(not (self.block is not None and s in self.block and s in CACHED_SRCS) for s in METHODS[n][0])]
            if fresh and not (self.block is not None):
                self.viol("as_dict-no-NSP", "as_dict(%r) returned %r for a gone process" % (ASDICT[a], freeze(d)))
        if "cmdline" in names and not self.gone:
            want = "AD" if self.p.zombie else ["/bin/proc"]
            if d.get("cmdline") != want:
                self.viol("as_dict-cmdline:%s" % ("zombie-not-ad_value" if self.p.zombie else "value"),
                          "as_dict()['cmdline'] -> %r, expected %r" % (d.get("cmdline"), want))
        # values: same rules as direct calls; all attributes that share a source agree
        own_block = self.block is None
        if own_block:
            self.block = {}
        try:
            for n in names:
                if n not in METHODS or d[n] == "AD":
                    if d[n] == "AD":
                        srcs = METHODS.get(n, ((), None))[0]
                        okad = self.p.zombie or any(self.source_state(s) == "AccessDenied" for s in srcs) or n not in METHODS
                        if not okad:
                            self.viol("as_dict-ad_value:%s" % n, "%s -> ad_value although nothing was denied" % n)
                    continue
                srcs, ext = METHODS[n]
                if n in TOP_MEMO and not own_block:
                    self.block_methods.add(n)
                exp = self.expect_versions(srcs)
                try:
                    got = ext(d[n])
                except Exception:  # noqa: BLE001
                    continue
                for s, g, e in zip(srcs, got, exp):
                    if g is None or (self.p.zombie and s in ("smaps", "statm")):
                        continue
                    if g not in e:
                        self.viol("as_dict-value:%s:%s" % (n, s), "as_dict()[%s] reports %s version %r, expected %r"
                                  % (n, s, g, sorted(e)))
        finally:
            if own_block:
                self.block = None
        return "as_dict:ok"

    def canon(self):
        o = self.obj
        v = self.v

        def rel(src, ver):
            return None if ver is None else ("same" if ver == v[src] else "older")
        top = getattr(o, "_cache", None)
        low = getattr(o._proc, "_cache", None)

        def cache_desc(c):
            if c is None:
                return None
            out = {}
            for fn, val in c.items():
                nm = fn.__name__
                try:
                    if nm == "_parse_stat_file":
                        out[nm] = rel("stat", int(val["utime"]))
                    elif nm == "_read_status_file":
                        out[nm] = rel("status", int(val.split(b"voluntary_ctxt_switches:\t")[1].split(b"\n")[0]))
                    elif nm == "_read_smaps_file":
                        out[nm] = rel("smaps", int(val.split(b"Rss:")[1].split()[0]) if val else None)
                    elif nm == "cpu_times":
                        out[nm] = rel("stat", int(round(val.user * 100)))
                    elif nm == "memory_info":
                        out[nm] = rel("statm", val.rss // 4096)
                    elif nm == "uids":
                        out[nm] = rel("status", val.real - 1000)
                    else:
                        out[nm] = "x"
                except Exception:  # noqa: BLE001
                    out[nm] = "?"
            return out
        return {"nest": len(self.cms), "gone": self.gone, "zombie": self.p.zombie, "deny": sorted(self.p.denied),
                "top": cache_desc(top), "low": cache_desc(low),
                "block": None if self.block is None else {s: rel(s, x) for s, x in self.block.items()},
                "reads": self.block_reads, "bm": sorted(self.block_methods) if self.block is not None else None, "name": o._name is not None, "lastcpu": o._last_proc_cpu_times is not None,
                "oreused": o._pid_reused, "ogone": o._gone,
                # any per-object memory the hand-written part does not know about is kept concretely
                "rest": residue(o, ("_pid", "_gone", "_pid_reused", "_name", "_hash", "_cache", "_exitcode", "_ident", "_create_time",
                                    "_proc", "_lock", "_last_proc_cpu_times", "_last_sys_cpu_times", "_exe")),
                "exe": o._exe is not None, "modules": self.modres.diff(),
                "prest": residue(o._proc, ("pid", "_cache", "_procfs_path", "_name")), "pname": o._proc._name is not None}


_CFG = None


def run_h(history):
    ex = Exec(_CFG)
    for ev in history:
        ex.apply(ev)
    return {"key": ex.canon(), "enabled": ex.enabled(), "viols": list(ex.viols), "label": ex.label}
