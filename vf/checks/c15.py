"""C15 — wait() and wait_procs(): right exit status, never early, timeouts honoured.
Explorer F in virtual time: the subject's exit instant is placed at every polling instant of
the dry run, every midpoint, around the deadline and 'never'; x subject kind (child by exit
code / by signal, non-child, gone before the call) x timeout x EINTR on any one or two waitpid
calls x exact / overshooting sleeps; wait_procs over exit-instant grids."""
import errno
import itertools
import math
import signal

from vf.harness import use_world, outcome, sample
from vf.simk.world import World, oserr

ID = "C15"
LEVEL = "fault_enumeration"
ALT_MOUNT = True          # run once more with procfs mounted at /hostproc (vf/child.py)
EPS = 1e-6
POLL_MAX = 0.04
BUDGET = 8000


class Budget(Exception):
    pass


SUBJECTS = [("child", "exit", 0), ("child", "exit", 1), ("child", "exit", 255), ("child", "sig", 1), ("child", "sig", 9),
            ("child", "sig", 15), ("child", "sig", 64), ("child", "sig", 35), ("child", "sig", 63), ("child", "sig", 32),
            # killed by a signal AND a core was dumped (bit 0x80 of the wait status): still "the negated signal"
            ("child", "sigcore", 11), ("child", "sigcore", 6),
            ("other", None, None),
            # a Process object built on the id of a THREAD of a non-child process (psutil accepts thread ids)
            ("other-tid", None, None)]


def wstatus(kind, v):
    if kind == "sigcore":
        return v | 0x80
    return (v << 8) if kind == "exit" else v


def expected_value(sub):
    if sub[0] != "child":
        return None
    return sub[2] if sub[1] == "exit" else -sub[2]


def mk(seed, sub, exit_at, gone_before=False):
    w = World(ncpus=1)
    w.spawn(1, ppid=0, comm=b"init", start=1)
    w.spawn(w.mypid, ppid=1, comm=b"caller", start=50)
    pid = 3100 + seed % 40
    p = w.spawn(pid, ppid=w.mypid if sub[0] == "child" else 1, comm=b"subj", start=900)
    p.is_child = sub[0] == "child"
    if sub[0] == "other-tid":
        from vf.simk.world import Thread
        p.threads = [Thread(pid, b"subj", "S", 1, 1), Thread(pid + 1, b"worker", "S", 1, 1)]
        w.tids[pid + 1] = p
    use_world(w)
    return w, p


def run_wait(arg):
    """one scenario; returns dict(trace=[(t, kind, subj)], out=outcome, t_end)"""
    seed, sub, timeout, exit_at, eintr, overshoot, gone_before = arg[:7]
    wall_step = arg[7] if len(arg) > 7 else None
    import psutil
    w, p = mk(seed, sub, exit_at)
    if wall_step:
        # the wall clock is stepped (NTP, date -s, VM resume) while the call waits: deadlines are monotonic-time affairs
        w.at(w.mono + wall_step[0], lambda ww: setattr(ww, "btime", ww.btime + wall_step[1]))
    pr = psutil.Process(p.pid + 1 if sub[0] == "other-tid" else p.pid)
    t0 = w.mono
    if gone_before:
        w.vanish(p.pid)
    elif exit_at is not None:
        if sub[0] == "child":
            w.at(t0 + exit_at, lambda ww: ww.exit(p.pid, wstatus(sub[1], sub[2])))
        else:
            w.at(t0 + exit_at, lambda ww: ww.vanish(p.pid))
    trace = []
    nwait = [0]
    w._overshoot = overshoot

    def hook(world, kind, subj, pid):
        if len(trace) > BUDGET:
            raise Budget()
        if kind in ("waitpid", "sleep", "kill"):
            trace.append((round(world.mono - t0, 9), kind, subj if kind == "sleep" else None))
        if kind == "waitpid":
            nwait[0] += 1
            if nwait[0] in eintr:
                raise oserr(errno.EINTR)
    w.hook = hook
    w.logging = False
    to = float("nan") if timeout == "nan" else timeout
    out = outcome(pr.wait, to)
    t_end = round(w.mono - t0, 9)
    n1 = len(trace)
    out2 = outcome(pr.wait, to)
    t_end2 = round(w.mono - t0, 9)
    n2 = len(trace)
    out3 = outcome(pr.wait, -1)           # an invalid timeout is refused whatever has been cached
    w.hook = None
    if out[0] == "ok":
        out = ("ok", int(out[1]) if out[1] is not None else None, type(out[1]).__name__)
    if out2[0] == "ok":
        out2 = ("ok", int(out2[1]) if out2[1] is not None else None, type(out2[1]).__name__)
    return {"trace": trace[:n1], "out": out, "t_end": t_end, "out2": out2, "calls_in_second": n2 - n1, "t_end2": t_end2,
            "out3": (out3[0], out3[1] if out3[0] == "exc" else repr(out3[1])), "calls_in_third": len(trace) - n2}


def judge_wait(arg, r):
    seed, sub, timeout, exit_at, eintr, overshoot, gone_before = arg[:7]
    bad = []
    out, tr = r["out"], r["trace"]
    e = 0.0 if gone_before else (exit_at if exit_at is not None else math.inf)
    if timeout == "nan" or (timeout is not None and timeout < 0):
        if not (out[0] == "exc" and out[1] == "ValueError"):
            bad.append(("invalid-timeout-accepted", "wait(%r) -> %r" % (timeout, out)))
        if tr:
            bad.append(("invalid-timeout-touched-os", "wait(%r) made %d OS calls" % (timeout, len(tr))))
        return bad
    if r.get("out3") and not (r["out3"][0] == "exc" and r["out3"][1] == "ValueError"):
        bad.append(("negative-timeout-accepted-after-a-result-was-cached", "wait(-1) after wait(%r) -> %r" % (timeout, r["out3"])))
    sleeps = [s for t, k, s in tr if k == "sleep"]
    if timeout == 0 and sleeps:
        bad.append(("timeout0-sleeps", "wait(0) slept %r" % (sleeps,)))
    exp_s = 0.0001
    for s in sleeps:
        if abs(s - exp_s) > 1e-12 or s > POLL_MAX + 1e-12:
            bad.append(("poll-interval", "sleep intervals %r: expected 0.0001 doubling up to 0.04" % (sleeps[:12],)))
            break
        exp_s = min(exp_s * 2, POLL_MAX)
    val = expected_value(sub) if not gone_before else None
    slack = overshoot * (len(sleeps) + 1)
    if out[0] == "exc":
        if out[1] == "Hang" or out[1] == "Budget":
            if not (timeout is None and e == math.inf):
                bad.append(("never-returns", "wait(%r) did not return although the process exits at %r" % (timeout, e)))
            return bad
        if out[1] != "TimeoutExpired":
            bad.append(("wait-raised:%s" % out[1], "wait(%r) raised %r" % (timeout, out)))
            return bad
        info = out[2]
        if timeout is None:
            bad.append(("timeout-without-timeout", repr(out)))
            return bad
        if info.get("seconds") != timeout or info.get("pid") != 3100 + seed % 40 + (1 if sub[0] == "other-tid" else 0):
            bad.append(("timeout-fields", "TimeoutExpired fields %r for wait(%r)" % (info, timeout)))
        if not (e > timeout - EPS):
            bad.append(("timeout-though-exited-before-deadline", "wait(%r): process exited at %r (< deadline) but TimeoutExpired was raised at %r; trace tail %r"
                        % (timeout, e, r["t_end"], tr[-4:])))
        if r["t_end"] < timeout - EPS:
            bad.append(("timeout-before-deadline", "raised at %r, deadline %r" % (r["t_end"], timeout)))
        if r["t_end"] > timeout + POLL_MAX + slack + EPS:
            bad.append(("timeout-too-late", "raised at %r, deadline %r" % (r["t_end"], timeout)))
    else:
        if r["t_end"] < e - EPS:
            bad.append(("returned-early", "wait(%r) returned %r at %r, process exits at %r" % (timeout, out, r["t_end"], e)))
        if out[1] != val:
            bad.append(("wrong-status:%s" % (sub[1] or sub[0]), "wait() -> %r, expected %r for %r" % (out, val, sub)))
        if sub[1] in ("sig", "sigcore") and out[0] == "ok" and out[1] is not None and out[2] not in ("Negsignal", "int"):
            bad.append(("status-type", repr(out)))
        if timeout is not None and e > timeout + POLL_MAX + slack + EPS:
            bad.append(("returned-though-alive", "wait(%r) returned %r at %r but the process exits only at %r" % (timeout, out, r["t_end"], e)))
        # cached on every later call, no OS access
        if r["out2"][:2] != out[:2] or r["calls_in_second"] != 0:
            bad.append(("not-cached", "second wait() -> %r with %d OS calls (first %r)" % (r["out2"], r["calls_in_second"], out)))
    if out[0] == "exc" and out[1] == "TimeoutExpired" and timeout is not None and e <= timeout - POLL_MAX - slack - EPS and e != math.inf:
        pass
    return bad


def scenarios(seed, thorough):
    out = []
    timeouts = [None, 0, 0.0001, 0.05, 0.3]
    for sub in SUBJECTS:
        for to in timeouts:
            # dry run: the process never exits -> polling instants up to the deadline
            if to is None:
                inst = [0.0, 0.00005, 0.0001, 0.0003, 0.0127, 0.05, 0.2, 1.0]
            else:
                dry = run_wait((seed, sub, to, None, (), 0.0, False))
                polls = sorted({t for t, k, s in dry["trace"] if k in ("waitpid", "kill")})
                inst = set()
                for a, b in zip(polls, polls[1:] + [polls[-1] + POLL_MAX]):
                    inst |= {a, (a + b) / 2}
                inst |= {to, max(0.0, to - 1e-4), to + 1e-4, to + POLL_MAX / 2, to + POLL_MAX + 1e-3, to + 1.0}
                inst = sorted(inst)
                if not thorough and len(inst) > 24:
                    inst = inst[:8] + inst[8:-8:3] + inst[-8:]
            for e in inst:
                out.append((seed, sub, to, round(e, 9), (), 0.0, False))
            if to is not None:
                out.append((seed, sub, to, None, (), 0.0, False))
            out.append((seed, sub, to, None, (), 0.0, True))        # gone before the call
    # invalid timeouts
    for to in (-1, -0.001, "nan"):
        out.append((seed, SUBJECTS[0], to, 0.01, (), 0.0, False))
    # EINTR on one / two waitpid calls, overshooting sleeps
    for sub in (SUBJECTS[1], SUBJECTS[4], SUBJECTS[7]):
        for to in (0.05, 0.3, None):
            for e in (0.0, 0.0002, 0.021, 0.049, 0.051, 0.12, 0.31):
                sets = [(1,), (2,), (3,), (1, 2), (2, 4), (1, 3)] if thorough else [(1,), (2,), (1, 2)]
                for ei in sets:
                    out.append((seed, sub, to, e, ei, 0.0, False))
                for ov in (0.003, 0.02):
                    out.append((seed, sub, to, e, (), ov, False))
    # scale: waits that need more than a thousand polls (the back-off has long reached its 40 ms ceiling)
    for sub in (SUBJECTS[1], SUBJECTS[4], SUBJECTS[10]):
        for to in (None, 60, 44.9):
            out.append((seed, sub, to, 45.0, (), 0.0, False))
    # wall-clock steps during the wait
    for sub in (SUBJECTS[1], SUBJECTS[4], SUBJECTS[7]):
        for to in (0.05, 0.3):
            for e in (None, 0.021, 0.2, 0.31):
                for at in (0.0005, 0.03):
                    for delta in (-1, 1, -3600, 3600):
                        out.append((seed, sub, to, e, (), 0.0, False, (at, delta)))
    return out


# ------------------------------------------------------------------ wait_procs
def run_procs(arg):
    seed, kinds, exits, timeout, use_cb, dup = arg[:6]
    recycle = arg[6] if len(arg) > 6 else False
    pending = {}
    import psutil
    w = World(ncpus=1)
    w.spawn(1, ppid=0, comm=b"init", start=1)
    w.spawn(w.mypid, ppid=1, comm=b"caller", start=50)
    use_world(w)
    objs = []
    for i, (kd, e) in enumerate(zip(kinds, exits)):
        pid = 3200 + i
        p = w.spawn(pid, ppid=w.mypid if kd == "child" else 1, comm=b"s%d" % i, start=900 + i)
        p.is_child = kd == "child"
        objs.append(psutil.Process(pid))
    t0 = w.mono
    for i, (kd, e) in enumerate(zip(kinds, exits)):
        if e is None:
            continue
        pid = 3200 + i
        if kd == "child":
            w.at(t0 + e, lambda ww, pid=pid, i=i: ww.exit(pid, (i + 1) << 8))
        else:
            def gone(ww, pid=pid):
                ww.vanish(pid)
                if recycle == "after-probe":
                    pending[pid] = "vanished"
                elif recycle:
                    # the pid is given to an unrelated process at once
                    ww.jiffies += 3          # (start later than the old owner; virtual time itself does not move)
                    ww.spawn(pid, ppid=1, comm=b"newcomer")
            w.at(t0 + e, gone)
    count = [0]

    def hook(world, kind, subj, pid):
        count[0] += 1
        # "after-probe": the pid is handed to a newcomer right after the first access that found it free
        for q, stt in list(pending.items()):
            if stt == "probed":
                del pending[q]
                world.jiffies += 3
                world.spawn(q, ppid=1, comm=b"newcomer")
            elif stt == "vanished" and pid == q and kind == "kill":     # the pid_exists() probe of wait()
                pending[q] = "probed"
        if count[0] > BUDGET * 3:
            raise Budget()
    w.hook = hook
    w.logging = False
    cbs = []
    inp = list(objs) + ([objs[0]] if dup else [])
    out = outcome(psutil.wait_procs, inp, timeout=timeout, callback=(lambda p_: cbs.append((p_.pid, getattr(p_, "returncode", "unset"), round(w.mono - t0, 6)))) if use_cb else None)
    t_end = w.mono - t0
    w.hook = None
    bad = []
    if out[0] != "ok":
        if out[1] in ("Budget", "Hang") and timeout is None and any(e is None for e in exits):
            return bad, "blocks"
        bad.append(("wait_procs-raised:%s" % out[1], "%r for %r" % (out, arg)))
        return bad, "exc"
    gone, alive = out[1]
    gp, ap = [x.pid for x in gone], [x.pid for x in alive]
    if sorted(gp + ap) != sorted(o.pid for o in objs) or set(gp) & set(ap):
        bad.append(("wait_procs-partition", "gone %r alive %r input %r" % (gp, ap, [o.pid for o in inp])))
    for g in gone:
        i = g.pid - 3200
        e = exits[i]
        if e is None or e > t_end + 1e-6:
            bad.append(("wait_procs-gone-but-alive", "pid %d reported gone at %r, exits at %r" % (g.pid, t_end, e)))
        exp = (i + 1) if kinds[i] == "child" else None
        if not hasattr(g, "returncode") or g.returncode != exp:
            bad.append(("wait_procs-returncode", "pid %d returncode %r expected %r" % (g.pid, getattr(g, "returncode", "unset"), exp)))
    if use_cb:
        if sorted(c[0] for c in cbs) != sorted(gp):
            bad.append(("wait_procs-callback-count", "callbacks %r gone %r" % (cbs, gp)))
        for pid, rc, t in cbs:
            if rc == "unset":
                bad.append(("wait_procs-callback-before-returncode", repr(cbs)))
    if timeout is not None and t_end > timeout + POLL_MAX + 1e-6:
        bad.append(("wait_procs-late", "returned at %r, timeout %r (n=%d, exits %r)" % (round(t_end, 6), timeout, len(objs), exits)))
    if timeout is not None:
        for a in alive:
            e = exits[a.pid - 3200]
            if e is not None and e <= min(timeout, t_end) - 2 * POLL_MAX - 1.0 / max(1, len(objs)):
                bad.append(("wait_procs-alive-but-long-gone", "pid %d exited at %r, call ended %r" % (a.pid, e, t_end)))
    return bad, "ok"


def proc_scenarios(seed, thorough):
    grid = [0.0, 0.001, 0.03, 0.1, 0.29, 0.31, None]
    out = []
    for n in (1, 2, 3):
        for kinds in itertools.product(("child", "other"), repeat=n):
            if n == 3 and not thorough and kinds not in (("child", "child", "child"), ("child", "other", "child")):
                continue
            for exits in itertools.product(grid if (thorough or n < 3) else grid[::2] + [0.1], repeat=n):
                for to in (None, 0, 0.3):
                    if to is None and any(e is None for e in exits):
                        continue
                    for cb in ((True, False) if n < 3 else (True,)):
                        out.append((seed, kinds, exits, to, cb, False))
                if n == 2:
                    out.append((seed, kinds, exits, 0.3, True, True))
                if "other" in kinds and n <= 2:
                    out.append((seed, kinds, exits, 0.3, True, False, True))
                    out.append((seed, kinds, exits, 0.3, True, False, "after-probe"))
                    out.append((seed, kinds, exits, None, False, False, "after-probe"))
    return out


# ------------------------------------------------------------------ two processes, one pid
def run_reuse(arg):
    """a child is waited for (status cached on ITS object); its pid is then given to another process -- a non-child, or a
    child that someone else reaps: wait() on the new object says what is true of the NEW process"""
    seed, code, second = arg
    import psutil
    w = World(ncpus=1)
    w.spawn(1, ppid=0, comm=b"init", start=1)
    w.spawn(w.mypid, ppid=1, comm=b"caller", start=50)
    pid = 3300 + seed % 40
    p = w.spawn(pid, ppid=w.mypid, comm=b"first", start=900)
    p.is_child = True
    use_world(w)
    w.logging = False
    bad = []
    o1 = psutil.Process(pid)
    w.exit(pid, code << 8)
    r1 = outcome(o1.wait, 1)
    if r1 != ("ok", code):
        bad.append(("reuse:first-wait", "first process exited with %d: wait() -> %r" % (code, r1)))
    w.tick(300)
    q = w.spawn(pid, ppid=1 if second == "other" else w.mypid, comm=b"second")
    q.is_child = second != "other"
    o2 = psutil.Process(pid)
    if second == "other":
        w.at(w.mono + 0.02, lambda ww: ww.vanish(pid))
        want = None
    elif second == "child7":
        w.at(w.mono + 0.02, lambda ww: ww.exit(pid, 7 << 8))
        want = 7
    else:
        want = "timeout"
    r2 = outcome(o2.wait, 0.2)
    if want == "timeout":
        if not (r2[0] == "exc" and r2[1] == "TimeoutExpired"):
            bad.append(("reuse:status-of-the-previous-owner", "pid %d now belongs to a live child: wait(0.2) -> %r" % (pid, r2)))
    elif r2 != ("ok", want):
        bad.append(("reuse:status-of-the-previous-owner", "the first owner of pid %d exited with %d and was waited for; the second (%s) ended with %r: wait() -> %r"
                    % (pid, code, second, want, r2)))
    r3 = outcome(o1.wait, 0)
    if r3 != ("ok", code):
        bad.append(("reuse:first-object-forgot", "old object's wait() -> %r, expected the cached %d" % (r3, code)))
    return bad, "reuse"


def run_midreuse(arg):
    """INSIDE one wait() on a process that is not our child: it goes away and its pid is given to a NEW CHILD of the calling
    program (another thread's subprocess), which later exits with its own status.  wait() may answer None (the process waited
    for is gone) or run out of time -- never the newcomer's status, and it must not reap the newcomer behind its owner's back"""
    seed, t_swap, t_exit, timeout = arg
    import psutil
    w = World(ncpus=1)
    w.spawn(1, ppid=0, comm=b"init", start=1)
    w.spawn(w.mypid, ppid=1, comm=b"caller", start=50)
    pid = 3400 + seed % 40
    w.spawn(pid, ppid=1, comm=b"stranger", start=900)
    use_world(w)
    w.logging = False
    bad = []
    o1 = psutil.Process(pid)
    state = {}

    def swap(ww):
        ww.vanish(pid)
        ww.tick(1)
        q = ww.spawn(pid, ppid=ww.mypid, comm=b"our-new-child")
        q.is_child = True
        state["uid"] = q.uid
    w.at(w.mono + t_swap, swap)
    w.at(w.mono + t_exit, lambda ww: ww.exit(pid, 7 << 8) if pid in ww.procs and not ww.procs[pid].zombie else None)
    r = outcome(o1.wait, timeout)
    if r[0] == "ok" and r[1] is not None:
        bad.append(("midreuse:status-of-another-process", "wait(%r) on a non-child whose pid was handed to a new child of ours during the call -> %r "
                    "(the newcomer exits with 7)" % (timeout, r)))
    elif r[0] == "exc" and r[1] != "TimeoutExpired":
        bad.append(("midreuse:wait-raised:%s" % r[1], repr(r)))
    q = w.procs.get(pid)
    if "uid" in state and w.mono >= 0 and (q is None or q.uid != state["uid"]) and state["uid"] in getattr(w, "dead", {}):
        if getattr(w.dead[state["uid"]], "reaped_by_waitpid", True) and q is None:
            bad.append(("midreuse:newcomer-reaped-by-wait", "the new child (exit status 7) was reaped by the wait() of another Process object"))
    return bad, "midreuse"


# ------------------------------------------------------------------ psutil.Popen on the real kernel
POPEN_ENDS = [("exit", 0), ("exit", 3), ("exit", 255), ("sig", 9), ("sig", 15)]
POPEN_SEQS = [("wait", "wait"), ("wait", "poll", "wait"), ("wait", "communicate", "wait"), ("wait", "ctx", "wait"),
              ("poll-until", "wait", "poll", "wait"), ("wait0-until", "wait"), ("wait", "returncode", "poll", "poll", "wait")]


def live_popen(arg):
    """psutil.Popen (the subprocess.Popen wrapper) with real children: the status reported first is the status reported ever
    after, whatever the subprocess half of the object is asked in between"""
    (how, n), seq = arg
    import signal
    import subprocess
    import sys
    import time
    from vf.harness import seams
    try:
        seams().uninstall()
    except Exception:  # noqa: BLE001
        pass
    import psutil
    code = "import sys; sys.exit(%d)" % n if how == "exit" else "import os, signal; os.kill(os.getpid(), %d)" % n
    want = n if how == "exit" else -n
    bad = []
    p = psutil.Popen([sys.executable, "-S", "-c", code], stdout=subprocess.PIPE, stderr=subprocess.DEVNULL)
    try:
        seen = []
        firsts = []
        for step in seq:
            if step == "wait":
                o = outcome(p.wait, 30)
                seen.append(("wait", o))
                if o[0] == "ok":
                    firsts.append((type(o[1]).__name__, repr(o[1])))
                    if firsts[0] != firsts[-1]:
                        bad.append(("popen:later-wait-returns-another-object-kind", "child ended by %s %d; sequence %r: first wait() -> %s %s, a later "
                                    "one -> %s %s" % (how, n, seq, firsts[0][0], firsts[0][1], firsts[-1][0], firsts[-1][1])))
                        break
                if o[0] != "ok" or o[1] != want:
                    bad.append(("popen:wait-status", "child ended by %s %d; sequence %r: wait() -> %r after %r" % (how, n, seq, o, seen[:-1])))
                    break
            elif step == "poll":
                seen.append(("poll", outcome(p.poll)))
            elif step == "returncode":
                seen.append(("returncode", p.returncode))
            elif step == "communicate":
                seen.append(("communicate", outcome(p.communicate)[0]))
            elif step == "ctx":
                seen.append(("ctx", outcome(p.__exit__, None, None, None)[0]))
            elif step == "poll-until":
                t0 = time.time()
                while p.poll() is None and time.time() - t0 < 30:
                    time.sleep(0.005)
                seen.append(("poll-until", p.returncode))
            elif step == "wait0-until":
                t0 = time.time()
                while time.time() - t0 < 30:
                    o = outcome(p.wait, 0)
                    if o[0] == "ok":
                        break
                    time.sleep(0.005)
                seen.append(("wait0-until", o))
                if o != ("ok", want):
                    bad.append(("popen:wait-status", "sequence %r: wait(0) loop ended with %r, expected %r" % (seq, o, want)))
    finally:
        try:
            p.kill()
        except Exception:  # noqa: BLE001
            pass
        try:
            p.wait(5)
        except Exception:  # noqa: BLE001
            pass
        for f in (p.stdout,):
            try:
                f.close()
            except Exception:  # noqa: BLE001
                pass
    return bad, "popen:" + ("ok" if not bad else "bad")


def t_wait(arg):
    r = run_wait(arg)
    return judge_wait(arg, r), (r["out"][0], r["out"][1] if r["out"][0] == "exc" else "value")


def run(ctx):
    sc = scenarios(ctx.seed, ctx.thorough)
    res = ctx.pmap(t_wait, sc)
    viols, labels = [], {}
    for a, (bad, lab) in zip(sc, res):
        labels[str(lab)] = labels.get(str(lab), 0) + 1
        for cause, msg in bad:
            viols.append({"cause": cause, "msg": msg, "case": {"wait": [a[0], list(a[1]), a[2], a[3], list(a[4]), a[5], a[6]] + [list(x) for x in a[7:]]}})
    ps = proc_scenarios(ctx.seed, ctx.thorough)
    res2 = ctx.pmap(run_procs, ps)
    for a, (bad, lab) in zip(ps, res2):
        labels["procs:" + lab] = labels.get("procs:" + lab, 0) + 1
        for cause, msg in bad:
            viols.append({"cause": cause, "msg": msg, "case": {"procs": [a[0], list(a[1]), list(a[2]), a[3], a[4], a[5]] + list(a[6:])}})
    rc_ = [(ctx.seed, code, second) for code in (0, 3, 255) for second in ("other", "child7", "alive")]
    for a, (bad, lab) in zip(rc_, ctx.pmap(run_reuse, rc_)):
        labels[lab] = labels.get(lab, 0) + 1
        for cause, msg in bad:
            viols.append({"cause": cause, "msg": msg, "case": {"reuse": list(a)}})
    mr = [(ctx.seed, ts, te, to) for ts in (0.0005, 0.02, 0.1) for te in (0.03, 0.12, 0.2) if te > ts for to in (0.15, 0.4)]
    for a, (bad, lab) in zip(mr, ctx.pmap(run_midreuse, mr)):
        labels[lab] = labels.get(lab, 0) + 1
        for cause, msg in bad:
            viols.append({"cause": cause, "msg": msg, "case": {"midreuse": list(a)}})
    pc = [(e, q) for e in POPEN_ENDS for q in POPEN_SEQS]
    for a, (bad, lab) in zip(pc, ctx.pmap(live_popen, pc, chunk=1)):
        labels[lab] = labels.get(lab, 0) + 1
        for cause, msg in bad:
            viols.append({"cause": cause, "msg": msg, "case": {"popen": [list(a[0]), list(a[1])]}})
    # schedule part: one Process object, thread A inside a blocking wait(), thread B asking with a timeout (vf/checks/c15s.py)
    sres = {"violations": [], "coverage": {"executions": 0}}
    if not ctx.alt:
        from vf.checks import c15s
        ctx.close()
        sres = c15s.run_s(ctx)
        viols += sres["violations"]
    cov = {"popen_live_sequences": len(pc), "pid_reuse_sequences": len(rc_), "schedules": sres["coverage"],
           "evaluations": len(sc) + len(ps) + len(pc) + len(rc_) + sres["coverage"]["executions"], "distinct_nontrivial": len({repr(a) for a in sc}) + len({repr(a) for a in ps}) + len(pc),
           "rule": "one evaluation = one execution of Process.wait()/wait_procs() in virtual time for one (subject kind, timeout, exit "
                   "instant, EINTR set, sleep overshoot) / (process kinds, exit-instant vector, timeout, callback); exit instants cover "
                   "every polling instant of the dry run, every midpoint and the deadline neighbourhood; distinct by construction",
           "wait_scenarios": len(sc), "wait_procs_scenarios": len(ps), "outcomes": labels, "exhaustive": True,
           "samples": [list(map(str, a)) for a in sample(sc, 4)] + [list(map(str, a)) for a in sample(ps, 3)]}
    return {"coverage": cov, "violations": viols,
            "assumptions": ["virtual monotonic clock; the subject's state changes only at its scheduled exit instant",
                            "TimeoutExpired is legitimate iff the process was still alive at the deadline (exit instant >= deadline)"]}


def replay(ctx, case):
    if isinstance(case, dict) and case.get("part") == "S":
        from vf.checks import c15s
        return c15s.replay_s(ctx, case)
    if "reuse" in case:
        bad, _ = run_reuse(tuple(case["reuse"]))
        return {"violated": bool(bad), "viols": bad}
    if "midreuse" in case:
        bad, _ = run_midreuse(tuple(case["midreuse"]))
        return {"violated": bool(bad), "viols": bad}
    if "popen" in case:
        bad, _ = live_popen((tuple(case["popen"][0]), tuple(case["popen"][1])))
        return {"violated": bool(bad), "viols": bad}
    if "wait" in case:
        a = case["wait"]
        arg = (a[0], tuple(a[1]), a[2], a[3], tuple(a[4]), a[5], a[6]) + tuple(tuple(x) for x in a[7:])
        r = run_wait(arg)
        bad = judge_wait(arg, r)
        return {"violated": bool(bad), "viols": bad, "trace": r["trace"][-12:], "out": r["out"]}
    a = case["procs"]
    bad, lab = run_procs((a[0], tuple(a[1]), tuple(a[2]), a[3], a[4], a[5]) + tuple(a[6:]))
    return {"violated": bool(bad), "viols": bad}
