"""C11 — net_connections(): every socket once, right kind, addresses, owner.
Explorer I: socket tables rendered into /proc/net/{tcp,tcp6,udp,udp6,unix} +
/proc/<pid>/fd links by an independent renderer (from network-order bytes),
decoded by the real code, compared with an independent decoder."""
import ipaddress
import itertools
import socket
import struct

from vf.harness import use_world, outcome, freeze, sample, guarded, add_histories, history_of
from vf.simk.world import World, FD

ID = "C11"
LEVEL = "exploration"
ALT_MOUNT = True          # run once more with procfs mounted at /hostproc (vf/child.py)
V4 = ["0.0.0.0", "127.0.0.1", "10.1.2.3", "255.255.255.255"]
V6 = ["::", "::1", "::ffff:127.0.0.1", "fe80::1", "2001:db8::ff"]
PORTS = [0, 1, 22, 65535]
TCP_STATES = {"01": "ESTABLISHED", "02": "SYN_SENT", "03": "SYN_RECV", "04": "FIN_WAIT1", "05": "FIN_WAIT2",
              "06": "TIME_WAIT", "07": "CLOSE", "08": "CLOSE_WAIT", "09": "LAST_ACK", "0A": "LISTEN", "0B": "CLOSING"}
UPATHS = [None, "/run/x", "@abstract", "/tmp/a b", "/a:b", "/tmp/é", "/tmp/a  b", "/tmp/t\tb", "/tmp/end ", "@a b  c",
          # characters that some line splitters (not the kernel's '\n') treat as line ends
          "/tmp/v\x0bt", "/tmp/f\x0cf", "/tmp/fs\x1cx", "/tmp/gs\x1d rs\x1e", "/tmp/nel\x85x", "/tmp/ls\u2028x"]
KINDS = ["all", "tcp", "tcp4", "tcp6", "udp", "udp4", "udp6", "unix", "inet", "inet4", "inet6"]
BADKINDS = ["", "TCP", "raw", None, "t", "tcp, udp", "4", 4]
KTAB = {"all": ["tcp", "tcp6", "udp", "udp6", "unix"], "tcp": ["tcp", "tcp6"], "tcp4": ["tcp"], "tcp6": ["tcp6"],
        "udp": ["udp", "udp6"], "udp4": ["udp"], "udp6": ["udp6"], "unix": ["unix"], "inet": ["tcp", "tcp6", "udp", "udp6"],
        "inet4": ["tcp", "udp"], "inet6": ["tcp6", "udp6"]}
HDR4 = b"  sl  local_address rem_address   st tx_queue rx_queue tr tm->when retrnsmt   uid  timeout inode\n"
HDR6 = b"  sl  local_address                         remote_address                        st tx_queue rx_queue tr tm->when retrnsmt   uid  timeout inode\n"
HDRU = b"Num       RefCount Protocol Flags    Type St Inode Path\n"


def hex4(ip, be=False):
    b = socket.inet_pton(socket.AF_INET, ip)           # network order bytes
    return "%08X" % struct.unpack(">I" if be else "<I", b)[0]         # kernel: %08X of the __be32 read as a host word


def hex6(ip, be=False):
    b = socket.inet_pton(socket.AF_INET6, ip)
    return "".join("%08X" % struct.unpack(">I" if be else "<I", b[i:i + 4])[0] for i in range(0, 16, 4))


def render(socks, be=False):
    files = {"tcp": [HDR4], "udp": [HDR4], "tcp6": [HDR6], "udp6": [HDR6], "unix": [HDRU]}
    for n, s in enumerate(socks):
        pr = s["proto"]
        if pr == "unix":
            line = "%016X: %08X %08X %08X %04X %02X %5d" % (0, 2, 0, 0x10000, s["type"], 1, s["inode"])
            if s["path"] is not None:
                line += " " + s["path"]
            files["unix"].append(line.encode("utf-8", "surrogateescape") + b"\n")
        else:
            hx = hex6 if pr.endswith("6") else hex4
            line = "%4d: %s:%04X %s:%04X %s %08X:%08X %02X:%08X %08X %5d %8d %d 1 0000000000000000 100 0 0 10 0" % (
                n, hx(s["l"][0], be), s["l"][1], hx(s["r"][0], be), s["r"][1], s["st"], 0, 0, 0, 0, 0, 1000, 0, s["inode"])
            files[pr].append(line.encode() + b"\n")
    return {k: b"".join(v) for k, v in files.items()}


def fam_type(s):
    pr = s["proto"]
    if pr == "unix":
        return "AddressFamily.AF_UNIX", {1: "SocketKind.SOCK_STREAM", 2: "SocketKind.SOCK_DGRAM", 5: "SocketKind.SOCK_SEQPACKET"}[s["type"]]
    fam = "AddressFamily.AF_INET6" if pr.endswith("6") else "AddressFamily.AF_INET"
    return fam, "SocketKind.SOCK_STREAM" if pr.startswith("tcp") else "SocketKind.SOCK_DGRAM"


def ref_rows(socks, holders, kind, only_pid=None):
    """set of expected rows (fd, family, type, laddr, raddr, status, pid); for inet sockets with several holders
    a set of alternatives is returned per socket -> list of alternative-sets"""
    out = []
    for s in socks:
        if s["proto"] not in KTAB[kind]:
            continue
        fam, typ = fam_type(s)
        hs = holders.get(s["inode"], [])
        if s["proto"] == "unix":
            la, ra, st = (s["path"] if s["path"] is not None else ""), "", "NONE"
        else:
            def ad(a):
                if a[1] == 0:
                    return []
                txt = str(ipaddress.ip_address(a[0])) if not s["proto"].endswith("6") else socket.inet_ntop(
                    socket.AF_INET6, socket.inet_pton(socket.AF_INET6, a[0]))
                return [txt, a[1]]
            la, ra = ad(s["l"]), ad(s["r"])
            st = TCP_STATES[s["st"]] if s["proto"].startswith("tcp") else "NONE"
        if only_pid is not None:
            mine = [(p, fd) for p, fd in hs if p == only_pid]
            if s["proto"] == "unix":
                for p, fd in mine:
                    out.append([(fd, fam, typ, la, ra, st)])
            elif mine:
                # an inet socket is reported once, attributed to one holder (psutil picks the first it found)
                first = hs[0]
                if first[0] == only_pid:
                    out.append([(fd, fam, typ, la, ra, st) for p, fd in mine])
                else:
                    out.append([(fd, fam, typ, la, ra, st) for p, fd in mine] + [None])
            continue
        if not hs:
            out.append([(-1, fam, typ, la, ra, st, None)])
        elif s["proto"] == "unix":
            for p, fd in hs:
                out.append([(fd, fam, typ, la, ra, st, p)])
        else:
            out.append([(fd, fam, typ, la, ra, st, p) for p, fd in hs])
    return out


def norm_row(r, with_pid):
    d = freeze(r)
    la = d["laddr"]
    ra = d["raddr"]

    def a(x):
        if isinstance(x, dict):
            return [x["ip"], x["port"]]
        if isinstance(x, list):
            return list(x)
        return x
    t = (d["fd"], d["family"], d["type"], a(la), a(ra), d["status"])
    return t + ((d["pid"],) if with_pid else ())


def match(exp_alts, got_rows):
    """set semantics (psutil returns list(set(rows))): every expected socket is matched by a got row (one of its
    alternatives) - sockets whose rows are identical share one row; no got row is left unexplained"""
    got = list(got_rows)
    used = []
    for alts in exp_alts:
        hit = None
        for al in alts:
            if al is None:
                hit = "skip"
                continue
            t = tuple(al[:3]) + (al[3], al[4]) + tuple(al[5:])
            for g in got:
                if list(g) == list(t):
                    hit = g
                    break
            if hit in (None, "skip"):
                for g in used:
                    if list(g) == list(t):
                        hit = "shared"
                        break
            if hit not in (None, "skip"):
                break
        if hit is None:
            return "missing", alts
        if hit not in ("skip", "shared"):
            got.remove(hit)
            used.append(hit)
    if got:
        return "extra", got
    return None, None


def mk_world(seed):
    w = World(ncpus=2)
    w.spawn(1, ppid=0, comm=b"init", start=1)
    w.spawn(w.mypid, ppid=1, comm=b"caller", start=50)
    pa = w.spawn(800 + seed % 20, ppid=1, comm=b"a", start=100)
    pb = w.spawn(840 + seed % 20, ppid=1, comm=b"b", start=101)
    return w, pa, pb


def apply_case(w, pa, pb, socks, hold, ipv6=True, be=False):
    files = render(socks, be)
    for k, v in files.items():
        if k.endswith("6") and not ipv6:
            w.remove("/proc/net/" + k)
        else:
            w.set_file("/proc/net/" + k, v)
    pa.fds, pb.fds = {0: FD("/dev/null", "chr")}, {0: FD("/dev/null", "chr")}
    holders = {}
    for inode, hs in hold.items():
        for who, fd in hs:
            p = pa if who == "a" else pb
            p.fds[fd] = FD("socket:[%d]" % inode, "sock")
            holders.setdefault(int(inode), []).append((p.pid, fd))
    return holders


PROC_NAMES = ("net_connections", "connections")      # Process.connections: the deprecated, still public, alias (psutil < 6 name)
DEFAULT_KIND = "inet"                                # documented default of both functions


def call_forms(obj, names, kind):
    """every way of asking obj for the connections of `kind`: each entry-point name x (positional, keyword, and - when
    kind is the documented default - no argument). [0] is the plain positional call of the primary name."""
    forms = []
    for nm in names:
        f = getattr(obj, nm)
        forms.append((nm + "(%r)", (lambda f=f: f(kind))))
        forms.append((nm + "(kind=%r)", (lambda f=f: f(kind=kind))))
        if kind == DEFAULT_KIND:
            forms.append((nm + "()  # kind %r", (lambda f=f: f())))
    return forms


def quiet(fn):
    import warnings
    with warnings.catch_warnings():
        warnings.simplefilter("ignore", DeprecationWarning)     # the alias announces its deprecation; its answer is what is checked
        return fn()


def feature(socks, what):
    if any(s["proto"] == "unix" and s["path"] and " " in s["path"] for s in socks):
        return "unix-path-with-space"
    return what


def run_case(case, st):
    import psutil
    w, pa, pb = st
    socks, hold, ipv6 = case["socks"], {int(k): v for k, v in case["hold"].items()}, case.get("ipv6", True)
    be = case.get("be", False)
    psutil._pslinux.LITTLE_ENDIAN = not be          # the host's byte order (sys.byteorder at import): tables of a big-endian host
    try:
        bad = _run_case(psutil, case, st, socks, hold, ipv6, be)
    finally:
        psutil._pslinux.LITTLE_ENDIAN = True
    if "then" in case:
        # the next call of the same program: whatever this one left behind must not leak into it
        bad = bad + [("after-an-earlier-call:" + c, m) for c, m in run_case(case["then"], st)]
    return bad


def _run_case(psutil, case, st, socks, hold, ipv6, be):
    w, pa, pb = st
    # whether THIS process can bind ::1 says nothing about the kernel's tables: with the probe negative (IPv6 disabled on lo) and the
    # tables present, the sockets they list are reported
    w.ipv6 = case.get("probe6", True)
    holders = apply_case(w, pa, pb, socks, hold, ipv6, be)
    if not ipv6:
        socks = [s for s in socks if not s["proto"].endswith("6")]
    # holder order as psutil discovers it: ascending pid, then fd listing order
    for k in holders:
        holders[k].sort()
    bad = []
    for kind in case.get("kinds", KINDS):
        # the other spellings of the same system-wide question answer like the positional one (compared with the same reference)
        for label, fn in call_forms(psutil, ("net_connections",), kind)[1:]:
            got = outcome(quiet, fn)
            if got[0] != "ok":
                bad.append(("call-form-raised:system:%s:%s" % (label, got[1]), "psutil.%s raised %r" % (label % kind, got)))
                continue
            why, what = match(ref_rows(socks, holders, kind), [norm_row(r, True) for r in got[1]])
            if why:
                bad.append(("call-form:system:%s:%s" % (label, why), "psutil.%s: %s %r; got %r" % (label % kind, why, what, got[1])))
        got = outcome(psutil.net_connections, kind)
        if got[0] != "ok":
            bad.append(("net_connections-raised:%s:%s" % (got[1], feature(socks, "x")), "net_connections(%r) raised %r" % (kind, got)))
            continue
        rows = [norm_row(r, True) for r in got[1]]
        why, what = match(ref_rows(socks, holders, kind), rows)
        if why:
            bad.append(("system:%s:%s" % (why, feature(socks, kind if why == "extra" else "row")),
                        "net_connections(%r): %s %r; got %r" % (kind, why, what, rows)))
        for p in (pa, pb):
            got = outcome(psutil.Process(p.pid).net_connections, kind)
            if got[0] != "ok":
                bad.append(("proc-raised:%s" % got[1], "Process.net_connections(%r) raised %r" % (kind, got)))
                continue
            rows = [norm_row(r, False) for r in got[1]]
            why, what = match(ref_rows(socks, holders, kind, only_pid=p.pid), rows)
            if why:
                bad.append(("process:%s:%s" % (why, feature(socks, "row")), "Process(%d).net_connections(%r): %s %r; got %r"
                            % (p.pid, kind, why, what, rows)))
            # every other public spelling of the per-process question (keyword argument, the deprecated alias
            # Process.connections, the default kind) answers like the positional one
            for label, fn in call_forms(psutil.Process(p.pid), PROC_NAMES, kind)[1:]:
                got = outcome(quiet, fn)
                if got[0] != "ok":
                    bad.append(("call-form-raised:process:%s:%s" % (label, got[1]), "Process(%d).%s raised %r" % (p.pid, label % kind, got)))
                    continue
                why, what = match(ref_rows(socks, holders, kind, only_pid=p.pid), [norm_row(r, False) for r in got[1]])
                if why:
                    bad.append(("call-form:process:%s:%s" % (label, why), "Process(%d).%s: %s %r; got %r"
                                % (p.pid, label % kind, why, what, got[1])))
    for bk in case.get("badkinds", []):
        for fn in (psutil.net_connections, psutil.Process(pa.pid).net_connections):
            got = outcome(fn, bk)
            if not (got[0] == "exc" and got[1] == "ValueError"):
                bad.append(("unknown-kind-accepted", "net_connections(%r) -> %r" % (bk, freeze(got))))
        for obj, names, scope in ((psutil, ("net_connections",), "system"), (psutil.Process(pa.pid), PROC_NAMES, "process")):
            for label, fn in call_forms(obj, names, bk)[1:]:
                got = outcome(quiet, fn)
                if not (got[0] == "exc" and got[1] == "ValueError"):
                    bad.append(("unknown-kind-accepted:call-form:%s:%s" % (scope, label), "%s -> %r" % (label % (bk,), freeze(got))))
    return bad


def worker(chunk):
    seed, cases = chunk
    w, pa, pb = mk_world(seed)
    use_world(w)
    w.logging = False
    return [guarded(run_case, c, (w, pa, pb)) for c in cases]


# ---------------------------------------------------------------- F part
F_SOCKS = [{"proto": "tcp", "l": ["10.1.2.3", 22], "r": ["10.1.2.3", 1], "st": "01", "inode": 6001},
           {"proto": "unix", "type": 1, "path": "/run/x", "inode": 6002},
           {"proto": "udp6", "l": ["::1", 53], "r": ["::", 0], "st": "07", "inode": 6003}]
F_FDS = {3: "/tmp/f", 4: "socket:[6001]", 5: "pipe:[77]", 6: "socket:[6002]", 7: "/tmp/f", 8: "socket:[6003]"}


def f_run(arg):
    seed, plan, mode = arg
    import psutil
    from vf.explore.deviate import PlanHook
    w, pa, pb = mk_world(seed)
    use_world(w)
    w.set_file("/tmp/f", b"x")
    for k, v in render(F_SOCKS).items():
        w.set_file("/proc/net/" + k, v)
    pa.fds = {fd: FD(t, "sock" if t.startswith("socket") else "reg") for fd, t in F_FDS.items()}
    if any(d == "die" for _, d in plan):
        pb.fds = {fd + 10: FD(t, "sock") for fd, t in F_FDS.items() if t.startswith("socket")}     # (a pre-fork sibling)
    closed = []

    died = []

    def apply(world, dev, kind, subj, pid):
        if dev == "die":
            # the process itself exits and is reaped at this point of the scan (its sockets may live on in a sibling: pb holds
            # the same inodes, so the system tables still list them)
            if pa.pid in world.procs:
                world.vanish(pa.pid)
                died.append(True)
            return
        fd = int(dev.split(":")[1])
        if fd in pa.fds:
            del pa.fds[fd]
            closed.append(fd)
    hook = PlanHook(plan, apply)
    obj = psutil.Process(pa.pid) if mode != "system" else None
    w.hook = hook
    w.logging = False
    if mode == "system":
        out = outcome(psutil.net_connections, "all")
    else:
        out = outcome(obj.net_connections, "all")
    w.hook = None
    bad = []
    if died:
        # the complete listing it had, or NoSuchProcess -- never a part of it
        if out[0] == "exc" and out[1] == "NoSuchProcess":
            pass
        elif out[0] != "ok":
            bad.append(("raised-when-the-process-exits:%s:%s" % (mode, out[1]), "%r (plan %r)" % (out, plan)))
        else:
            rows = [norm_row(r, False) for r in out[1]]
            have = {r[0] for r in rows}
            want = {f for f, t in F_FDS.items() if t.startswith("socket")}
            if have != want:
                bad.append(("part-of-the-sockets-of-a-process-that-exited-during-the-scan",
                            "process exited during the scan (plan %r): rows for fds %r, it held %r -- neither its listing nor NoSuchProcess"
                            % (plan, sorted(have), sorted(want))))
        return {"accesses": hook.accesses, "bad": bad}
    if out[0] != "ok":
        bad.append(("raised-when-fd-closes:%s:%s" % (mode, out[1]), "%r with fds %r closing (plan %r)" % (out, closed, plan)))
        return {"accesses": hook.accesses, "bad": bad}
    rows = [norm_row(r, mode == "system") for r in out[1]]
    for s in F_SOCKS:
        fd = [f for f, t in F_FDS.items() if t == "socket:[%d]" % s["inode"]][0]
        mine = [r for r in rows if r[0] == fd]
        if fd not in closed and not mine:
            bad.append(("holder-lost-when-another-fd-closes:%s" % mode,
                        "fd %d (inode %d) stayed open but no row carries it: %r; closed during scan: %r" % (fd, s["inode"], rows, closed)))
    return {"accesses": hook.accesses, "bad": bad}


def f_part(ctx):
    plans = []
    for mode in ("system", "process"):
        base = f_run((ctx.seed, (), mode))
        plans.append((ctx.seed, (), mode))
        for i, (kind, subj, pid) in enumerate(base["accesses"]):
            if pid is None or not isinstance(subj, str) or "/fd" not in subj:
                continue
            for fd in F_FDS:
                plans.append((ctx.seed, ((i, "close:%d" % fd),), mode))
        if mode == "process":
            r0 = f_run((ctx.seed, ((10 ** 6, "die"),), mode))       # (same world as the die plans: the sibling holds the sockets too)
            for i, (kind, subj, pid) in enumerate(r0["accesses"]):
                plans.append((ctx.seed, ((i, "die"),), mode))
    res = ctx.pmap(f_run, plans)
    viols = []
    for pl, r in zip(plans, res):
        for cause, msg in r["bad"]:
            viols.append({"cause": cause, "msg": msg, "case": {"f": [[list(x) for x in pl[1]], pl[2]]}})
    return len(plans), viols


def build_cases(thorough):
    cases = []
    ino = 5000
    # (1) one inet socket: every (laddr, raddr) x port pair, held by a:3
    for proto, addrs in (("tcp", V4), ("udp", V4), ("tcp6", V6), ("udp6", V6)):
        for la, ra in itertools.product(addrs, repeat=2):
            for lp, rp in itertools.product(PORTS, repeat=2):
                if not thorough and (la, lp) != (addrs[1], 22) and (ra, rp) != (addrs[2], 1):
                    continue
                s = {"proto": proto, "l": [la, lp], "r": [ra, rp], "st": "01" if proto.startswith("tcp") else "07", "inode": ino}
                cases.append({"socks": [s], "hold": {ino: [["a", 3]]}, "kinds": ["all", proto[:3] + ("6" if proto.endswith("6") else "4")]})
                if (lp, rp) == (22, 1) or thorough:
                    cases.append({"socks": [s], "hold": {ino: [["a", 3]]}, "kinds": ["all"], "be": True})
    # (2) every TCP state on both families; all kinds
    for st in TCP_STATES:
        for proto in ("tcp", "tcp6"):
            a = V4[2] if proto == "tcp" else V6[4]
            cases.append({"socks": [{"proto": proto, "l": [a, 22], "r": [a, 65535], "st": st, "inode": ino}], "hold": {ino: [["b", 4]]}})
    # (3) unix: type x path x holders
    hsets = [[], [["a", 3]], [["a", 3], ["a", 4]], [["a", 3], ["b", 5]], [["b", 9]]]
    for typ in (1, 2, 5):
        for path in UPATHS:
            for hs in hsets:
                cases.append({"socks": [{"proto": "unix", "type": typ, "path": path, "inode": ino}], "hold": {ino: hs},
                              "kinds": ["all", "unix", "inet"]})
    # (4) inet holders
    for proto in ("tcp", "udp6"):
        a = V4[1] if proto == "tcp" else V6[1]
        for hs in hsets:
            cases.append({"socks": [{"proto": proto, "l": [a, 22], "r": [a, 0], "st": "0A" if proto == "tcp" else "07", "inode": ino}],
                          "hold": {ino: hs}})
    # (4b) the same program calling again after the descriptor tables changed: a shared socket, then one holder closed it /
    #      moved it to another descriptor / handed it to the other process
    for proto in ("tcp", "unix"):
        base = ({"proto": "tcp", "l": ["127.0.0.1", 22], "r": ["0.0.0.0", 0], "st": "0A", "inode": ino} if proto == "tcp" else
                {"proto": "unix", "type": 1, "path": "/run/x", "inode": ino})
        seqs = [([["a", 3], ["b", 3]], [["b", 3]]), ([["a", 3], ["b", 3]], [["a", 3]]), ([["a", 3]], [["a", 9]]), ([["a", 3]], [["b", 3]]),
                ([["a", 3], ["b", 5]], [["a", 5], ["b", 3]]), ([["a", 3]], [])]
        for h1, h2 in seqs:
            cases.append({"socks": [base], "hold": {ino: h1}, "kinds": ["all"],
                          "then": {"socks": [base], "hold": {ino: h2}, "kinds": ["all", "unix" if proto == "unix" else "tcp4"]}})
    # (4c) ownerless sockets: the kernel prints inode 0 for every TIME_WAIT / SYN_RECV / orphaned socket -- several rows of one
    #      table carry the same (zero) inode and are different sockets all the same
    tw = [{"proto": "tcp", "l": ["10.1.2.3", 22], "r": ["10.1.2.3", 40000 + i], "st": "06", "inode": 0} for i in range(3)]
    tw6 = [{"proto": "tcp6", "l": ["::1", 22], "r": ["::1", 50000 + i], "st": ["06", "03"][i], "inode": 0} for i in range(2)]
    held = {"proto": "tcp", "l": ["10.1.2.3", 22], "r": ["0.0.0.0", 0], "st": "0A", "inode": ino + 50}
    cases.append({"socks": tw + tw6 + [held], "hold": {0: [], ino + 50: [["a", 3]]}, "kinds": ["all", "tcp", "tcp4", "tcp6", "inet"]})
    cases.append({"socks": tw[:2], "hold": {0: []}, "kinds": ["all", "tcp4"]})
    # (5) mixed tables: all multisets of n sockets from a menu, all kinds + bad kinds
    menu = [
        {"proto": "tcp", "l": ["10.1.2.3", 22], "r": ["10.1.2.3", 1], "st": "01"},
        {"proto": "tcp6", "l": ["::1", 22], "r": ["::", 0], "st": "0A"},
        {"proto": "udp", "l": ["0.0.0.0", 1], "r": ["0.0.0.0", 0], "st": "07"},
        {"proto": "udp6", "l": ["fe80::1", 65535], "r": ["::", 0], "st": "07"},
        {"proto": "unix", "type": 1, "path": "/run/x"},
        {"proto": "unix", "type": 2, "path": None},
    ]
    nmax = 4 if thorough else 2
    for n in range(0, nmax + 1):
        for combo in itertools.combinations_with_replacement(range(len(menu)), n):
            socks, hold = [], {}
            for i, mi in enumerate(combo):
                s = dict(menu[mi])
                s["inode"] = ino + 1 + i
                socks.append(s)
                hold[ino + 1 + i] = [[], [["a", 3 + i]], [["b", 3 + i], ["a", 7 + i]]][i % 3]
            cases.append({"socks": socks, "hold": hold, "badkinds": BADKINDS if n < 2 else []})
            if any(s["proto"].endswith("6") for s in socks):
                cases.append({"socks": socks, "hold": hold, "ipv6": False})
                cases.append({"socks": socks, "hold": hold, "probe6": False})
    return cases


def run(ctx):
    cases = build_cases(ctx.thorough)
    n = max(1, len(cases) // (ctx.ncpu * 4))
    chunks = [(ctx.seed, cases[i:i + n]) for i in range(0, len(cases), n)]
    res = [r for ch in ctx.pmap_fresh(worker, chunks) for r in ch]
    viols = []
    ncalls = 0
    for _i, (c, bad) in enumerate(zip(cases, res)):
        ks = c.get("kinds", KINDS)
        ncalls += 3 * len(ks) + 2 * len(c.get("badkinds", []))
        ncalls += 7 * len(ks) + 5 * ks.count(DEFAULT_KIND) + 4 * len(c.get("badkinds", []))      # the other call forms (call_forms)
        for cause, msg in bad:
            viols.append({"cause": cause, "msg": msg, "case": c, "_idx": _i})
    nf, fv = f_part(ctx)
    viols += fv
    ncalls += nf
    sres = {"violations": [], "coverage": {"executions": 0}}
    if not ctx.alt:
        from vf.checks import c11s
        ctx.close()
        sres = c11s.run_s(ctx)
        viols += sres["violations"]
        ncalls += sres["coverage"]["executions"]
    cov = {"schedules": sres["coverage"], "fd_closing_runs": nf, "evaluations": ncalls, "distinct_nontrivial": len({repr(c) for c in cases if c["socks"]}),
           "rule": "one case = one socket table (rendered from network-order bytes) + holder map; each case is queried system-wide and "
                   "per process for the listed kinds, through every call form (positional / kind= / no argument for the default kind; per process "
                   "also through the deprecated alias Process.connections) (evaluations = calls made); distinct_nontrivial = distinct non-empty tables",
           "tables": len(cases), "exhaustive": True, "samples": sample(cases, 5),
           "bounds": "single sockets: all address x port pairs (quick: one endpoint fixed), all 11 TCP states, unix type x path x holder sets; "
                     "mixed tables: all multisets of <= %d sockets of a 6-entry menu x all 11 kinds" % (4 if ctx.thorough else 2)}
    return {"coverage": cov, "violations": add_histories(viols, cases, n, (lambda c: c)),
            "assumptions": ["rows are compared as sets (psutil returns list(set(...)): sockets with identical rows are indistinguishable)",
                            "an inet socket shared by several holders is attributed to any one of them",
                            "newline inside a UNIX path is outside the alphabet (the kernel's table is not injective there)"]}


def replay(ctx, case):
    if isinstance(case, dict) and case.get("part") == "S":
        from vf.checks import c11s
        return c11s.replay_s(ctx, case)
    if "f" in case:
        r = f_run((ctx.seed, tuple(tuple(x) for x in case["f"][0]), case["f"][1]))
        return {"violated": bool(r["bad"]), "viols": r["bad"]}
    w, pa, pb = mk_world(ctx.seed)
    use_world(w)
    for c in history_of(case):
        bad = guarded(run_case, c, (w, pa, pb))
    return {"violated": bool(bad), "viols": bad}
