"""C08 — virtual_memory() and swap_memory() follow the documented formulas.
Explorer I: every subset of the 14 optional /proc/meminfo keys x value regimes x
zoneinfo x vmstat variants; reference written from the statement + the kernel
commit cited for the fallback estimate; warnings compared as sets of metric names."""
import itertools
import warnings

from vf.harness import use_world, outcome, freeze, sample, guarded, add_histories, history_of
from vf.simk.world import World, PAGESIZE

ID = "C08"
LEVEL = "exploration"
ALT_MOUNT = True          # run once more with procfs mounted at /hostproc (vf/child.py)
OPT = ["MemAvailable", "Buffers", "Cached", "SReclaimable", "Shmem", "MemShared", "Active", "Inactive", "Inact_dirty",
       "Inact_clean", "Inact_laundry", "Slab", "Active(file)", "Inactive(file)"]
# regime -> values in kB (each key a distinct value so that a swapped key shows)
REGIMES = {
    "normal": dict(MemTotal=16000000, MemFree=4000000, MemAvailable=9000000, Buffers=500000, Cached=3000000, SReclaimable=400000,
                   Shmem=300000, MemShared=310000, Active=5000000, Inactive=2000000, Inact_dirty=700000, Inact_clean=600000,
                   Inact_laundry=50000, Slab=700000, **{"Active(file)": 1500000, "Inactive(file)": 1200000}),
    "container": dict(MemTotal=1000000, MemFree=200000, MemAvailable=3000000, Buffers=600000, Cached=900000, SReclaimable=100000,
                      Shmem=30000, MemShared=31000, Active=500000, Inactive=200000, Inact_dirty=70000, Inact_clean=60000,
                      Inact_laundry=5000, Slab=70000, **{"Active(file)": 150000, "Inactive(file)": 120000}),
    "avail0": dict(MemTotal=8000000, MemFree=1000000, MemAvailable=0, Buffers=100000, Cached=2000000, SReclaimable=300000,
                   Shmem=30000, MemShared=31000, Active=500000, Inactive=200000, Inact_dirty=70000, Inact_clean=60000,
                   Inact_laundry=5000, Slab=70000, **{"Active(file)": 1000000, "Inactive(file)": 800000}),
    "total0": dict(MemTotal=0, MemFree=0, MemAvailable=0, Buffers=0, Cached=0, SReclaimable=0, Shmem=0, MemShared=0, Active=0,
                   Inactive=0, Inact_dirty=0, Inact_clean=0, Inact_laundry=0, Slab=0, **{"Active(file)": 0, "Inactive(file)": 0}),
    "free>total": dict(MemTotal=1000000, MemFree=2000000, MemAvailable=500000, Buffers=1000, Cached=2000, SReclaimable=300,
                       Shmem=30, MemShared=31, Active=500, Inactive=200, Inact_dirty=70, Inact_clean=60, Inact_laundry=5,
                       Slab=70, **{"Active(file)": 150, "Inactive(file)": 120}),
    "bigslab": dict(MemTotal=8000000, MemFree=500000, MemAvailable=0, Buffers=1000, Cached=20000, SReclaimable=900000,
                    Shmem=30, MemShared=31, Active=500, Inactive=200, Inact_dirty=70, Inact_clean=60, Inact_laundry=5,
                    Slab=950000, **{"Active(file)": 3000, "Inactive(file)": 1000}),
    "lowwater": dict(MemTotal=4000000, MemFree=10000, MemAvailable=0, Buffers=1000, Cached=20000, SReclaimable=3000,
                     Shmem=30, MemShared=31, Active=500, Inactive=200, Inact_dirty=70, Inact_clean=60, Inact_laundry=5,
                     Slab=70, **{"Active(file)": 6000, "Inactive(file)": 4000}),
}
ZONES = {"absent": None, "one": [3000], "three": [30, 4000, 9000], "huge": [2000000], "mid": [50000, 60000],
         # scale: a many-node machine whose /proc/zoneinfo is much longer than a read buffer (each zone lists per-CPU pagesets)
         "numa": [7 + i for i in range(64)]}
VMSTAT = {"both": b"nr_free_pages 5\npswpin 11\npswpout 13\n", "absent": None, "onlyin": b"pswpin 11\nfoo 3\n",
          "neither": b"nr_free_pages 5\n", "reversed": b"pswpout 13\nx 1\npswpin 11\n", "denied": "deny"}


def meminfo(vals, keys):
    order = ["MemTotal", "MemFree"] + [k for k in OPT if k in keys]
    out = []
    for k in order:
        if k == "SReclaimable":
            # kernels >= 4.20 print the wider KReclaimable pool (slab + ION/dma-buf ...) two lines above; it is NOT what "cached" adds
            out.append(b"KReclaimable:%s%d kB\n" % (b" " * 3, vals[k] + 77777))
        out.append(b"%s:%s%d kB\n" % (k.encode(), b" " * max(1, 15 - len(k)), vals[k]))
    # lines of no concern to virtual_memory(), as every current kernel prints them (one of them without a unit)
    out.append(b"SUnreclaim:        123456 kB\nSwapCached:          4321 kB\nMlocked:               64 kB\nAnonPages:        1234567 kB\n"
               b"Committed_AS:     7654321 kB\nHugePages_Total:       0\nHugepagesize:       2048 kB\nDirectMap4k:      345678 kB\n")
    return b"".join(out)


def zoneinfo(lows):
    out = []
    for i, lo in enumerate(lows):
        out.append(b"Node 0, zone   Z%d\n  pages free     100\n        min      %d\n        low      %d\n        high     %d\n"
                   b"        spanned  9\n  nr_free_pages 3\n      protection: (0, 1, 2)\n" % (i, lo // 2, lo, lo * 2))
        if len(lows) > 8:
            # per-CPU pagesets, as the kernel prints them for every zone: this is what makes the file long
            out.append(b"  pagesets\n" + b"".join(b"    cpu: %d\n              count: 0\n              high:  0\n              batch: 1\n"
                                                 b"  vm stats threshold: 42\n" % c for c in range(24)))
    return b"".join(out)


def ref_vm(vals, keys, lows, pagesize=PAGESIZE):
    K = 1024
    g = lambda k: vals[k] * K          # noqa: E731
    total, free = g("MemTotal"), g("MemFree")
    missing = set()
    buffers = g("Buffers") if "Buffers" in keys else (missing.add("buffers") or 0)
    if "Cached" in keys:
        cached = g("Cached") + (g("SReclaimable") if "SReclaimable" in keys else 0)
    else:
        cached = 0
        missing.add("cached")
    if "Shmem" in keys:
        shared = g("Shmem")
    elif "MemShared" in keys:
        shared = g("MemShared")
    else:
        shared = 0
        missing.add("shared")
    active = g("Active") if "Active" in keys else (missing.add("active") or 0)
    if "Inactive" in keys:
        inactive = g("Inactive")
    elif all(k in keys for k in ("Inact_dirty", "Inact_clean", "Inact_laundry")):
        inactive = g("Inact_dirty") + g("Inact_clean") + g("Inact_laundry")
    else:
        inactive = 0
        missing.add("inactive")
    slab = g("Slab") if "Slab" in keys else 0
    used = total - free - cached - buffers
    if used < 0:
        used = total - free
    # available
    kernel = g("MemAvailable") if "MemAvailable" in keys else None
    if kernel is None or kernel == 0:
        simple = free + (g("Cached") if "Cached" in keys else 0)
        if all(k in keys for k in ("Active(file)", "Inactive(file)", "SReclaimable")) and lows is not None:
            wm = sum(lows) * pagesize            # zone watermarks are in pages
            pagecache = g("Active(file)") + g("Inactive(file)")
            est = free - wm + pagecache - min(pagecache / 2, wm) + g("SReclaimable") - min(g("SReclaimable") / 2.0, wm)
            est = int(est)
        else:
            est = simple
    else:
        est = kernel
    return dict(total=total, free=free, buffers=buffers, cached=cached, shared=shared, active=active, inactive=inactive,
                slab=slab, used=used), est, missing


def run_case(case, w):
    import psutil
    k = case[0]
    bad = []
    if k == "vm":
        regime, keys, zone = case[1], set(case[2]), case[3]
        pagesize = case[4] if len(case) > 4 else PAGESIZE
        psutil._pslinux.PAGESIZE = pagesize           # the machine's page size (4 KiB, or 16/64 KiB on some arm64/ppc64 kernels)
        vals = REGIMES[regime]
        w.set_file("/proc/meminfo", meminfo(vals, keys))
        lows = ZONES[zone]
        if lows is None:
            w.remove("/proc/zoneinfo")
        else:
            w.set_file("/proc/zoneinfo", zoneinfo(lows))
        with warnings.catch_warnings(record=True) as ws:
            warnings.simplefilter("always")
            got = outcome(psutil.virtual_memory)
        exp, est, missing = ref_vm(vals, keys, lows, pagesize)
        psutil._pslinux.PAGESIZE = PAGESIZE
        if got[0] != "ok":
            bad.append(("virtual_memory-raised:%s" % got[1], "%r for %r" % (got, case)))
            return bad
        r = got[1]
        for f, v in exp.items():
            if getattr(r, f) != v:
                bad.append(("vm:%s" % f, "%s: got %r expected %r (case %r)" % (f, getattr(r, f), v, case)))
        # byte counts are integers (a number of bytes), the percentage a float
        for f in r._fields:
            v = getattr(r, f)
            if (type(v) is not float) if f == "percent" else (type(v) is not int):
                bad.append(("vm:type:%s" % f, "%s = %r is a %s (case %r)" % (f, v, type(v).__name__, case)))
        total = exp["total"]
        if 0 <= est <= total:
            if r.available != est:
                bad.append(("vm:available:%s" % ("kernel" if ("MemAvailable" in keys and vals["MemAvailable"]) else "fallback"),
                            "available: got %r expected %r (case %r)" % (r.available, est, case)))
        else:
            if not (0 <= r.available <= max(total, 0)) and exp["free"] <= total:
                bad.append(("vm:available:not-clamped", "available %r outside [0,%r] (estimate %r, case %r)" % (r.available, total, est, case)))
        pexp = round((total - r.available) / total * 100, 1) if total else 0.0
        if r.percent != pexp:
            bad.append(("vm:percent", "percent %r expected %r (case %r)" % (r.percent, pexp, case)))
        if exp["free"] <= total and not (0 <= r.percent <= 100):
            bad.append(("vm:percent-range", "percent %r (case %r)" % (r.percent, case)))
        # warnings: set of metric names
        named = set()
        for x in ws:
            if issubclass(x.category, RuntimeWarning):
                msg = str(x.message).split(" memory stats")[0]
                named |= {t.strip() for t in msg.split(",")}
        allowed_extra = {"available"} if est < 0 else set()
        if not (missing <= named <= missing | allowed_extra):
            bad.append(("vm:warning", "warned about %r, missing metrics %r (case %r)" % (sorted(named), sorted(missing), case)))
    elif k == "swap":
        st, sf, vm, have = case[1], case[2], case[3], case[4]
        lines = b"MemTotal: 100 kB\nMemFree: 50 kB\n"
        if have is True or have == "total-only":
            lines += b"SwapTotal: %d kB\n" % st
        if have is True or have == "free-only":
            lines += b"SwapFree: %d kB\n" % sf
        w.set_file("/proc/meminfo", lines)
        if VMSTAT[vm] is None:
            w.remove("/proc/vmstat")
        elif VMSTAT[vm] in ("deny", "eio"):
            w.set_file("/proc/vmstat", b"pswpin 11\npswpout 13\n")
            w.nodes["/proc/vmstat"].mode = VMSTAT[vm]          # open() refused (hardened kernel, container) / read error
        else:
            w.set_file("/proc/vmstat", VMSTAT[vm])
        unit = case[5] if len(case) > 5 else 1024
        # sysinfo(2) counts in units of mem_unit bytes (1 on 64-bit hosts, 4096 on 32-bit kernels with much memory)
        w.sysinfo = (1, 2, 3, 4, (st * 1024) // unit, (sf * 1024) // unit, unit)
        with warnings.catch_warnings(record=True) as ws:
            warnings.simplefilter("always")
            got = outcome(psutil.swap_memory)
        total, free = st * 1024, sf * 1024
        used = total - free
        pct = round(used / total * 100, 1) if total else 0.0
        sin = 11 * 4096 if vm in ("both", "reversed") else 0
        sout = 13 * 4096 if vm in ("both", "reversed") else 0
        if vm == "onlyin":
            sin, sout = 0, 0
        exp = (total, used, free, pct, sin, sout)
        if got[0] != "ok" or tuple(got[1]) != exp:
            bad.append(("swap:%s" % vm, "swap_memory() -> %r expected %r (case %r)" % (freeze(got), exp, case)))
        elif [type(x) for x in got[1]] != [int, int, int, float, int, int]:
            bad.append(("swap:type", "swap_memory() -> %r: field types %r" % (freeze(got), [type(x).__name__ for x in got[1]])))
        if vm in ("absent", "neither", "onlyin", "denied") and not any(issubclass(x.category, RuntimeWarning) for x in ws):
            bad.append(("swap:no-warning", "no RuntimeWarning for vmstat %r" % vm))
    return bad


def worker(chunk):
    seed, cases = chunk
    w = World(ncpus=2)
    use_world(w)
    w.logging = False
    return [guarded(run_case, c, w) for c in cases]


def build_cases(thorough):
    cases = []
    subsets = []
    for r in range(len(OPT) + 1):
        subsets += [list(s) for s in itertools.combinations(OPT, r)]
    regs = list(REGIMES) if thorough else ["normal", "container", "avail0", "bigslab"]
    for reg in regs:
        for s in subsets:
            cases.append(("vm", reg, s, "three"))
    zs = list(ZONES)
    some = [s for s in subsets if len(s) >= 12 or len(s) <= 1] + [["Cached", "SReclaimable", "Active(file)", "Inactive(file)"],
                                                                     ["Active(file)", "Inactive(file)", "SReclaimable", "Buffers"]]
    for reg in REGIMES:
        for z in zs:
            for s in some:
                cases.append(("vm", reg, s, z))
    for reg in REGIMES:
        for z in ("one", "three", "mid"):
            for ps_ in (16384, 65536):
                cases.append(("vm", reg, ["Cached", "SReclaimable", "Active(file)", "Inactive(file)"], z, ps_))
                cases.append(("vm", reg, [k for k in OPT if k != "MemAvailable"], z, ps_))
    for st, sf in itertools.product([0, 1, 1000, 2 ** 31, 2 ** 42], repeat=2):
        if sf > st:
            continue
        for vm in VMSTAT:
            for have in (True, False, "total-only", "free-only"):
                cases.append(("swap", st, sf, vm, have))
            if vm == "both":
                for unit_ in (1, 4096):
                    cases.append(("swap", st * 4, sf * 4, vm, False, unit_))
    return cases


def run(ctx):
    cases = build_cases(ctx.thorough)
    n = max(1, len(cases) // (ctx.ncpu * 4))
    chunks = [(ctx.seed, cases[i:i + n]) for i in range(0, len(cases), n)]
    res = [r for ch in ctx.pmap_fresh(worker, chunks) for r in ch]
    viols, kinds = [], {}
    for _i, (c, bad) in enumerate(zip(cases, res)):
        kinds[c[0]] = kinds.get(c[0], 0) + 1
        for cause, msg in bad:
            viols.append({"cause": cause, "msg": msg, "case": list(c), "_idx": _i})
    cov = {"evaluations": len(cases), "distinct_nontrivial": len({repr(c) for c in cases}),
           "rule": "one evaluation = one /proc/meminfo (+zoneinfo/vmstat) content; all 2^14 subsets of the optional keys for each listed "
                   "regime; distinct by construction", "per_dimension": kinds, "regimes": list(REGIMES), "exhaustive": True,
           "samples": [list(c) for c in sample(cases, 6)]}
    return {"coverage": cov, "violations": add_histories(viols, cases, n, list),
            "assumptions": ["when the available estimate falls outside [0,total] any value inside [0,total] is accepted (the statement "
                            "only says 'forced into')", "an 'available' warning is allowed when the estimate was negative"]}


def replay(ctx, case):
    w = World(ncpus=2)
    use_world(w)
    for c in history_of(case):
        bad = guarded(run_case, tuple(c), w)
    return {"violated": bool(bad), "viols": bad}
