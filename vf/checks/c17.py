"""C17 — the C extension is memory-safe and decodes OS records faithfully.

Explorer I (bounded-exhaustive *input* enumeration) on the COMPILED extension:
the driver builds the staged C sources with clang AddressSanitizer + UBSan
(c17_meta.SANITIZE) and preloads the ASan runtime.  A sanitizer report aborts
the process, so every case is executed in a *sacrificial worker* subprocess
(`python -m vf.checks.c17 --worker casefile outfile`); the worker writes a
"B <i>" line before and an "R <i> <json>" line after each case, so a dead
worker points at exactly one case, which is then re-run alone to confirm it.

 A  every entry point of _psutil_linux / _psutil_posix (+ the Python API that
    forwards arguments to them) x argument tuples from a lattice of boundary
    values, right and wrong arities.   Oracle: a value or a Python exception.
 B  utmp files (glibc utmpname() -> users()).         Oracle: independent decoder.
 C  mounts files (cext.disk_partitions(path), psutil.disk_partitions(all)).
 D  interface lists through the LD_PRELOAD shim native/ifshim.c
    (getifaddrs / SIOCGIFMTU / SIOCGIFFLAGS / SIOCETHTOOL).

Setters (setpriority, proc_ioprio_set, proc_cpu_affinity_set, Process.nice/
ionice/cpu_affinity) are only ever pointed at a sacrificial `sleep` child, an
unused pid, negative pids or values that fail argument conversion.  Nothing is
ever signalled through psutil.
"""
import itertools
import json
import os
import re
import shutil
import socket
import struct
import subprocess
import sys
import tempfile

ID = "C17"
LEVEL = "exploration"

HERE = os.path.dirname(os.path.dirname(os.path.dirname(os.path.abspath(__file__))))
SHIM = os.path.join(HERE, "build", "ifshim.so")
PY = "/venv/bin/python"
UNUSED_PID = 0x7FFFFFF0            # > PID_MAX_LIMIT (4194304): never allocated by Linux
WORKER_TIMEOUT = 600               # s, per worker process (generous: only a real hang reaches it)
SOLO_TIMEOUT = 120                 # s, one case alone (confirmation / replay)
NAME15 = "abcdefghijklmno"

# =============================================================================
# Part A: argument lattice
# =============================================================================

INTS_Q = [0, 1, -1, 2, 7, 8, 2**18 - 1, 2**18, 2**31 - 1, 2**31, -2**31, -2**31 - 1,
          2**32, 2**63 - 1, 2**63, -2**63, 2**64]
INTS_T = [3, 13, 255, 256, 1023, 1024, 1025, 32767, 32768, 65535, 65536, 2**32 - 1,
          -2**63 - 1, 2**100]
STRLENS = [0, 1, 15, 16, 17, 255, 256, 4096]
LISTS = {
    "empty": lambda: [], "0": lambda: [0], "0123": lambda: [0, 1, 2, 3], "neg1": lambda: [-1],
    "1023": lambda: [1023], "1024": lambda: [1024], "2p31": lambda: [2**31], "2p32": lambda: [2**32], "2p32p1": lambda: [2**32 + 1],
    "n2p32": lambda: [-2**32], "2p40": lambda: [2**40],
    "2p63": lambda: [2**63], "n2p63": lambda: [-2**63], "str": lambda: ["a"],
    "none": lambda: [None], "float": lambda: [1.5], "big": lambda: list(range(2000)),
    "2p64": lambda: [2**64], "dup": lambda: [0, 0, 0], "nested": lambda: [[0]],
}
LISTS_Q = ["empty", "0", "0123", "neg1", "1023", "1024", "2p31", "2p32", "2p32p1", "n2p32", "2p40", "2p63", "n2p63", "str", "none", "big"]


class _EvilGetitem:
    def __len__(self):
        return 3

    def __getitem__(self, i):
        raise ValueError("evil getitem")


class _EvilLen:
    def __len__(self):
        raise ValueError("evil len")

    def __getitem__(self, i):
        return 0


def lattice_any(thorough):
    t = ["int:%d" % n for n in INTS_Q]
    t += ["float:0.0", "float:1.5", "float:nan", "float:inf", "none", "true", "false"]
    t += ["str:%d" % n for n in STRLENS] + ["str:nul", "str:lo", "str:uni", "str:surr"]
    t += ["bytes:0", "bytes:1", "bytes:16", "bytes:4096", "bytes:nul"]
    t += ["list:%s" % k for k in LISTS_Q]
    t += ["tuple:0", "range:0-2", "range:1020-1030", "evil:getitem", "evil:len", "object", "dict"]
    if thorough:
        t += ["int:%d" % n for n in INTS_T]
        t += ["float:1e308", "float:-0.0", "str:n15", "str:65536", "bytes:17", "bytes:255",
              "bytearray:4"]
        t += ["list:%s" % k for k in LISTS if k not in LISTS_Q]
        t += ["tuple:empty", "range:0-0", "set:0"]
    return t


def lattice_pid_getter(thorough):
    return ["pid:child", "pid:self", "pid:unused"] + lattice_any(thorough)


def lattice_pid_setter(thorough):
    # never 0 / 1 / True / False / os.getpid(): a setter must not touch a process we did not create
    t = ["pid:child", "pid:unused", "int:-1", "int:-2147483648", "int:2147483648", "int:-2147483649",
         "int:4294967296", "int:9223372036854775808", "int:18446744073709551616",
         "none", "float:1.5", "str:1", "bytes:1", "list:0", "object"]
    if thorough:
        t += ["int:-2", "int:9223372036854775807", "float:nan", "str:nul", "tuple:0"]
    return t


def mk(tok, wenv):
    k, _, v = tok.partition(":")
    if k == "int":
        return int(v)
    if k == "float":
        return float(v)
    if k == "none":
        return None
    if k == "true":
        return True
    if k == "false":
        return False
    if k == "str":
        if v.isdigit():
            return "a" * int(v)
        return {"nul": "a\0b", "lo": "lo", "uni": "éth0", "surr": "\udcff", "n15": NAME15,
                "mounts": wenv["mounts"], "nofile": os.path.join(wenv["tmp"], "does-not-exist")}[v]
    if k == "bytes":
        if v.isdigit():
            return b"a" * int(v)
        return {"nul": b"a\0b"}[v]
    if k == "bytearray":
        return bytearray(b"a" * int(v))
    if k == "list":
        return LISTS[v]()
    if k == "tuple":
        return () if v == "empty" else (0,)
    if k == "set":
        return {0}
    if k == "range":
        a, b = v.split("-")
        return range(int(a), int(b))
    if k == "evil":
        return _EvilGetitem() if v == "getitem" else _EvilLen()
    if k == "object":
        return object()
    if k == "dict":
        return {}
    if k == "pid":
        return {"child": wenv["child"], "self": os.getpid(), "unused": UNUSED_PID}[v]
    raise ValueError("unknown token %r" % tok)


def shape(tok):
    """coarse argument-shape class of a lattice token"""
    k, _, v = tok.partition(":")
    if k == "int":
        n = int(v)
        if n < -2**31:
            return "int<-2^31"
        if n < 0:
            return "int<0"
        if n < 2**18:
            return "int<2^18"
        if n < 2**31:
            return "int<2^31"
        if n < 2**63:
            return "int<2^63"
        return "int>=2^63"
    if k == "str":
        if v.isdigit():
            n = int(v)
            return "str<=15" if n <= 15 else ("str<=255" if n <= 255 else "str>255")
        return "str:" + v
    if k == "bytes":
        return "bytes"
    if k == "list":
        return "list:" + v
    if k == "float":
        return "float"
    return k if k != "pid" else tok


# entry point -> per-position lattice kind; "G" pid of a getter, "S" pid of a setter, "*" anything
SIGS = {
    "linux.proc_ioprio_get": ["G"],
    "linux.proc_ioprio_set": ["S", "*", "*"],
    "linux.proc_cpu_affinity_get": ["G"],
    "linux.proc_cpu_affinity_set": ["S", "*"],
    "linux.disk_partitions": ["P"],
    "linux.users": [],
    "linux.net_if_duplex_speed": ["*"],
    "linux.linux_sysinfo": [],
    "linux.check_pid_range": ["G"],
    "linux.set_debug": ["*"],
    "posix.getpagesize": [],
    "posix.getpriority": ["G"],
    "posix.net_if_addrs": [],
    "posix.net_if_flags": ["*"],
    "posix.net_if_is_running": ["*"],
    "posix.net_if_mtu": ["*"],
    "posix.setpriority": ["S", "*"],
    # Python API that forwards its arguments to the extension ("psutil function" in the statement)
    "py.Process": ["G"],
    "py.pid_exists": ["G"],
    "py.child.nice": ["*"],
    "py.child.ionice": ["*", "*"],
    "py.child.cpu_affinity": ["*"],
    "py.disk_partitions": ["*"],
    "py.users": [],
    "py.net_if_addrs": [],
    "py.net_if_stats": [],
}
NOMINAL = {  # for the pairwise (quick) treatment of arity 3
    "linux.proc_ioprio_set": [["pid:child", "pid:unused"], ["int:2", "int:0"], ["int:7", "int:0"]],
}
SETTERS = {"linux.proc_ioprio_set", "linux.proc_cpu_affinity_set", "posix.setpriority"}


def discover_entry_points():
    """names of the callables actually exported by the two staged extension modules"""
    import psutil._psutil_linux as cl
    import psutil._psutil_posix as cp
    out = []
    for pfx, m in (("linux", cl), ("posix", cp)):
        for n in sorted(dir(m)):
            if n.startswith("_"):
                continue
            if callable(getattr(m, n)):
                out.append("%s.%s" % (pfx, n))
    return out


def gen_A(thorough, entry_points):
    L = {"*": lattice_any(thorough), "G": lattice_pid_getter(thorough), "S": lattice_pid_setter(thorough)}
    L["P"] = ["str:mounts", "str:nofile"] + L["*"]
    cases = []
    seen = set()

    def add(fn, args, kw=False):
        key = (fn, tuple(args), kw)
        if key in seen:
            return
        seen.add(key)
        c = {"part": "A", "fn": fn, "args": list(args)}
        if kw:
            c["kw"] = True
        cases.append(c)

    unknown = []
    fns = list(entry_points) + [f for f in SIGS if f.startswith("py.")]
    for fn in fns:
        sig = SIGS.get(fn)
        if sig is None:
            # an entry point this check does not know: it may have side effects, so it only gets
            # calls that cannot designate a live process (wrong types / out-of-range ints)
            unknown.append(fn)
            safe = lattice_pid_setter(thorough)[1:]
            add(fn, [])
            for a in safe:
                add(fn, [a])
            for a, b in itertools.product(safe, safe):
                add(fn, [a, b])
            continue
        ar = len(sig)
        lat = [L[k] for k in sig]
        if ar <= 2 or thorough:
            for args in itertools.product(*lat):
                add(fn, args)
        else:
            nom = NOMINAL[fn]
            for i, j in itertools.combinations(range(ar), 2):
                rest = [k for k in range(ar) if k not in (i, j)]
                for a, b in itertools.product(lat[i], lat[j]):
                    for fill in itertools.product(*[nom[k] for k in rest]):
                        args = [None] * ar
                        args[i], args[j] = a, b
                        for k, f in zip(rest, fill):
                            args[k] = f
                        add(fn, args)
        # wrong arities: argument parsing must reject them before anything else happens.
        # (functions of arity 0 are METH_VARARGS that ignore their arguments.)
        if fn in SETTERS or fn.startswith("py.child."):
            fills = ["none", "str:1", "int:-1"]      # never a live pid in a setter's first slot
        else:
            fills = ["int:0", "none", "str:1"]
        for n in range(0, 5):
            if n == ar:
                continue
            if fn.startswith("py.") and ar == 0 and n > 0:
                continue
            for f in fills:
                add(fn, [f] * n)
        if not fn.startswith("py."):
            add(fn, [], kw=True)
    return cases, unknown


# =============================================================================
# Part B: utmp
# =============================================================================

UT_FMT = "<hxxi32s4s32s256shhiii4i20s"
UT_SIZE = struct.calcsize(UT_FMT)
assert UT_SIZE == 384
UT_WIDTH = {"line": 32, "user": 32, "host": 256}
FIELD_KINDS_Q = ["empty", "short", "full", ":0", ":0.0", ":0.1"]
FIELD_KINDS_T = ["full-1", "hi"]
PIDTIME = [(1234, 1234567890, 0), (2**31 - 1, 2**31 - 1, 999999), (0, 0, 1), (-1, -1, 500000)]


def ut_field(field, kind):
    w = UT_WIDTH[field]
    if kind == "empty":
        return b""
    if kind == "short":
        return {"line": b"pts/3", "user": b"bob", "host": b"host.example.org"}[field]
    if kind == "full":     # exactly the field width, no terminator; distinct letters per field
        ch = {"line": b"L", "user": b"U", "host": b"H"}[field]
        return (ch * w)[:w - 1] + b"!"
    if kind == "full-1":
        return {"line": b"l", "user": b"u", "host": b"h"}[field] * (w - 1)
    if kind == "hi":
        return b"\xff\xfe" + {"line": b"l", "user": b"u", "host": b"h"}[field]
    return kind.encode()


def ut_record(r):
    pid, sec, usec = PIDTIME[r.get("pt", 0)]
    hot = r.get("rest") == "hot"
    return struct.pack(
        UT_FMT, r["type"], pid,
        ut_field("line", r["line"]), b"IDID" if hot else b"",
        ut_field("user", r["user"]), ut_field("host", r["host"]),
        0x4141 if hot else 0, 0x4242 if hot else 0, 0x43434343 if hot else 0,
        sec, usec,
        *([0x44444444] * 4 if hot else [0] * 4), b"")


def ut_bytes(case):
    data = b"".join(ut_record(r) for r in case["recs"])
    if case.get("trunc") is not None:
        data = data[:case["trunc"]]
    return data


def gen_B(thorough):
    kinds = FIELD_KINDS_Q + (FIELD_KINDS_T if thorough else [])
    cases = [{"part": "B", "recs": []}, {"part": "B", "recs": [], "nofile": True}]
    for typ, u, l, h, rest in itertools.product(range(10), kinds, kinds, kinds, ("zero", "hot")):
        cases.append({"part": "B", "recs": [{"type": typ, "user": u, "line": l, "host": h, "rest": rest}]})
    for pt, h in itertools.product(range(1, len(PIDTIME)), FIELD_KINDS_Q):
        cases.append({"part": "B", "recs": [{"type": 7, "user": "short", "line": "short", "host": h,
                                             "rest": "zero", "pt": pt}]})
    alpha = [
        {"type": 7, "user": "short", "line": "short", "host": "short", "rest": "zero"},
        {"type": 7, "user": "full", "line": "full", "host": "full", "rest": "hot", "pt": 1},
        {"type": 7, "user": ":0", "line": "empty", "host": ":0", "rest": "zero", "pt": 2},
        {"type": 8, "user": "short", "line": "short", "host": ":0.0", "rest": "hot"},
        {"type": 6, "user": "full", "line": "short", "host": "empty", "rest": "zero"},
        {"type": 7, "user": "full-1", "line": "full-1", "host": ":0.0", "rest": "hot", "pt": 3},
    ]
    for n in (2, 3):
        for recs in itertools.product(alpha, repeat=n):
            cases.append({"part": "B", "recs": [dict(r) for r in recs]})
    # files whose size is not a multiple of the record size (a partial trailing record)
    for trunc in (1, 100, 383, 385, 767):
        cases.append({"part": "B", "recs": [dict(alpha[0]), dict(alpha[2])], "trunc": trunc})
    return cases


def _cut(b):
    return os.fsdecode(b.split(b"\0", 1)[0])


def ref_users(data):
    """independent decoding: list of acceptable-value descriptions, one per USER_PROCESS record"""
    exp = []
    for off in range(0, len(data) - UT_SIZE + 1, UT_SIZE):
        (typ, pid, line, _id, user, host, _e1, _e2, _sess, sec, usec, *_r) = struct.unpack(
            UT_FMT, data[off:off + UT_SIZE])
        if typ != 7:
            continue
        h = _cut(host)
        if h in (":0", ":0.0"):
            h = "localhost"
        secs = {sec, sec & 0xFFFFFFFF}
        started = set()
        for s in secs:
            started.add(float(s))
            started.add(s + usec / 1e6)
        t = _cut(line)
        exp.append({"name": _cut(user), "terminal": [t] if t else [None, ""], "host": h,
                    "started": sorted(started), "pid": pid,
                    "full": [f for f, raw in (("user", user), ("line", line), ("host", host))
                             if b"\0" not in raw]})
    return exp


def check_users(got, exp):
    """got: list of suser tuples -> list of (cause, msg)"""
    if len(got) != len(exp):
        return [("wrong-value:users:record-count", "got %d entries, expected %d" % (len(got), len(exp)))]
    out = []
    for i, (g, e) in enumerate(zip(got, exp)):
        bad = []
        if g.name != e["name"]:
            bad.append(("name", g.name, e["name"]))
        if g.terminal not in e["terminal"]:
            bad.append(("terminal", g.terminal, e["terminal"][0] or ""))
        if g.host != e["host"]:
            bad.append(("host", g.host, e["host"]))
        if g.started not in e["started"]:
            bad.append(("started", g.started, e["started"]))
        if g.pid != e["pid"]:
            bad.append(("pid", g.pid, e["pid"]))
        for field, gv, ev in bad:
            raw = {"name": "user", "terminal": "line", "host": "host"}.get(field)
            if (raw in e["full"] and isinstance(gv, str) and isinstance(ev, str)
                    and gv.startswith(ev) and len(gv) > len(ev)):
                cause = "users:unterminated-field-read-past-width"
            else:
                cause = "wrong-value:users:%s" % field
            out.append((cause, "record %d: %s = %r, expected %r (field width %s)"
                        % (i, field, _short(gv), _short(ev), UT_WIDTH.get(raw))))
    return out


def _short(v, n=80):
    s = v if isinstance(v, str) else repr(v)
    if len(s) > n:
        s = s[:n // 2] + "...(%d chars)..." % len(s) + s[-n // 4:]
    return s


# =============================================================================
# Part C: mounts
# =============================================================================

MNT_BUFSIZ = 4096     # glibc getmntent(): static 4096-byte line buffer (longer lines are cut, rest dropped)
FILESYSTEMS = b"nodev\tsysfs\nnodev\ttmpfs\nnodev\tproc\n\text4\n\tvfat\nnodev\toverlay\n\txfs\n"
DISK_TYPES = {"ext4", "vfat", "xfs"}
C_DEV = {"sda1": b"/dev/sda1", "none": b"none", "tmpfs": b"tmpfs", "sp": b"/dev/with\\040space",
         "uuid": b"UUID=0a1b-2c3d", "bs": b"//srv\\134share"}
C_DIR = {"root": b"/", "sp": b"/mnt/a\\040b", "tab": b"/mnt/t\\011x", "nl": b"/mnt/n\\012x",
         "bs": b"/mnt/b\\134x", "inc": b"/mnt/inc\\04", "end": b"/mnt/end\\040", "multi": b"/m\\040\\011\\012\\134\\040z"}
C_TYPE = {"ext4": b"ext4", "tmpfs": b"tmpfs", "vfat": b"vfat", "unk": b"fuse.unknownfs"}
C_OPTS = {"rw": b"rw", "many": b"rw,relatime,errors=remount-ro,data=ordered", "esc": b"rw,path=/a\\040b",
          "ro": b"ro,nosuid"}
C_FMT = ["std", "tabs", "noopts", "nofreq", "2sp"]


def mnt_line(sp):
    if "raw" in sp:
        return {"comment": b"# a comment line", "blank": b"", "ws": b" \t ", "onefield": b"/dev/only"}[sp["raw"]]
    dev, d, t, o = C_DEV[sp["dev"]], C_DIR[sp["dir"]], C_TYPE[sp["type"]], C_OPTS[sp["opts"]]
    if "long" in sp:        # pad one field so that the whole line (without '\n') has sp["len"] bytes
        which, total = sp["long"], sp["len"]
        base = len(b" ".join([dev, d, t, o, b"0 0"]))
        pad = b"x" * max(0, total - base)
        if which == "dev":
            dev += pad
        elif which == "dir":
            d += pad
        else:
            o += b"," + pad[1:] if pad else b""
    fmt = sp.get("fmt", "std")
    if fmt == "std":
        return b" ".join([dev, d, t, o, b"0 0"])
    if fmt == "tabs":
        return b"\t".join([dev, d, t, o, b"0", b"0"])
    if fmt == "noopts":
        return b" ".join([dev, d, t])
    if fmt == "nofreq":
        return b" ".join([dev, d, t, o])
    if fmt == "2sp":
        return b"  " + b"  ".join([dev, d, t, o, b"1 2"]) + b"  "
    raise ValueError(fmt)


def mnt_bytes(case):
    lines = [mnt_line(sp) for sp in case["lines"]]
    data = b"\n".join(lines)
    if lines and case.get("eof_nl", True):
        data += b"\n"
    return data


def gen_C(thorough):
    cases = [{"part": "C", "lines": []}]
    for dev, d, t, o in itertools.product(C_DEV, C_DIR, C_TYPE, C_OPTS):
        cases.append({"part": "C", "lines": [{"dev": dev, "dir": d, "type": t, "opts": o}]})
    for fmt, dev, d, t in itertools.product(C_FMT[1:], ("sda1", "none", "sp"), ("root", "multi", "end"),
                                            ("ext4", "tmpfs")):
        for nl in (True, False):
            cases.append({"part": "C", "lines": [{"dev": dev, "dir": d, "type": t, "opts": "many", "fmt": fmt}],
                          "eof_nl": nl})
    lens = [4000, 4094, 4095, 4096, 4097, 8192] + ([1024, 4093, 4098, 16384, 70000] if thorough else [])
    for which, n, t in itertools.product(("dev", "dir", "opts"), lens, ("ext4", "tmpfs")):
        ln = {"dev": "sda1", "dir": "sp", "type": t, "opts": "rw", "long": which, "len": n}
        cases.append({"part": "C", "lines": [ln]})
        cases.append({"part": "C", "lines": [{"dev": "sda1", "dir": "root", "type": "ext4", "opts": "rw"}, ln,
                                             {"dev": "uuid", "dir": "tab", "type": "vfat", "opts": "ro"}]})
    alpha = [
        {"dev": "sda1", "dir": "root", "type": "ext4", "opts": "rw"},
        {"dev": "none", "dir": "sp", "type": "ext4", "opts": "many"},
        {"dev": "tmpfs", "dir": "nl", "type": "tmpfs", "opts": "esc"},
        {"dev": "sp", "dir": "multi", "type": "vfat", "opts": "ro", "fmt": "tabs"},
        {"raw": "comment"}, {"raw": "blank"}, {"raw": "ws"}, {"raw": "onefield"},
        {"dev": "bs", "dir": "bs", "type": "unk", "opts": "rw", "fmt": "noopts"},
    ]
    for sp in alpha[4:8]:
        cases.append({"part": "C", "lines": [dict(sp)]})
    for n in (2, 3):
        for ls in itertools.product(alpha, repeat=n):
            cases.append({"part": "C", "lines": [dict(x) for x in ls]})
    if thorough:
        many = [dict(alpha[i % 4]) for i in range(300)]
        cases.append({"part": "C", "lines": many})
    return cases


def gen_E(thorough):
    """every hand-off point of the two decoders that iterate a libc reader with static storage: k = 0 .. (entries + 1)"""
    cases = []
    for api, n in (("disk_partitions", 3), ("users", 3)):
        for k in range(0, n + 2):
            cases.append({"part": "E", "api": api, "k": k})
    return cases


def _mnt_decode(b):
    out = bytearray()
    i = 0
    while i < len(b):
        q = b[i:i + 4]
        if q == b"\\040":
            out += b" "
            i += 4
        elif q == b"\\011":
            out += b"\t"
            i += 4
        elif q == b"\\012":
            out += b"\n"
            i += 4
        elif q == b"\\134":
            out += b"\\"
            i += 4
        elif b[i:i + 2] == b"\\\\":
            out += b"\\"
            i += 2
        else:
            out.append(b[i])
            i += 1
    return bytes(out)


def ref_mounts(data, bufsiz):
    """independent decoder of an fstab-format file -> list of (fsname, dir, type, opts) as str.
    bufsiz=None: lines of any length; bufsiz=N: a line is cut after N-1 bytes, its rest dropped."""
    out = []
    for raw in data.split(b"\n") if data else []:
        complete = True
        if bufsiz is not None and len(raw) + 1 > bufsiz - 1:
            raw, complete = raw[:bufsiz - 1], False
        if complete:
            raw = raw.rstrip(b" \t")
        raw = raw.lstrip(b" \t")
        if not raw or raw.startswith(b"#"):
            continue
        fields = re.split(rb"[ \t]+", raw)
        fields = [_mnt_decode(f) for f in fields[:4]]
        while len(fields) < 4:
            fields.append(b"")
        out.append(tuple(os.fsdecode(f) for f in fields))
    # a trailing fragment after the last '\n' that is empty produces nothing (handled above)
    return out


def ref_partitions(raw, all_):
    """-> list of acceptable (device-set, mountpoint, fstype, opts)"""
    out = []
    for dev, d, t, o in raw:
        has_dev = dev not in ("", "none")
        if not all_ and not (has_dev and t in DISK_TYPES):
            continue
        out.append(({dev} if has_dev else {"", dev}, d, t, o))
    return out


def check_mounts(label, got, readings):
    """got must equal one of the acceptable readings; otherwise report against the closest one"""
    best = None
    for exp in readings:
        m = _cmp_mounts(got, exp)
        if m is None:
            return []
        if best is None or m[0] > best[0]:
            best = m
    return [best[1]]


def _cmp_mounts(got, exp):
    """None if equal, else (position of the first difference, (cause, msg))"""
    names = ("device", "mountpoint", "fstype", "opts")
    for i, (g, e) in enumerate(zip(got, exp)):
        for k in range(4):
            ok = (g[k] in e[k]) if isinstance(e[k], set) else (g[k] == e[k])
            if not ok:
                ev = sorted(e[k])[0] if isinstance(e[k], set) else e[k]
                return ((i, k), ("wrong-value:disk_partitions:%s" % names[k],
                                 "entry %d: %s = %s, expected %s" % (i, names[k], _short(repr(g[k])), _short(repr(ev)))))
    if len(got) != len(exp):
        return ((min(len(got), len(exp)), -1),
                ("wrong-value:disk_partitions:entry-count",
                 "got %d entries, expected %d: got=%s" % (len(got), len(exp), _short(repr(got), 300))))
    return None


# =============================================================================
# Part D: interface list (through build/ifshim.so)
# =============================================================================

AF_INET, AF_INET6, AF_PACKET = 2, 10, 17
IFF = [(0x1, "up"), (0x2, "broadcast"), (0x4, "debug"), (0x8, "loopback"), (0x10, "pointopoint"),
       (0x20, "notrailers"), (0x40, "running"), (0x80, "noarp"), (0x100, "promisc"), (0x200, "allmulti"),
       (0x400, "master"), (0x800, "slave"), (0x1000, "multicast"), (0x2000, "portsel"),
       (0x4000, "automedia"), (0x8000, "dynamic")]
IFF_BROADCAST, IFF_POINTOPOINT, IFF_RUNNING = 0x2, 0x10, 0x40
ERRNO = {"ENODEV": 19, "EIO": 5, "EINVAL": 22, "EOPNOTSUPP": 95, "EPERM": 1}
MAC = bytes(range(0xa0, 0xa0 + 32))
IFNAMES = {"n1": "e", "n15": NAME15, "lo": "lo", "b": "b0"}


def sa_bytes(sp):
    """sockaddr spec -> raw bytes (None -> NULL pointer)"""
    if sp is None:
        return None
    k = sp[0]
    if k == "in":
        return struct.pack("<H", AF_INET) + struct.pack(">H", 0) + socket.inet_aton(sp[1]) + b"\0" * 8
    if k == "in6":
        return (struct.pack("<H", AF_INET6) + struct.pack(">HI", 0, 0) + socket.inet_pton(AF_INET6, sp[1])
                + struct.pack("<I", sp[2]))
    if k == "ll":
        halen = sp[1]
        fill = MAC if len(sp) < 3 else bytes([sp[2]]) * 32
        addr = fill[:halen].ljust(8, b"\0")        # sizeof(sockaddr_ll)=20; glibc reserves more for long addresses
        return struct.pack("<HHiHBB", AF_PACKET, 0, 2, 1, 0, halen) + addr
    if k == "raw":
        return struct.pack("<H", sp[1]) + b"\x01" * 14
    raise ValueError(sp)


def shim_text(case):
    lines = []
    for it in case.get("ifs", []):
        def tok(v):
            return "E%d" % ERRNO[v] if isinstance(v, str) else str(v)
        eth = it["eth"]
        eth = "E%d" % ERRNO[eth] if isinstance(eth, str) else "%d,%d,%d" % tuple(eth)
        lines.append("I %s %s %s %s" % (IFNAMES[it["name"]], tok(it["mtu"]), tok(it["flags"]), eth))
    for a in case.get("addrs", []):
        def hx(sp):
            b = sa_bytes(sp)
            return "-" if b is None else b.hex()
        lines.append("A %s %d %s %s %s" % (IFNAMES[a["if"]], a["fl"], hx(a["a"]), hx(a["m"]), hx(a["u"])))
    return "\n".join(lines) + "\n"


def netdev_text(names):
    s = ("Inter-|   Receive                                                |  Transmit\n"
         " face |bytes    packets errs drop fifo frame compressed multicast|bytes    packets errs drop fifo colls carrier compressed\n")
    for n in names:
        s += "%6s: 1 2 3 4 5 6 7 8 9 10 11 12 13 14 15 16\n" % n
    return s


DEFAULT_D = {"ifs": [{"name": "lo", "mtu": 65536, "flags": 0x49, "eth": "EOPNOTSUPP"},
                     {"name": "n15", "mtu": 1500, "flags": 0x1043, "eth": [1, 1000, 0]}],
             "addrs": [{"if": "lo", "fl": 0x49, "a": ["in", "127.0.0.1"], "m": ["in", "255.0.0.0"], "u": None},
                       {"if": "n15", "fl": 0x1043, "a": ["ll", 6], "m": None, "u": ["ll", 6, 0xff]}]}


def gen_D(thorough):
    cases = []
    # --- D1: one interface, one address entry
    modes = [("bc", IFF_BROADCAST | 0x41, True), ("bc-null", IFF_BROADCAST | 0x41, False),
             ("ptp", IFF_POINTOPOINT | 0x41, True), ("ptp-null", IFF_POINTOPOINT | 0x41, False),
             ("none", 0x41, True)]
    fam = []
    for ip, mask, other in (("127.0.0.1", "255.0.0.0", "127.255.255.255"),
                            ("255.255.255.255", "255.255.255.255", "0.0.0.0"),
                            ("10.1.2.3", "255.255.255.0", "10.1.2.255")):
        fam.append((["in", ip], ["in", mask], ["in", other]))
    for ip, mask, other in (("::1", "ffff:ffff:ffff:ffff:ffff:ffff:ffff:ffff", "::"),
                            ("2001:db8::1", "ffff:ffff:ffff:ffff::", "2001:db8::2"),
                            ("::ffff:1.2.3.4", "ffff::", "::ffff:255.255.255.255")):
        fam.append((["in6", ip, 7 if ip.startswith("2001") else 0], ["in6", mask, 0], ["in6", other, 0]))
    halens = [0, 6, 8, 20] + ([1, 5, 7, 32] if thorough else [])
    for h in halens:
        fam.append((["ll", h], ["ll", h, 0xff], ["ll", h, 0xff]))
    for f in (0, 1, 16):
        fam.append((["raw", f], ["raw", f], ["raw", f]))
    fam.append((None, ["in", "255.0.0.0"], ["in", "1.1.1.1"]))
    for (a, m, u), (mname, fl, have_u), have_m, nm in itertools.product(fam, modes, (True, False), ("n1", "n15")):
        cases.append({"part": "D", "call": "addrs", "ifs": [],
                      "addrs": [{"if": nm, "fl": fl, "a": a, "m": m if have_m else None,
                                 "u": u if have_u else None}]})
    # --- D2: 0, 2, 3 address entries over two interfaces
    alpha = [
        {"if": "n1", "fl": 0x1043, "a": ["in", "10.1.2.3"], "m": ["in", "255.255.255.0"], "u": ["in", "10.1.2.255"]},
        {"if": "n1", "fl": 0x1043, "a": ["ll", 6], "m": None, "u": ["ll", 6, 0xff]},
        {"if": "n15", "fl": 0x51, "a": ["in6", "2001:db8::1", 0], "m": ["in6", "ffff:ffff::", 0], "u": ["in6", "2001:db8::2", 0]},
        {"if": "n15", "fl": 0x41, "a": ["ll", 20], "m": None, "u": None},
        {"if": "b", "fl": 0x41, "a": None, "m": None, "u": None},
        {"if": "n15", "fl": 0x49, "a": ["in", "127.0.0.1"], "m": None, "u": None},
    ]
    cases.append({"part": "D", "call": "addrs", "ifs": [], "addrs": []})
    for n in (2, 3):
        for es in itertools.product(alpha, repeat=n):
            cases.append({"part": "D", "call": "addrs", "ifs": [], "addrs": [dict(e) for e in es]})
    # --- D3: net_if_stats of one interface: MTU x flags x ethtool answer x name
    mtus = [0, 68, 1500, 65536, 2**31 - 1] + ([1, 9000, 65535, -1] if thorough else [])
    flagv = [0, 0xFFFF, 0x1043] + [b for b, _ in IFF]
    speeds = ((0, 0), (10, 0), (1000, 0), (0xFFFF, 0), (0, 1), (0x86a0, 1), (0xFFFF, 0x7FFF),
              (0, 0x8000), (0xFFFF, 0xFFFF))          # last one = SPEED_UNKNOWN (-1), what a link-less NIC answers
    eths = [[d, lo, hi] for d in (0, 1, 255) for lo, hi in speeds]
    eths += [[2, 1000, 0], [2, 0xFFFF, 0xFFFF]]       # a duplex code outside the ethtool ABI
    eths += ["EOPNOTSUPP", "EINVAL", "ENODEV", "EIO"]
    if thorough:
        prod = itertools.product(mtus, flagv, eths, ("n1", "n15"))
    else:
        prod = itertools.chain(
            itertools.product(mtus, flagv, [[1, 1000, 0]], ("n1", "n15")),
            itertools.product([1500], [0x1043, 0], eths, ("n1", "n15")))
    seen = set()
    for mtu, fl, eth, nm in prod:
        k = (mtu, fl, str(eth), nm)
        if k in seen:
            continue
        seen.add(k)
        cases.append({"part": "D", "call": "stats",
                      "ifs": [{"name": nm, "mtu": mtu, "flags": fl, "eth": eth}], "addrs": []})
    for err in ("ENODEV", "EIO", "EPERM"):
        cases.append({"part": "D", "call": "stats", "ifs": [{"name": "n1", "mtu": err, "flags": 0x41, "eth": [1, 10, 0]}], "addrs": []})
        cases.append({"part": "D", "call": "stats", "ifs": [{"name": "n1", "mtu": 1500, "flags": err, "eth": [1, 10, 0]}], "addrs": []})
    # --- D4: 0, 2, 3 interfaces
    ialpha = [{"name": "lo", "mtu": 65536, "flags": 0x49, "eth": "EOPNOTSUPP"},
              {"name": "n15", "mtu": 1500, "flags": 0x1043, "eth": [1, 1000, 0]},
              {"name": "n1", "mtu": 9000, "flags": 0x1003, "eth": [0, 100, 0]},
              {"name": "b", "mtu": "ENODEV", "flags": 0x41, "eth": [1, 10, 0]}]
    cases.append({"part": "D", "call": "stats", "ifs": [], "addrs": []})
    for n in (2, 3):
        for its in itertools.permutations(ialpha, n):
            cases.append({"part": "D", "call": "stats", "ifs": [dict(i) for i in its], "addrs": []})
    return cases


def _ip_str(sp):
    if sp[0] == "in":
        return socket.inet_ntoa(socket.inet_aton(sp[1]))
    s = socket.inet_ntop(AF_INET6, socket.inet_pton(AF_INET6, sp[1]))
    return s + ("%%%d" % sp[2] if sp[2] else "")


def _conv(sp, family):
    """what the address `sp` reads as when interpreted with the ENTRY's family -> (set of acceptable, )"""
    if sp is None:
        return {None}
    if family in (AF_INET, AF_INET6):
        return {_ip_str(sp)}
    if family == AF_PACKET:
        halen = sp[1]
        if halen == 0:
            return {None}
        fill = MAC if len(sp) < 3 else bytes([sp[2]]) * 32
        return {":".join("%02x" % b for b in fill[:halen])}
    return {None}


def ref_if_addrs(case):
    """-> {name: [ (family, {address}, {netmask}, {broadcast}, {ptp}) ]}"""
    exp = {}
    for a in case["addrs"]:
        if a["a"] is None:
            continue
        family = {"in": AF_INET, "in6": AF_INET6, "ll": AF_PACKET}.get(a["a"][0])
        if family is None:
            continue            # not an address family psutil renders
        addr = _conv(a["a"], family)
        if addr == {None}:
            continue            # primary address undetermined (zero-length link address)
        if family == AF_PACKET and a["a"][1] < 6:
            (s,) = addr        # documented: short MAC padded with ':00' (issue 786); accept both
            addr = {s, s + ":00" * (6 - a["a"][1])}
        mask = _conv(a["m"], family)
        bc, ptp = {None}, {None}
        if a["fl"] & IFF_BROADCAST:
            bc = _conv(a["u"], family)
        elif a["fl"] & IFF_POINTOPOINT:
            ptp = _conv(a["u"], family)
        exp.setdefault(IFNAMES[a["if"]], []).append((family, addr, mask, bc, ptp))
    return exp


def check_if_addrs(got, exp):
    if sorted(got) != sorted(exp):
        return [("wrong-value:net_if_addrs:interface-list", "interfaces %r, expected %r" % (sorted(got), sorted(exp)))]
    for name in sorted(exp):
        g = [(int(x.family), x.address, x.netmask, x.broadcast, x.ptp) for x in got[name]]
        e = list(exp[name])
        if len(g) != len(e):
            return [("wrong-value:net_if_addrs:address-count", "%s: %d addresses, expected %d" % (name, len(g), len(e)))]
        # multiset match (the statement does not fix an order)
        rest = list(e)
        for gt in g:
            hit = None
            for et in rest:
                if gt[0] == et[0] and all(gt[k] in et[k] for k in range(1, 5)):
                    hit = et
                    break
            if hit is None:
                fld = "entry"
                for et in rest:
                    if gt[0] == et[0]:
                        for k, nm in ((1, "address"), (2, "netmask"), (3, "broadcast"), (4, "ptp")):
                            if gt[k] not in et[k]:
                                fld = nm
                                break
                        break
                return [("wrong-value:net_if_addrs:%s" % fld,
                         "%s: got %r, expected one of %r" % (name, gt, [tuple(sorted(map(str, x)) if isinstance(x, set) else x for x in et) for et in rest]))]
            rest.remove(hit)
    return []


def ref_if_stats(case):
    """-> ('ok', {name: fields}) | ('maybe-exc', {name: fields})  (fields may hold None = unspecified)"""
    exp = {}
    may_raise = False
    optional = set()
    for it in case["ifs"]:
        errs = [v for v in (it["mtu"], it["flags"], it["eth"]) if isinstance(v, str)]
        eth = it["eth"]
        if isinstance(eth, str) and eth in ("EOPNOTSUPP", "EINVAL") and len(errs) == 1:
            errs = []
        if errs:
            # the interface (or its driver) refused: it is either left out (ENODEV: it has gone)
            # or the OS error is reported; the statement does not say which
            may_raise = True
            optional.add(IFNAMES[it["name"]])
            continue
        fl = it["flags"] & 0xFFFF
        f = {"mtu": it["mtu"], "flags": {n for b, n in IFF if fl & b}, "isup": bool(fl & IFF_RUNNING)}
        if isinstance(eth, str):
            f["duplex"], f["speed"] = "NicDuplex.NIC_DUPLEX_UNKNOWN", 0
        else:
            d, lo, hi = eth
            f["duplex"] = {0: "NicDuplex.NIC_DUPLEX_HALF", 1: "NicDuplex.NIC_DUPLEX_FULL",
                           255: "NicDuplex.NIC_DUPLEX_UNKNOWN"}.get(d)
            if f["duplex"] is None:
                may_raise = True        # a duplex code outside the ethtool ABI: unspecified
            raw = (hi << 16) | lo
            f["speed"] = 0 if (raw == 0xFFFFFFFF or raw > 2**31 - 1) else raw
        exp[IFNAMES[it["name"]]] = f
    return may_raise, exp, optional


def check_if_stats(out, case):
    may_raise, exp, optional = ref_if_stats(case)
    if out[0] == "exc":
        if may_raise:
            return []
        return [("wrong-value:net_if_stats:unexpected-exception", "%s: %s" % (out[1], out[2]))]
    got = out[1]
    names_g = set(got) - optional
    if names_g != set(exp) - optional and not (may_raise and names_g <= set(exp)):
        return [("wrong-value:net_if_stats:interface-list", "interfaces %r, expected %r" % (sorted(got), sorted(exp)))]
    for name, f in sorted(exp.items()):
        if name not in got:
            continue
        g = got[name]
        gflags = set(x for x in g.flags.split(",") if x)
        for fld, gv, ev in (("mtu", g.mtu, f["mtu"]), ("flags", gflags, f["flags"]), ("isup", g.isup, f["isup"]),
                            ("speed", g.speed, f["speed"]),
                            ("duplex", "%s.%s" % (type(g.duplex).__name__, g.duplex.name), f["duplex"])):
            if ev is None:
                continue
            if gv != ev:
                return [("wrong-value:net_if_stats:%s" % fld,
                         "%s: %s = %r, expected %r" % (name, fld, sorted(gv) if isinstance(gv, set) else gv,
                                                       sorted(ev) if isinstance(ev, set) else ev))]
    return []


# =============================================================================
# worker side
# =============================================================================

class Worker:
    def __init__(self, tmp):
        import ctypes
        import psutil
        stage = os.environ.get("VF_STAGE")
        for m in (psutil._psutil_linux, psutil._psutil_posix):
            assert stage and os.path.realpath(m.__file__).startswith(os.path.realpath(stage)), m.__file__
        self.ps = psutil
        self.cl = psutil._psutil_linux
        self.cp = psutil._psutil_posix
        self.tmp = tmp
        self.proc = os.path.join(tmp, "proc")
        os.makedirs(os.path.join(self.proc, "self"), exist_ok=True)
        os.makedirs(os.path.join(self.proc, "net"), exist_ok=True)
        self.mounts = os.path.join(self.proc, "self", "mounts")
        self.utmp = os.path.join(tmp, "utmp")
        self.shimfile = os.environ.get("VF_IFSHIM")
        assert self.shimfile, "VF_IFSHIM not set"
        with open(os.path.join(self.proc, "filesystems"), "wb") as f:
            f.write(FILESYSTEMS)
        psutil.PROCFS_PATH = self.proc
        self.libc = ctypes.CDLL(None, use_errno=True)
        self.libc.utmpname.argtypes = [ctypes.c_char_p]
        self.libc.utmpname(self.utmp.encode())
        self.child = int(os.environ.get("VF_C17_CHILD", "0") or 0)
        self.wenv = {"child": self.child, "tmp": tmp, "mounts": self.mounts}
        # the private procfs must still show the two processes part A talks about (Process(pid) reads
        # <procfs>/<pid>/stat and <procfs>/stat); everything else in it is written by this check
        for n in ["stat", str(os.getpid())] + ([str(self.child)] if self.child else []):
            dst = os.path.join(self.proc, n)
            if not os.path.lexists(dst):
                os.symlink("/proc/" + n, dst)
        self.default_world()
        os.chdir(tmp)

    def write(self, path, data):
        with open(path, "wb") as f:
            f.write(data)

    def set_ifs(self, case):
        self.write(self.shimfile, shim_text(case).encode())
        self.write(os.path.join(self.proc, "net", "dev"),
                   netdev_text([IFNAMES[i["name"]] for i in case.get("ifs", [])]).encode())
        self.world_dirty = True

    def default_world(self):
        self.set_ifs(DEFAULT_D)
        self.write(self.mounts, b"/dev/sda1 / ext4 rw 0 0\ntmpfs /tmp tmpfs rw 0 0\n")
        self.write(self.utmp, ut_record({"type": 7, "user": "short", "line": "short", "host": ":0", "rest": "zero"}))
        self.world_dirty = False

    # ---------------------------------------------------------------- part A
    def resolve(self, fn):
        kind, _, name = fn.partition(".")
        if kind == "linux":
            return getattr(self.cl, name)
        if kind == "posix":
            return getattr(self.cp, name)
        ps = self.ps
        if name.startswith("child."):
            assert self.child > 0
            meth = name.split(".", 1)[1]
            return lambda *a: getattr(ps.Process(self.child), meth)(*a)
        return getattr(ps, name)

    def run_A(self, case):
        fn = case["fn"]
        if any(t == "pid:child" for t in case["args"]) or fn.startswith("py.child."):
            assert self.child > 0, "no sacrificial child"
        if self.world_dirty:
            self.default_world()
        f = self.resolve(fn)
        args = [mk(t, self.wenv) for t in case["args"]]
        try:
            if case.get("kw"):
                v = f(x=1)
            else:
                v = f(*args)
            out = ["ok", type(v).__name__]
        except Exception as e:  # noqa: BLE001
            out = ["exc", type(e).__name__]
        viol = []
        if out[0] == "ok" and fn == "linux.proc_cpu_affinity_set" and len(args) == 2 and args[0] == self.child \
                and isinstance(args[1], (list, tuple)) and all(type(x) is int for x in args[1]):
            # integer conversion: a successful call may only ever enable CPUs that were named
            got = set(os.sched_getaffinity(self.child))
            if not got <= set(args[1]):
                viol.append(("wrong-effect:proc_cpu_affinity_set:cpu-number-truncated",
                             "proc_cpu_affinity_set(child, %r) succeeded and the kernel mask is now %r" % (args[1], sorted(got))))
            os.sched_setaffinity(self.child, os.sched_getaffinity(0))
        if out[0] == "ok" and fn == "linux.net_if_duplex_speed" and len(args) == 1 and isinstance(args[0], str) \
                and args[0] not in set(IFNAMES.values()) and args[0] not in os.listdir("/sys/class/net"):
            # the kernel has no such interface (ENODEV): there is no duplex / speed to report for it
            viol.append(("wrong-value:net_if_duplex_speed:answers-for-an-interface-that-does-not-exist",
                         "net_if_duplex_speed(%r) -> %r although no such interface exists" % (args[0][:40], v)))
        key = "%s(%s)->%s" % (fn, ",".join(shape(t) for t in case["args"]) + (",kw" if case.get("kw") else ""),
                              ":".join(out))
        return {"out": out, "viol": viol, "key": key}

    # ---------------------------------------------------------------- part B
    def run_B(self, case):
        data = ut_bytes(case)
        if case.get("nofile"):
            if os.path.exists(self.utmp):
                os.unlink(self.utmp)
        elif len(case["recs"]) % 2:
            self.write(self.utmp, data)
        else:
            # the accounting file is REPLACED (written aside, renamed over: logrotate, a container runtime binding another file):
            # a later call reads the file that is there now, not a descriptor an earlier call may have kept
            self.write(self.utmp + ".new", data)
            os.replace(self.utmp + ".new", self.utmp)
        self.world_dirty = True
        exp = ref_users(b"" if case.get("nofile") else data)
        viol = []
        try:
            raw = self.cl.users()
            got = self.ps.users()
            out = ["ok", len(got)]
        except Exception as e:  # noqa: BLE001
            out = ["exc", type(e).__name__, str(e)[:200]]
            viol.append(("wrong-value:users:unexpected-exception", "%s: %s" % (out[1], out[2])))
        else:
            if len(raw) != len(got):
                viol.append(("wrong-value:users:record-count", "cext.users() %d entries, psutil.users() %d" % (len(raw), len(got))))
            viol += check_users(got, exp)
        types = sorted({r["type"] for r in case["recs"]})
        kinds = sorted({"%s=%s" % (f, r[f]) for r in case["recs"] for f in ("user", "line", "host")})
        key = "users[n=%d,types=%s,%s,trunc=%s]->%s:%s" % (len(case["recs"]), types, ",".join(kinds), case.get("trunc"), out[0], out[1])
        return {"out": out[:2], "viol": _dedup(viol), "key": key}

    # ---------------------------------------------------------------- part C
    def run_C(self, case):
        data = mnt_bytes(case)
        self.write(self.mounts, data)
        self.world_dirty = True
        readings_raw = [ref_mounts(data, None), ref_mounts(data, MNT_BUFSIZ)]
        if readings_raw[0] == readings_raw[1]:
            readings_raw = readings_raw[:1]
        viol = []
        outs = []
        try:
            raw = self.cl.disk_partitions(self.mounts)
            outs.append("ok:%d" % len(raw))
        except Exception as e:  # noqa: BLE001
            outs.append("exc:" + type(e).__name__)
            viol.append(("wrong-value:disk_partitions:unexpected-exception", "%s: %s" % (type(e).__name__, str(e)[:200])))
        else:
            viol += check_mounts("cext", [tuple(x) for x in raw], readings_raw)
        for all_ in (True, False):
            try:
                got = self.ps.disk_partitions(all_)
                outs.append("ok:%d" % len(got))
            except Exception as e:  # noqa: BLE001
                outs.append("exc:" + type(e).__name__)
                viol.append(("wrong-value:disk_partitions:unexpected-exception", "all=%s %s: %s" % (all_, type(e).__name__, str(e)[:200])))
                continue
            readings = [ref_partitions(r, all_) for r in readings_raw]
            v = check_mounts("all=%s" % all_, [tuple(x) for x in got], readings)
            if v and not all_ and v[0][0].endswith("entry-count"):
                v = [("wrong-value:disk_partitions:filter", "all=False: " + v[0][1])]
            viol += v
        lk = sorted({"%s/%s/%s/%s/%s%s" % (sp.get("dev"), sp.get("dir"), sp.get("type"), sp.get("opts"), sp.get("fmt", "std"),
                                            ("/long-%s-%d" % (sp["long"], sp["len"])) if "long" in sp else "")
                     if "raw" not in sp else "raw:" + sp["raw"] for sp in case["lines"]})
        key = "mounts[n=%d,%s,nl=%s]->%s" % (len(case["lines"]), ";".join(lk), case.get("eof_nl", True), ",".join(outs))
        return {"out": outs, "viol": _dedup(viol), "key": key}

    # ---------------------------------------------------------------- part D
    def run_D(self, case):
        self.set_ifs(case)
        viol = []
        if case["call"] == "addrs":
            exp = ref_if_addrs(case)
            try:
                self.cp.net_if_addrs()
                got = self.ps.net_if_addrs()
                out = ["ok", len(got)]
            except Exception as e:  # noqa: BLE001
                out = ["exc", type(e).__name__]
                viol.append(("wrong-value:net_if_addrs:unexpected-exception", "%s: %s" % (type(e).__name__, str(e)[:200])))
            else:
                viol += check_if_addrs(got, exp)
            sk = sorted({"%s/%s/m=%s/u=%s/fl=%x" % (_sk(a["a"]), a["if"], _sk(a["m"]), _sk(a["u"]), a["fl"] & 0x12)
                         for a in case["addrs"]})
            key = "if_addrs[n=%d,%s]->%s" % (len(case["addrs"]), ";".join(sk), ":".join(map(str, out)))
        else:
            try:
                got = self.ps.net_if_stats()
                out = ["ok", got]
            except Exception as e:  # noqa: BLE001
                out = ["exc", type(e).__name__, str(e)[:200]]
            viol += check_if_stats(out, case)
            out = [out[0], len(out[1]) if out[0] == "ok" else out[1]]
            sk = sorted({"%s/mtu=%s/fl=%s/eth=%s" % (i["name"], i["mtu"], i["flags"], i["eth"]) for i in case["ifs"]})
            key = "if_stats[n=%d,%s]->%s" % (len(case["ifs"]), ";".join(sk), ":".join(map(str, out)))
        return {"out": out, "viol": _dedup(viol), "key": key}

    # ---------------------------------------------------------------- part E
    def run_E(self, case):
        """hand-off schedules: a partner thread gets the processor right after the k-th call of a libc function whose result
        lives in static storage (native/ifshim.c).  If the extension still holds the GIL there -- it must, it is about to read
        the static buffer -- the partner cannot run (outcome 0); if it runs (outcome 1) both calls must still be right."""
        import ctypes
        import threading
        lib = ctypes.CDLL(SHIM)
        lib.vf_handoff_wait.argtypes = [ctypes.c_int]
        api, k = case["api"], case["k"]
        viol = []
        if api == "disk_partitions":
            fa, fb = self.mounts, os.path.join(self.tmp, "mounts_b")
            la = [("/dev/a%d" % i, "/mnt/a%d" % i, "ext4", "rw,a%d" % i) for i in range(3)]
            lb = [("/dev/bbbbbbbbbbbbbbbbbbbb%d" % i, "/srv/bbbbbbbbbbbbbbbbbb%d" % i, "vfat", "ro,b%d" % i) for i in range(4)]
            self.write(fa, b"".join(("%s %s %s %s 0 0\n" % x).encode() for x in la))
            self.write(fb, b"".join(("%s %s %s %s 0 0\n" % x).encode() for x in lb))
            call_a = lambda: [tuple(x) for x in self.cl.disk_partitions(fa)]
            call_b = lambda: [tuple(x) for x in self.cl.disk_partitions(fb)]
            exp_a, exp_b = la, lb
        else:
            recs = [{"type": 7, "user": "short", "line": "short", "host": h, "rest": "zero"} for h in (":0", "name", ":0")]
            self.write(self.utmp, b"".join(ut_record(r) for r in recs))
            call_a = call_b = lambda: [tuple(x)[:3] for x in self.cl.users()]
            exp_a = exp_b = None
        self.world_dirty = True
        if exp_a is None:
            exp_a = exp_b = call_a()          # undisturbed call = reference
        lib.vf_handoff_init(int(case.get("wait_ms", 250)))
        box = {}

        def partner():
            if lib.vf_handoff_wait(20000) != 0:
                box["b"] = "never-started"
                return
            try:
                box["b"] = call_b()
            except Exception as e:  # noqa: BLE001
                box["b"] = "exc:%s:%s" % (type(e).__name__, e)
            lib.vf_handoff_done()
        t = threading.Thread(target=partner)
        t.start()
        lib.vf_handoff_arm(k)
        try:
            got_a = call_a()
        except Exception as e:  # noqa: BLE001
            got_a = "exc:%s:%s" % (type(e).__name__, e)
        lib.vf_handoff_arm(-1)
        outcome_ = lib.vf_handoff_outcome()
        if outcome_ == -1:
            lib.vf_handoff_release()       # fewer than k+1 calls were made: let the partner go now
        t.join(30)
        if got_a != exp_a:
            viol.append(("wrong-value:%s:clobbered-by-a-concurrent-call" % api,
                         "hand-off after libc call #%d (partner ran: %s): the call returned %r, expected %r" % (k, outcome_ == 1, got_a, exp_a)))
        if box.get("b") != exp_b:
            viol.append(("wrong-value:%s:partner-call" % api, "partner returned %r expected %r" % (box.get("b"), exp_b)))
        out = ["ok", {1: "partner-ran", 0: "partner-blocked(GIL held)", -1: "point-not-reached"}[outcome_]]
        return {"out": out, "viol": _dedup(viol), "key": "handoff[%s,k=%d]->%s" % (api, k, out[1])}

    def run_canary(self, case):
        import ctypes
        if case["kind"] == "segv":
            ctypes.string_at(8)          # must be reported by ASan and abort the worker
        return {"out": ["ok"], "viol": [], "key": "canary"}

    def run_case(self, case):
        p = case["part"]
        if p == "seq":
            r = None
            for c in case["cases"]:
                r = self.run_case(c)
            return r
        return getattr(self, "run_" + p)(case)


def _sk(sp):
    if sp is None:
        return "NULL"
    if sp[0] == "ll":
        return "ll%d" % sp[1]
    if sp[0] == "raw":
        return "af%d" % sp[1]
    return sp[0] + ":" + sp[1]


def _dedup(viol):
    seen, out = set(), []
    for c, m in viol:
        if c not in seen:
            seen.add(c)
            out.append([c, m])
    return out


def worker_main(casefile, outfile):
    with open(casefile) as f:
        cases = json.load(f)
    fd = os.open(outfile, os.O_WRONLY | os.O_CREAT | os.O_APPEND, 0o644)
    w = Worker(os.path.dirname(os.path.abspath(outfile)))
    os.write(fd, b"S\n")
    for i, case in enumerate(cases):
        os.write(fd, b"B %d\n" % i)
        r = w.run_case(case)
        os.write(fd, ("R %d %s\n" % (i, json.dumps(r, default=str))).encode())
    os.write(fd, b"E\n")
    os.close(fd)
    return 0


# =============================================================================
# parent side: sacrificial workers, crash attribution
# =============================================================================

def _worker_env(tmp, child_pid):
    e = dict(os.environ)
    pre = e.get("LD_PRELOAD", "")
    if SHIM not in pre.split():
        e["LD_PRELOAD"] = (pre + " " + SHIM).strip()
    e["VF_IFSHIM"] = os.path.join(tmp, "ifshim.txt")
    e["VF_C17_CHILD"] = str(child_pid or 0)
    e["UBSAN_OPTIONS"] = "print_stacktrace=0:halt_on_error=1"
    # every Python object comes from malloc (not from pymalloc's arenas, which ASan cannot see into): a reference-count slip in
    # the extension becomes a heap-use-after-free report at its first use instead of allocator-state-dependent corruption
    e["PYTHONMALLOC"] = "malloc"
    e.pop("PSUTIL_DEBUG", None)
    return e


def _die_with_parent():
    import ctypes
    ctypes.CDLL(None).prctl(1, 9)        # PR_SET_PDEATHSIG, SIGKILL: no orphans if the driver is killed


def _spawn_child():
    """the sacrificial process setters are pointed at (never anything else that is alive)"""
    env = {k: v for k, v in os.environ.items() if k not in ("LD_PRELOAD", "VF_IFSHIM")}
    return subprocess.Popen(["/bin/sleep", "1800"], env=env, stdin=subprocess.DEVNULL,
                            stdout=subprocess.DEVNULL, stderr=subprocess.DEVNULL, close_fds=True,
                            preexec_fn=_die_with_parent)


def _norm_report(text):
    """sanitizer stderr -> (kind, summary) with run-specific parts (paths, pids, addresses) removed"""
    stage = os.environ.get("VF_STAGE", "\0")
    text = text.replace(os.path.realpath(stage) + "/", "").replace(stage + "/", "")
    text = re.sub(r"==\d+==", "", text)
    text = re.sub(r"0x[0-9a-f]+", "0x..", text)
    lines = [l.strip() for l in text.splitlines()]
    rt = [l for l in lines if "runtime error:" in l]
    asan = [l for l in lines if l.startswith("ERROR: AddressSanitizer")]
    summ = [l for l in lines if l.startswith("SUMMARY:")]
    if rt:
        return "UBSan", rt[0][:300]
    if asan:
        m = re.match(r"ERROR: AddressSanitizer: ([\w-]+)", asan[0])
        kind = m.group(1) if m else "error"
        where = summ[0] if summ else asan[0]
        where = re.sub(r"\s*\(.*?\+0x\.\.\)", "", where)
        where = re.sub(r"\s*\(BuildId: \w+\)", "", where)
        return "ASan:" + kind, where[:300]
    tail = [l for l in lines if l][-3:]
    return "died", " | ".join(tail)[:300]


def _crash_cause(case, kind, summary, rc):
    fn = case.get("fn") or {"B": "users", "C": "disk_partitions", "D": "net_if_" + str(case.get("call")),
                            "seq": "sequence"}.get(case["part"], case["part"])
    if "left shift" in summary and "arch/linux/proc.c" in summary:
        return "ioprio_set:shift-UB"
    if "left shift" in summary and "arch/linux/net.c" in summary:
        return "net_if_duplex_speed:speed_hi-shift-UB"
    if kind == "timeout":
        return "no-outcome:timeout:%s" % fn
    m = re.search(r"psutil/[\w/.]+\.[ch]:\d+", summary)
    where = (":" + m.group(0)) if m else ""
    return "abort:%s:%s%s" % (fn.split(".")[-1] if not fn.startswith("py.") else fn, kind, where)


def _run_worker(cases, tmp, child_pid, timeout=WORKER_TIMEOUT):
    """-> (results: {i: r}, died: None | dict(index, kind, summary, rc))"""
    casefile = os.path.join(tmp, "cases.json")
    outfile = os.path.join(tmp, "out.jsonl")
    errfile = os.path.join(tmp, "stderr.txt")
    for p in (outfile, errfile):
        if os.path.exists(p):
            os.unlink(p)
    with open(casefile, "w") as f:
        json.dump(cases, f)
    timed_out = False
    with open(errfile, "wb") as ef:
        p = subprocess.Popen([PY, "-m", "vf.checks.c17", "--worker", casefile, outfile],
                             env=_worker_env(tmp, child_pid), cwd=HERE, stdin=subprocess.DEVNULL,
                             stdout=subprocess.DEVNULL, stderr=ef, preexec_fn=_die_with_parent)
        try:
            rc = p.wait(timeout=timeout)
        except subprocess.TimeoutExpired:
            p.kill()
            rc = p.wait()
            timed_out = True
    results, begun, started, ended = {}, None, False, False
    if os.path.exists(outfile):
        with open(outfile) as f:
            for line in f:
                if line.startswith("S"):
                    started = True
                elif line.startswith("B "):
                    begun = int(line.split()[1])
                elif line.startswith("R "):
                    _, i, js = line.split(" ", 2)
                    results[int(i)] = json.loads(js)
                    begun = None
                elif line.startswith("E"):
                    ended = True
    with open(errfile, "rb") as f:
        err = f.read().decode("utf-8", "replace")
    if rc == 0 and ended and len(results) == len(cases):
        return results, None
    if not started or begun is None:
        raise RuntimeError("C17 worker failed outside a case (rc=%s): %s" % (rc, err[-1500:]))
    if timed_out:
        kind, summary = "timeout", "no outcome after %d s" % timeout
    else:
        kind, summary = _norm_report(err)
        if kind == "died" and "Traceback" in err and rc == 1:
            raise RuntimeError("C17 worker raised (harness bug) in case %r: %s" % (cases[begun], err[-1500:]))
    return results, {"index": begun, "kind": kind, "summary": summary, "rc": rc}


def _needs_child(cases):
    return any(c["part"] == "A" or (c["part"] == "seq" and _needs_child(c["cases"])) for c in cases)


def _run_chunk(job):
    """run one chunk of cases in sacrificial workers -> list of (case, result|None, violations)"""
    cases = job["cases"]
    tmp = tempfile.mkdtemp(prefix="vf-c17-", dir="/var/tmp")
    child = _spawn_child() if _needs_child(cases) else None
    out = []
    try:
        pending = list(cases)
        while pending:
            res, died = _run_worker(pending, tmp, child.pid if child else 0,
                                    SOLO_TIMEOUT if len(pending) == 1 else WORKER_TIMEOUT)
            upto = len(pending) if died is None else died["index"]
            for i in range(upto):
                out.append((pending[i], res[i]))
            if died is None:
                break
            bad = pending[died["index"]]
            prefix = pending[:died["index"] + 1]
            pending = pending[died["index"] + 1:]
            # confirm alone (this is what replay() will do)
            if died["index"] > 0:
                _, solo = _run_worker([bad], tmp, child.pid if child else 0, SOLO_TIMEOUT)
            else:
                solo = died
            if solo is not None:
                vcase, d = bad, solo
            else:
                # only fails after the calls that preceded it in this worker: keep the sequence
                vcase, d = {"part": "seq", "cases": prefix}, died
                _, again = _run_worker([vcase], tmp, child.pid if child else 0)
                if again is None:
                    raise RuntimeError("C17: worker death not reproducible: %r %r" % (bad, died))
                d = again
            cause = _crash_cause(bad, d["kind"], d["summary"], d["rc"])
            out.append((bad, {"out": ["abort", d["kind"]], "viol": [],
                              "key": "%s->abort:%s" % (_case_label(bad), d["kind"]),
                              "crash": {"cause": cause, "msg": "%s  [worker rc=%s]" % (d["summary"], d["rc"]),
                                        "case": vcase}}))
    finally:
        if child is not None:
            child.kill()
            child.wait()
        shutil.rmtree(tmp, ignore_errors=True)
    return out


def _witness_rank(case):
    """the driver stores the first case of every cause: put the most telling witness first"""
    if case.get("part") == "D" and case.get("call") == "stats" and len(case["ifs"]) == 1:
        it = case["ifs"][0]
        # duplex/speed "unknown" is what the kernel answers for a NIC without link
        if it["eth"] == [255, 0xFFFF, 0xFFFF] and it["mtu"] == 1500 and it["flags"] == 0x1043:
            return 0
    return 1


def _case_label(c):
    if c["part"] == "A":
        return "%s(%s)" % (c["fn"], ",".join(shape(t) for t in c["args"]))
    return c["part"]


def _ensure_shim():
    src = os.path.join(HERE, "native", "ifshim.c")
    if (not os.path.exists(SHIM)) or os.path.getmtime(SHIM) < os.path.getmtime(src):
        subprocess.run(["make", "-s", "-C", os.path.join(HERE, "native")], check=True)
    assert os.path.exists(SHIM), "ifshim.so not built (run ./setup.sh)"


def _check_sanitized():
    pre = os.environ.get("LD_PRELOAD", "")
    if "asan" not in pre:
        raise RuntimeError("C17 must run under the sanitised build (LD_PRELOAD=%r); clang/ASan runtime missing?" % pre)
    import psutil
    for m in (psutil._psutil_linux, psutil._psutil_posix):
        with open(m.__file__, "rb") as f:
            blob = f.read()
        if b"__ubsan_handle" not in blob or b"__asan_" not in blob:
            raise RuntimeError("%s is not built with ASan+UBSan" % m.__file__)


def _canary():
    """the harness itself must see a sanitizer abort as a dead worker attributed to one case"""
    tmp = tempfile.mkdtemp(prefix="vf-c17-", dir="/var/tmp")
    try:
        res, died = _run_worker([{"part": "canary", "kind": "ok"}, {"part": "canary", "kind": "segv"},
                                 {"part": "canary", "kind": "ok"}], tmp, 0)
        if died is None or died["index"] != 1 or not died["kind"].startswith("ASan"):
            raise RuntimeError("C17 canary: sanitizer abort not observed: %r" % (died,))
    finally:
        shutil.rmtree(tmp, ignore_errors=True)


def run(ctx):
    _ensure_shim()
    _check_sanitized()
    _canary()
    thorough = ctx.thorough
    eps = discover_entry_points()
    a_cases, unknown = gen_A(thorough, eps)
    parts = {"A": a_cases, "B": gen_B(thorough), "C": gen_C(thorough), "D": gen_D(thorough), "E": gen_E(thorough)}
    jobs = []
    for p in "ABCDE":
        cs = parts[p]
        n = max(1, min(len(cs) // 40, ctx.ncpu * (3 if p == "A" else 1))) if p != "E" else len(cs)
        for k in range(n):
            jobs.append({"part": p, "k": k, "cases": cs[k::n]})     # round-robin: spreads aborting cases
    # biggest first
    jobs.sort(key=lambda j: -len(j["cases"]))
    results = ctx.pmap(_run_chunk, jobs, chunk=1)
    violations = []
    hist_given = {}
    keys = {}
    per_part = {}
    outcomes = {}
    for job, res in zip(jobs, results):
        pp = per_part.setdefault(job["part"], {"cases": 0, "distinct": set(), "violating": 0, "aborts": 0})
        for idx_, (case, r) in enumerate(res):
            pp["cases"] += 1
            pp["distinct"].add(r["key"])
            keys.setdefault(r["key"], case)
            oc = "%s:%s" % (job["part"], ":".join(str(x) for x in r["out"][:2]))
            outcomes[oc] = outcomes.get(oc, 0) + 1
            if r.get("crash"):
                pp["aborts"] += 1
                pp["violating"] += 1
                violations.append(r["crash"])
            for cause, msg in r["viol"]:
                v_ = {"cause": cause, "msg": msg, "case": case}
                if idx_ and hist_given.get(cause, 0) < 2:
                    # the calls that preceded it in the same worker process (a static variable, a cached descriptor or object in
                    # the extension may carry over from them): used by the runner when the case does not reproduce alone
                    hist_given[cause] = hist_given.get(cause, 0) + 1
                    v_["alt_case"] = {"history": [c_ for c_, _ in res[:idx_ + 1]]}
                violations.append(v_)
            if r["viol"]:
                pp["violating"] += 1
    violations.sort(key=lambda v: (v["cause"], _witness_rank(v["case"]), len(json.dumps(v["case"])),
                                   json.dumps(v["case"], sort_keys=True)))
    total = sum(p["cases"] for p in per_part.values())
    assert total == sum(len(v) for v in parts.values()), "lost cases"
    distinct = sum(len(p["distinct"]) for p in per_part.values())
    from vf.harness import sample
    samples = []
    for p in "ABCDE":
        samples += sample(parts[p], 3)
    cov = {
        "evaluations": total,
        "distinct_nontrivial": distinct,
        "rule": "every case = one call (A) or one input file / interface list fed to the compiled, ASan+UBSan-instrumented "
                "extension in a sacrificial worker. distinct = number of distinct (entry point or decoder, argument-shape / "
                "record-shape class, outcome class) triples actually observed; shape classes: ints by C boundary "
                "(<-2^31,<0,<2^18,<2^31,<2^63,>=2^63), strings by length class (<=15,<=255,>255,NUL,surrogate), "
                "sequence kind; utmp: record count, set of record types and field kinds; mounts: set of line shapes; "
                "interfaces: set of address/ioctl answer shapes. Complete products within the listed bounds, no sampling.",
        "samples": samples,
        "exhaustive": True,
        "per_part": {p: {"cases": v["cases"], "distinct": len(v["distinct"]), "violating_cases": v["violating"],
                         "sanitizer_aborts": v["aborts"]} for p, v in sorted(per_part.items())},
        "entry_points": eps,
        "entry_points_without_signature": unknown,
        "python_api_entry_points": sorted(f for f in SIGS if f.startswith("py.")),
        "lattice_size": {"any": len(lattice_any(thorough)), "pid_getter": len(lattice_pid_getter(thorough)),
                         "pid_setter": len(lattice_pid_setter(thorough))},
        "bounds": {"A": "arity<=2 full product; arity 3 %s; arities 0..4" % ("full product" if thorough else "all pairs x 2 nominal values of the third"),
                   "B": "1 record: type 0..9 x user/line/host kinds^3 x {zero,hot} neighbours; 0,2,3 records over 6-record alphabet; partial trailing records",
                   "C": "1 entry: device x dir x type x opts product, 5 line formats, line lengths around the 4096-byte libc buffer; 0,2,3 lines over 9-line alphabet",
                   "E": "hand-off schedules: partner thread offered the processor after every call k of getmntent()/getutent() made by disk_partitions()/users() (k = 0..entries+1), one complete partner call each",
                   "D": "1 address entry: family x netmask x broadcast/ptp/none x name; 0,2,3 entries over 6; stats: MTU x flags x ethtool answer x name; 0,2,3 interfaces"},
        "outcome_counts": dict(sorted(outcomes.items())),
        "sanitizer": "clang -fsanitize=address,undefined -fno-sanitize-recover=all; canary abort observed",
    }
    return {
        "coverage": cov,
        "violations": violations,
        "assumptions": [
            "clang 14 ASan/UBSan instrument only the psutil extension; libc and CPython are observed through ASan interceptors only",
            "struct utmp layout = x86-64 glibc (384 bytes); glibc getutent()/getmntent() are the readers (mounts lines beyond glibc's 4096-byte buffer: both the cut and the uncut reading are accepted)",
            "interface list, SIOCGIFMTU/SIOCGIFFLAGS/SIOCETHTOOL answers come from native/ifshim.c (LD_PRELOAD), link-layer sockaddr storage is exactly as long as the address (>= sizeof(sockaddr_ll))",
            "setters are exercised only on a sacrificial sleep child, an unused pid (> PID_MAX_LIMIT), negative pids and values failing conversion",
            "where the statement is silent (tty '' vs None, short MAC padding, tv_usec, ENODEV/EIO of one interface, duplex codes outside the ABI) every reading is accepted",
        ],
    }


def replay(ctx, case):
    _ensure_shim()
    _check_sanitized()
    if "history" in case:
        case = {"part": "seq", "cases": list(case["history"])}        # the calls of one worker process, in order
    res = _run_chunk({"part": case["part"], "k": 0, "cases": [case]})
    (c, r), = res
    if r.get("crash"):
        return {"violated": True, "cause": r["crash"]["cause"], "msg": r["crash"]["msg"], "outcome": r["out"]}
    if r["viol"]:
        return {"violated": True, "cause": r["viol"][0][0], "msg": r["viol"][0][1], "outcome": r["out"],
                "all": r["viol"]}
    return {"violated": False, "outcome": r["out"]}


if __name__ == "__main__":
    if len(sys.argv) == 4 and sys.argv[1] == "--worker":
        sys.exit(worker_main(sys.argv[2], sys.argv[3]))
    print("usage: python -m vf.checks.c17 --worker <casefile> <outfile>", file=sys.stderr)
    sys.exit(2)
