"""C13 — process memory figures are consistent with the kernel's per-mapping accounting.
Explorer I: statm boundaries, all mapping lists up to a bound over a path alphabet,
distinct figures per mapping, optional smaps lines on/off, roll-up present / absent /
refused; reference = sums over the mapping list."""
import itertools

from vf.harness import use_world, outcome, freeze, sample, guarded, add_histories, history_of, LongLived
from vf.simk.world import World, Mapping, PAGESIZE, SMAPS_KEYS

ID = "C13"
LEVEL = "exploration"
ALT_MOUNT = True          # run once more with procfs mounted at /hostproc (vf/child.py)
PATHS = [b"", b"/lib/a.so", b"/lib/a.so", b"/tmp/a b", b"/x:y", b"/tmp/z (deleted)", b"[heap]", b"/lit (deleted)", b"/p\xff", b"/srv/a  b", b"/srv/a b", b"/srv/t\tb",
         # unlinked files whose own name ends in letters of the " (deleted)" marker
         b"/usr/bin/sed (deleted)", b"/tmp/deleted (deleted)",
         # a carriage return in the path (only '\n' is escaped by the kernel)
         b"/srv/up\rload/lib one.so"]
BOUND = [0, 1, 2 ** 31 - 1, 2 ** 32, 2 ** 40, 2 ** 52]
FIELDS = ["rss", "size", "pss", "shared_clean", "shared_dirty", "private_clean", "private_dirty", "referenced", "anonymous", "swap"]
KEY_OF = {"rss": "Rss", "size": "Size", "pss": "Pss", "shared_clean": "Shared_Clean", "shared_dirty": "Shared_Dirty",
          "private_clean": "Private_Clean", "private_dirty": "Private_Dirty", "referenced": "Referenced",
          "anonymous": "Anonymous", "swap": "Swap"}
CALLS = ["info", "full", "maps", "grouped", "pct:rss", "pct:uss"]
CONTEXTS = ["plain", "oneshot", "as_dict"]
OPTS = ["vmflags", "thp", "pkey", "Private_Hugetlb", "SwapPss", "Pss_Dirty"]


def mk_world(seed):
    w = World(ncpus=2)
    w.spawn(1, ppid=0, comm=b"init", start=1)
    w.spawn(w.mypid, ppid=1, comm=b"caller", start=50)
    p = w.spawn(7000 + seed % 30, ppid=w.mypid, comm=b"x", start=777)
    w.set_file("/lit (deleted)", b"x")
    return w, p


def mk_mapping(i, path, scale=1, opts=()):
    kb = {}
    for j, k in enumerate(SMAPS_KEYS):
        kb[k] = (1 + j + 31 * i) * scale
    omit = set()
    for o in ("Private_Hugetlb", "SwapPss", "Pss_Dirty"):
        if o not in opts:
            omit.add(o)
    return Mapping(0x1000 * (1 + 16 * i), 0x1000 * (9 + 16 * i), perms=["r-xp", "rw-p", "r--s"][i % 3], offset=0x10 * i,
                   inode=100 + i if path and not path.startswith(b"[") else 0, path=path, kb=kb,
                   thp=("tab" if "thptab" in opts else (True if "thp" in opts else None)), vmflags=(b"rd ex mr" if "vmflags" in opts else None),
                   pkey=(0 if "pkey" in opts else None), omit=omit)


def ref(w, maps):
    uss = sum(m.kb["Private_Clean"] + m.kb["Private_Dirty"] + (m.kb["Private_Hugetlb"] if "Private_Hugetlb" not in m.omit else 0)
              for m in maps) * 1024
    pss = sum(m.kb["Pss"] for m in maps) * 1024
    swap = sum(m.kb["Swap"] for m in maps) * 1024
    rows = []
    for m in maps:
        path = m.path.decode("utf-8", "surrogateescape") if m.path else "[anon]"
        if path.endswith(" (deleted)") and path not in w.nodes:
            path = path[:-10]
        rows.append(dict(addr="%x-%x" % (m.start, m.end), perms=m.perms, path=path,
                         **{f: m.kb[KEY_OF[f]] * 1024 for f in FIELDS}))
    grouped = {}
    for r in rows:
        g = grouped.setdefault(r["path"], dict.fromkeys(FIELDS, 0))
        for f in FIELDS:
            g[f] += r[f]
    return uss, pss, swap, rows, grouped


def _run_case(case, st):
    import psutil
    w, p = st
    k = case[0]
    bad = []
    p.statm = (211, 212, 213, 214, 215, 216, 217)
    p.maps, p.rollup, p.denied = [], True, set()
    psutil._pslinux.HAS_PROC_SMAPS_ROLLUP = True
    psutil._TOTAL_PHYMEM = None
    pr = LongLived.get(psutil, w, p.pid)
    if k == "statm":
        p.statm = tuple(case[1])
        got = outcome(pr.memory_info)
        s = case[1]
        exp = dict(rss=s[1] * PAGESIZE, vms=s[0] * PAGESIZE, shared=s[2] * PAGESIZE, text=s[3] * PAGESIZE,
                   lib=s[4] * PAGESIZE, data=s[5] * PAGESIZE, dirty=s[6] * PAGESIZE)
        if got[0] != "ok" or {f: getattr(got[1], f) for f in exp} != exp:
            bad.append(("memory_info", "memory_info() -> %r, statm %r" % (freeze(got), s)))
        return bad
    if k == "maps":
        paths, scale, opts, mode = case[1], case[2], case[3], case[4]
        p.maps = [mk_mapping(i, pa.encode("latin-1"), scale, opts) for i, pa in enumerate(paths)]
        if mode == "norollup-kernel":
            psutil._pslinux.HAS_PROC_SMAPS_ROLLUP = False
        elif mode == "rollup-enoent":
            p.rollup = False
        elif mode == "rollup-esrch-read":
            p.rollup = "esrch-read"
        uss, pss, swap, rows, grouped = ref(w, p.maps)
        got = outcome(pr.memory_full_info)
        if got[0] != "ok" or (got[1].uss, got[1].pss, got[1].swap) != (uss, pss, swap) or got[1].rss != 212 * PAGESIZE:
            which = [n for n, a, b in (("uss", got[1].uss if got[0] == "ok" else None, uss),
                                       ("pss", got[1].pss if got[0] == "ok" else None, pss),
                                       ("swap", got[1].swap if got[0] == "ok" else None, swap)) if a != b]
            bad.append(("memory_full_info:%s:%s" % ("+".join(which) or "other", mode),
                        "memory_full_info() -> %r, expected uss=%d pss=%d swap=%d (%s)" % (freeze(got), uss, pss, swap, mode)))
        got = outcome(pr.memory_maps, grouped=False)
        if got[0] != "ok":
            bad.append(("memory_maps-raised:%s" % got[1], repr(got)))
        else:
            g = [dict(addr=r.addr, perms=r.perms, path=r.path, **{f: getattr(r, f) for f in FIELDS}) for r in got[1]]
            if g != rows:
                tag = "count" if len(g) != len(rows) else ("path" if [x["path"] for x in g] != [x["path"] for x in rows] else "figures")
                bad.append(("memory_maps:ungrouped:%s" % tag, "got %r expected %r" % (g, rows)))
        got = outcome(pr.memory_maps, grouped=True)
        if got[0] != "ok":
            bad.append(("memory_maps-grouped-raised:%s" % got[1], repr(got)))
        else:
            g = {r.path: {f: getattr(r, f) for f in FIELDS} for r in got[1]}
            if g != grouped or len(got[1]) != len(grouped):
                bad.append(("memory_maps:grouped", "got %r expected %r" % (g, grouped)))
        # the same questions asked several times inside ONE oneshot() block get the same answers
        def in_block():
            with pr.oneshot():
                a = pr.memory_maps(grouped=False)
                b = pr.memory_maps(grouped=False)
                c = pr.memory_maps(grouped=True)
                d = pr.memory_full_info()
                e = pr.memory_maps(grouped=True)
            return a, b, c, d, e
        got = outcome(in_block)
        if got[0] != "ok":
            bad.append(("in-oneshot-block-raised:%s" % got[1], "repeated memory_maps()/memory_full_info() inside one block: %r" % (got,)))
        else:
            a, b, c, d, e = got[1]
            ga = [dict(addr=r.addr, perms=r.perms, path=r.path, **{f: getattr(r, f) for f in FIELDS}) for r in a]
            gb = [dict(addr=r.addr, perms=r.perms, path=r.path, **{f: getattr(r, f) for f in FIELDS}) for r in b]
            gc_ = {r.path: {f: getattr(r, f) for f in FIELDS} for r in c}
            ge = {r.path: {f: getattr(r, f) for f in FIELDS} for r in e}
            if ga != rows or gb != rows or gc_ != grouped or ge != grouped or (d.uss, d.pss, d.swap) != (uss, pss, swap):
                bad.append(("in-oneshot-block:repeated-calls-differ", "inside one block: ungrouped %r / %r, grouped %r / %r, full %r; expected %r / %r / %r"
                            % (ga == rows, gb == rows, gc_ == grouped, ge == grouped, (d.uss, d.pss, d.swap), rows, grouped, (uss, pss, swap))))
        # a block that read the listing and was then left by an exception; afterwards the process maps one more file: calls made
        # outside any block report the mappings as they are now
        def boom():
            with pr.oneshot():
                pr.memory_maps(grouped=False)
                pr.memory_full_info()
                raise KeyError("left by an exception")
        outcome(boom)
        p.maps = p.maps + [mk_mapping(len(paths) + 3, b"/lib/late.so", scale, opts)]
        uss2, pss2, swap2, rows2, grouped2 = ref(w, p.maps)
        got = outcome(pr.memory_maps, grouped=False)
        g = [dict(addr=r.addr, perms=r.perms, path=r.path, **{f: getattr(r, f) for f in FIELDS}) for r in got[1]] if got[0] == "ok" else got
        if g != rows2:
            bad.append(("memory_maps:stale-after-a-block-left-by-an-exception", "got %r expected %r" % (g, rows2)))
        got = outcome(pr.memory_full_info)
        if got[0] != "ok" or (got[1].uss, got[1].pss, got[1].swap) != (uss2, pss2, swap2):
            bad.append(("memory_full_info:stale-after-a-block-left-by-an-exception", "got %r expected %r" % (freeze(got), (uss2, pss2, swap2))))
        return bad
    if k == "deleted-flip":
        # the same question twice while a file literally called "X (deleted)" comes into being / goes away in between: each
        # answer follows the file system as it is at THAT call
        p.maps = [mk_mapping(0, b"/tmp/q (deleted)", 1, ()), mk_mapping(1, b"/tmp/q", 1, ())]
        seqs = case[1]
        for step, exists in enumerate(seqs):
            if exists:
                w.set_file("/tmp/q (deleted)", b"x")
            else:
                w.remove("/tmp/q (deleted)")
            uss, pss, swap, rows, grouped = ref(w, p.maps)
            got = outcome(pr.memory_maps, grouped=False)
            g = [r.path for r in got[1]] if got[0] == "ok" else got
            if g != [r["path"] for r in rows]:
                bad.append(("memory_maps:deleted-suffix-decided-from-an-earlier-call", "step %d of %r: paths %r, expected %r" % (step, seqs, g, [r["path"] for r in rows])))
            got = outcome(pr.memory_maps, grouped=True)
            gg = sorted(r.path for r in got[1]) if got[0] == "ok" else got
            if gg != sorted(grouped):
                bad.append(("memory_maps:grouped:deleted-suffix-decided-from-an-earlier-call", "step %d of %r: rows %r, expected %r" % (step, seqs, gg, sorted(grouped))))
        w.remove("/tmp/q (deleted)")
        return bad
    if k == "call-order":
        # every ordered word over the memory calls put to ONE object in one context (no block / inside one oneshot() block / through
        # as_dict() inside one block): each answer is the kernel's figures whatever was asked before it; memory_info() is exactly
        # the seven statm columns (names and values), memory_full_info() exactly those plus uss, pss, swap
        ctx_, word = case[1], case[2]
        p.maps = [mk_mapping(0, b"/lib/a.so", 3, ("Private_Hugetlb",)), mk_mapping(1, b"", 5, ("Private_Hugetlb",)), mk_mapping(2, b"/lib/a.so", 7, ("Private_Hugetlb",))]      # (optional lines: the same set on every mapping, as one kernel prints them)
        total_kb = 16000000
        w.set_file("/proc/meminfo", b"MemTotal: %d kB\nMemFree: 1 kB\nMemAvailable: 1 kB\nBuffers: 0 kB\nCached: 0 kB\nActive: 0 kB\nInactive: 0 kB\nShmem: 0 kB\n" % total_kb)
        uss, pss, swap, rows, grouped = ref(w, p.maps)

        def basic(s):
            return dict(rss=s[1] * PAGESIZE, vms=s[0] * PAGESIZE, shared=s[2] * PAGESIZE, text=s[3] * PAGESIZE,
                        lib=s[4] * PAGESIZE, data=s[5] * PAGESIZE, dirty=s[6] * PAGESIZE)
        exp_info = basic(p.statm)
        exp_full = dict(exp_info, uss=uss, pss=pss, swap=swap)
        AS_DICT = {"info": "memory_info", "full": "memory_full_info", "grouped": "memory_maps", "pct:rss": "memory_percent"}

        def ask(op):
            if ctx_ == "as_dict" and op in AS_DICT:
                return pr.as_dict(attrs=[AS_DICT[op]])[AS_DICT[op]]
            if op == "info":
                return pr.memory_info()
            if op == "full":
                return pr.memory_full_info()
            if op == "maps":
                return pr.memory_maps(grouped=False)
            if op == "grouped":
                return pr.memory_maps(grouped=True)
            return pr.memory_percent(op[4:])

        def judge_(op, r, exp_info, exp_full):
            if op == "info":
                return dict(zip(r._fields, r)) == exp_info and len(r) == len(exp_info)
            if op == "full":
                return dict(zip(r._fields, r)) == exp_full and len(r) == len(exp_full)
            if op == "maps":
                return [dict(addr=x.addr, perms=x.perms, path=x.path, **{f: getattr(x, f) for f in FIELDS}) for x in r] == rows
            if op == "grouped":
                return {x.path: {f: getattr(x, f) for f in FIELDS} for x in r} == grouped and len(r) == len(grouped)
            e = exp_full[op[4:]] / float(total_kb * 1024) * 100
            return abs(r - e) <= 1e-9 * max(1, abs(e))

        def whole():
            if ctx_ == "plain":
                return [ask(op) for op in word]
            with pr.oneshot():
                return [ask(op) for op in word]
        got = outcome(whole)
        if got[0] != "ok":
            bad.append(("call-order:%s:raised:%s" % (ctx_, got[1]), "%r in context %s -> %r" % (word, ctx_, got)))
        else:
            for i, (op, r) in enumerate(zip(word, got[1])):
                if not judge_(op, r, exp_info, exp_full):
                    bad.append(("call-order:%s:%s-wrong-after-earlier-calls" % (ctx_, op.split(":")[0]),
                                "call %d of %r in context %s -> %r; expected memory_info %r, uss/pss/swap %r"
                                % (i, word, ctx_, r, exp_info, (uss, pss, swap))))
        # afterwards (outside any block) the kernel's record changes: memory_info() / memory_full_info() are read afresh
        p.statm = (311, 312, 313, 314, 315, 316, 317)
        exp_info2 = basic(p.statm)
        for op in ("info", "full"):
            got = outcome(pr.memory_info if op == "info" else pr.memory_full_info)
            if got[0] != "ok" or not judge_(op, got[1], exp_info2, dict(exp_info2, uss=uss, pss=pss, swap=swap)):
                bad.append(("call-order:%s:%s-wrong-after-the-word" % (ctx_, op),
                            "after %r in context %s and a changed statm: %s -> %r; expected memory_info %r" % (word, ctx_, op, freeze(got), exp_info2)))
        return bad
    if k == "percent-seq":
        # the total that memory_percent() divides by is the one of the LATEST virtual_memory() reading
        p.maps = [mk_mapping(0, b"/lib/a.so", 3, ("Private_Hugetlb",))]
        name, totals = case[1], case[2]
        for t in totals:
            w.set_file("/proc/meminfo", b"MemTotal: %d kB\nMemFree: 1 kB\nMemAvailable: 1 kB\nBuffers: 0 kB\nCached: 0 kB\nActive: 0 kB\nInactive: 0 kB\nShmem: 0 kB\n" % t)
            vm = outcome(psutil.virtual_memory)
            got = outcome(pr.memory_percent, name)
            val = dict(rss=212 * PAGESIZE, vms=211 * PAGESIZE, data=216 * PAGESIZE)[name]
            exp = val / float(t * 1024) * 100
            if vm[0] != "ok" or got[0] != "ok" or abs(got[1] - exp) > 1e-9 * max(1, abs(exp)):
                bad.append(("memory_percent:after-total-changed", "MemTotal now %d kB (sequence %r): memory_percent(%r) -> %r expected %r"
                            % (t, totals, name, got, exp)))
        return bad
    if k == "percent":
        p.maps = [mk_mapping(0, b"/lib/a.so", 3, ("Private_Hugetlb",)), mk_mapping(1, b"", 5, ("Private_Hugetlb",))]
        total_kb = case[2]
        w.set_file("/proc/meminfo", b"MemTotal: %d kB\nMemFree: 1 kB\nMemAvailable: 1 kB\nBuffers: 0 kB\nCached: 0 kB\nActive: 0 kB\nInactive: 0 kB\nShmem: 0 kB\n" % total_kb)
        name = case[1]
        got = outcome(pr.memory_percent, name)
        uss, pss, swap, _, _ = ref(w, p.maps)
        vals = dict(rss=212 * PAGESIZE, vms=211 * PAGESIZE, shared=213 * PAGESIZE, text=214 * PAGESIZE, lib=215 * PAGESIZE,
                    data=216 * PAGESIZE, dirty=217 * PAGESIZE, uss=uss, pss=pss, swap=swap)
        if name in vals:
            exp = vals[name] / float(total_kb * 1024) * 100
            if got[0] != "ok" or abs(got[1] - exp) > 1e-9 * max(1, abs(exp)):
                bad.append(("memory_percent:value:%s" % name, "memory_percent(%r) -> %r expected %r" % (name, got, exp)))
        else:
            if not (got[0] == "exc" and got[1] == "ValueError"):
                bad.append(("memory_percent:invalid-name-accepted", "memory_percent(%r) -> %r" % (name, freeze(got))))
        return bad
    return bad


def run_case(case, st):
    return LongLived.both(_run_case, case, st, repoint=case[0] not in ("percent", "percent-seq")
                          and not (case[0] == "call-order" and any(op.startswith("pct:") for op in case[2])))      # (memory_percent divides by a system-wide figure)


def worker(chunk):
    seed, cases = chunk
    w, p = mk_world(seed)
    use_world(w)
    w.logging = False
    return [guarded(run_case, c, (w, p)) for c in cases]


def build_cases(thorough):
    cases = []
    for i in range(7):
        for v in BOUND:
            s = [211, 212, 213, 214, 215, 216, 217]
            s[i] = v
            cases.append(("statm", s))
    nmax = 4 if thorough else 2
    plist = [x.decode("latin-1") for x in PATHS]
    combos = [()]
    for n in range(1, nmax + 1):
        combos += list(itertools.product(range(len(plist)), repeat=n))
    for combo in combos:
        paths = [plist[i] for i in combo]
        for mode in ("rollup", "rollup-enoent", "norollup-kernel", "rollup-esrch-read"):
            cases.append(("maps", paths, 1, (), mode))
    # optional lines: every subset, on a fixed 2-mapping list
    for r in range(len(OPTS) + 1):
        for sub in itertools.combinations(OPTS, r):
            for mode in ("rollup", "rollup-enoent"):
                cases.append(("maps", ["/lib/a.so", ""], 1, sub, mode))
    for mode in ("rollup", "rollup-enoent"):
        cases.append(("maps", ["/lib/a.so", "", "[heap]"], 1, ("thptab", "vmflags"), mode))
    for seq_ in ((False, True), (True, False), (False, True, False)):
        cases.append(("deleted-flip", seq_))
    for scale in (2 ** 20, 2 ** 30):            # figures up to ~2^36 kB (tens of TB)
        for mode in ("rollup", "rollup-enoent"):
            cases.append(("maps", ["/lib/a.so", "", "/lib/a.so"], scale, ("Private_Hugetlb",), mode))
    names = ["rss", "vms", "shared", "text", "lib", "data", "dirty", "uss", "pss", "swap", "?!?", "", "count", "index",
             "_fields", "RSS", "rss "]
    for nm in names:
        for total in (16000000, 1, 2 ** 40):
            cases.append(("percent", nm, total))
    for nm in ("rss", "vms", "data"):
        for totals in ((8000000, 16000000, 4000000), (1000, 1000, 2000)):
            cases.append(("percent-seq", nm, totals))
    # call order: every word of <= 3 (thorough: 4) calls over the memory calls, in each context
    words = []
    for n in range(1, (4 if thorough else 3) + 1):
        words += list(itertools.product(CALLS, repeat=n))
    for ctx_ in CONTEXTS:
        for word in words:
            cases.append(("call-order", ctx_, word))
    return cases


def run(ctx):
    cases = build_cases(ctx.thorough)
    n = max(1, len(cases) // (ctx.ncpu * 4))
    chunks = [(ctx.seed, cases[i:i + n]) for i in range(0, len(cases), n)]
    res = [r for ch in ctx.pmap_fresh(worker, chunks) for r in ch]
    viols, kinds = [], {}
    for _i, (c, bad) in enumerate(zip(cases, res)):
        kinds[c[0]] = kinds.get(c[0], 0) + 1
        for cause, msg in bad:
            viols.append({"cause": cause, "msg": msg, "case": list(c), "_idx": _i})
    sres = {"violations": [], "coverage": {"executions": 0}}
    if not ctx.alt:
        from vf.checks import c13s
        ctx.close()
        sres = c13s.run_s(ctx)
        viols += sres["violations"]
    cov = {"evaluations": len(cases) + sres["coverage"]["executions"], "schedules": sres["coverage"], "distinct_nontrivial": len({repr(c) for c in cases}),
           "rule": "one evaluation = one statm record / mapping list (paths x optional lines x roll-up mode) / memory_percent argument "
                   "rendered by simk and read through memory_info, memory_full_info, memory_maps(both forms), memory_percent; "
                   "distinct by construction",
           "per_dimension": kinds, "exhaustive": True, "samples": [list(c) for c in sample(cases, 6)],
           "bounds": "all lists of <= %d mappings over %d paths x 3 roll-up modes; all subsets of %d optional lines" % (4 if ctx.thorough else 2, len(PATHS), len(OPTS))
                     + "; all words of <= %d calls over %d memory calls x %d contexts (no block / one oneshot() block / as_dict() in a block)" % (4 if ctx.thorough else 3, len(CALLS), len(CONTEXTS))}
    return {"coverage": cov, "violations": add_histories(viols, cases, n, list), "assumptions": ["smaps rendered like fs/proc/task_mmu.c show_smap(); roll-up = field-wise sums"]}


def replay(ctx, case):
    if isinstance(case, dict) and case.get("part") == "S":
        from vf.checks import c13s
        return c13s.replay_s(ctx, case)
    w, p = mk_world(ctx.seed)
    use_world(w)
    for c in history_of(case):
        c = tuple(c)
        if c[0] == "maps":
            c = (c[0], c[1], c[2], tuple(c[3]), c[4])
        if c[0] == "percent-seq":
            c = (c[0], c[1], tuple(c[2]))
        if c[0] == "deleted-flip":
            c = (c[0], tuple(c[1]))
        if c[0] == "call-order":
            c = (c[0], c[1], tuple(c[2]))
        bad = guarded(run_case, c, (w, p))
    return {"violated": bool(bad), "viols": bad}
