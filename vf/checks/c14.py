"""C14 — open_files(), num_fds() and io_counters() reflect the descriptor table exactly.
I: bounded-exhaustive descriptor tables (kinds x 256 flag words x positions) and
/proc/<pid>/io contents; F: every descriptor closing before each access of the scan
(singles and pairs)."""
import itertools
import os

from vf.explore.deviate import explore, PlanHook, Run
from vf.harness import use_world, outcome, freeze, sample, guarded, add_histories, history_of, LongLived
from vf.simk.world import World, FD

ID = "C14"
LEVEL = "exploration"
ALT_MOUNT = True          # run once more with procfs mounted at /hostproc (vf/child.py)
KINDS = ["reg", "del", "delx", "litdel", "sock", "pipe", "anon", "anon2", "chr", "rel", "dir", "nulreg", "delnul",
         # targets whose stat() fails with something other than ENOENT: a parent component that is a regular file (ENOTDIR) or a
         # symbolic link onto itself (ELOOP), with and without the ' (deleted)' marker
         "notdir", "delnotdir", "loop", "delloop"]
HKINDS = ["f", "d", "c", "-"]     # what a path names at one step of a history: regular file, directory, device node, nothing
FLAGBITS = [os.O_APPEND, os.O_CREAT, os.O_TRUNC, os.O_CLOEXEC, os.O_NONBLOCK, 0o100000]
POS = [0, 1, 2 ** 31 - 1, 2 ** 31, 2 ** 32, 2 ** 63 - 1]
MODES5 = {"r", "w", "a", "r+", "a+"}
ARCH_FLAGS = {
    "mips": {"O_APPEND": 0x8, "O_NONBLOCK": 0x80, "O_CREAT": 0x100, "O_TRUNC": 0x200, "O_EXCL": 0x400, "O_CLOEXEC": 0o2000000},
    "alpha": {"O_APPEND": 0o10, "O_NONBLOCK": 0o4, "O_CREAT": 0o1000, "O_TRUNC": 0o2000, "O_EXCL": 0o4000, "O_CLOEXEC": 0o10000000},
    "sparc": {"O_APPEND": 0x8, "O_NONBLOCK": 0x4000, "O_CREAT": 0x200, "O_TRUNC": 0x400, "O_EXCL": 0x800, "O_CLOEXEC": 0x400000},
}


def target(kind, i):
    return {"reg": "/tmp/f%d" % i, "del": "/tmp/gone%d (deleted)" % i, "delx": "/tmp/f%d (deleted)" % i,
            "litdel": "/tmp/lit%d (deleted)" % i, "sock": "socket:[%d]" % (7000 + i), "pipe": "pipe:[%d]" % (8000 + i),
            "nulreg": "/tmp/f%d\x00 (deleted)" % i, "delnul": "/tmp/gone%d (deleted)\x00new" % i,
            "anon": "anon_inode:[eventpoll]", "anon2": "anon_inode:inotify", "chr": "/dev/null", "rel": "rel/path%d" % i, "dir": "/tmp",
            "notdir": "/tmp/f%d/x" % i, "delnotdir": "/tmp/f%d/x (deleted)" % i, "loop": "/tmp/loop/x%d" % i,
            "delloop": "/tmp/loop/x%d (deleted)" % i, "hist": "/tmp/h%d" % i}[kind]


def mk_world(seed):
    w = World(ncpus=2)
    w.spawn(1, ppid=0, comm=b"init", start=1)
    w.spawn(w.mypid, ppid=1, comm=b"caller", start=50)
    p = w.spawn(6000 + seed % 30, ppid=w.mypid, comm=b"x", start=777)
    for i in range(8):
        w.set_file("/tmp/f%d" % i, b"x")
        w.set_file("/tmp/lit%d (deleted)" % i, b"x")
    w.set_link("/tmp/loop", "/tmp/loop")
    # decoys: regular files in the caller's working directory (the model resolves relative names against "/") named exactly
    # like the relative link targets -- a target that is not an absolute path never names a file of the *subject*
    w.mkdir("/rel")
    for i in range(12):
        w.set_file("/rel/path%d" % i, b"decoy")
        w.set_file("/socket:[%d]" % (7000 + i), b"decoy")
        w.set_file("/pipe:[%d]" % (8000 + i), b"decoy")
    w.set_file("/anon_inode:[eventpoll]", b"decoy")
    w.set_file("/anon_inode:inotify", b"decoy")
    return w, p


def ref_mode(flags):
    acc = flags & 3
    if acc == 3:
        return None        # the statement leaves it open: any of the five, but no failure
    m = {0: "r", 1: "w", 2: "r+"}[acc]
    if flags & os.O_APPEND:
        m = {"r": "r", "w": "a", "r+": "a+"}[m]
    return m


def ref_open_files(w, table):
    """-> (must, may): lists of (path, fd, pos, mode|None, flags)"""
    must, may = [], []
    for fd, (kind, pos, flags) in sorted(table.items()):
        t = target(kind, fd)
        if kind in ("reg", "litdel"):
            must.append((t, fd, pos, ref_mode(flags), flags))
        elif kind == "nulreg":
            # the link text carries NUL garbage (psutil issue 717): what precedes the NUL names an existing regular file
            must.append((t.split("\0")[0], fd, pos, ref_mode(flags), flags))
        elif kind == "delnul":
            # marker and NUL garbage together: an unlinked file -- listed under either spelling, or not at all
            may.append((t.split("\0")[0], fd, pos, ref_mode(flags), flags))
            may.append((t.split("\0")[0][:-10], fd, pos, ref_mode(flags), flags))
        elif kind == "delx":
            # '/tmp/fN (deleted)' does not exist but '/tmp/fN' does: psutil's documented heuristic reports '/tmp/fN'
            may.append((t[:-10], fd, pos, ref_mode(flags), flags))
            may.append((t, fd, pos, ref_mode(flags), flags))
        elif kind == "hist":
            # what the name is NOW (set_hist): listed exactly when it is a regular file
            n = w.nodes.get(t)
            if n is not None and n.kind == "f":
                must.append((t, fd, pos, ref_mode(flags), flags))
        elif kind in ("del", "delnotdir", "delloop"):
            # an unlinked regular file still held open: the statement does not say whether it is listed
            may.append((t, fd, pos, ref_mode(flags), flags))
            may.append((t[:-10], fd, pos, ref_mode(flags), flags))
    return must, may


def matches(entry, got):
    path, fd, pos, mode, flags = entry
    return got["path"] == path and got["fd"] == fd and got["position"] == pos and got["flags"] == flags and \
        (got["mode"] == mode if mode is not None else got["mode"] in MODES5)


def judge_open_files(out, must, may, what):
    if out[0] != "ok":
        return [("open_files-raised:%s:%s" % (out[1], what), "open_files() raised %r" % (out,))]
    got = freeze(out[1])
    bad = []
    rest = list(got)
    for e in must:
        hit = [g for g in rest if matches(e, g)]
        if not hit:
            tag = "mode" if any(g["fd"] == e[1] and g["path"] == e[0] for g in rest) else "missing"
            bad.append(("open_files:%s:%s" % (tag, what), "expected entry %r not in %r" % (e, got)))
        else:
            rest.remove(hit[0])
    for g in rest:
        if not any(matches(e, g) for e in may):
            bad.append(("open_files:extra:%s" % what, "unexpected entry %r (must %r, may %r)" % (g, must, may)))
    return bad


FDINFO_EXTRA = {
    "": b"",
    "flock": b"lock:\t1: FLOCK  ADVISORY  WRITE 4321 08:01:1234 0 EOF\n",
    "posix": b"lock:\t1: POSIX  ADVISORY  READ 4321 08:01:1234 0 99\nlock:\t2: POSIX  ADVISORY  WRITE 4321 08:01:1234 100 EOF\n",
    "eventfd": b"eventfd-count:                0\neventfd-id: 5\n",
    "inotify": b"inotify wd:1 ino:abc sdev:800001 mask:fce ignored_mask:0 fhandle-bytes:8 fhandle-type:1 f_handle:01020304\n",
    "blank": b"\n",
}


def set_table(p, table, extra=b""):
    p.fds = {fd: FD(target(kind, fd), kind, pos, flags, extra) for fd, (kind, pos, flags) in table.items()}


def set_hist(w, fd, hk):
    """the name behind descriptor `fd` of kind 'hist' becomes a regular file / a directory / a device node / nothing"""
    t = target("hist", fd)
    w.remove(t)
    if hk == "f":
        w.set_file(t, b"x")
    elif hk == "d":
        w.mkdir(t)
    elif hk == "c":
        w.set_dev(t, 0x0103)


def _run_case(case, st):
    import psutil
    w, p = st
    k = case[0]
    p.io_raw = None
    pr = LongLived.get(psutil, w, p.pid)
    bad = []
    if k == "table":
        table = {int(fd): tuple(v) for fd, v in case[1].items()}
        set_table(p, table, FDINFO_EXTRA[case[2]] if len(case) > 2 else b"")
        must, may = ref_open_files(w, table)
        what = "accmode3" if any((f & 3) == 3 for _, _, f in table.values()) else "plain"
        bad += judge_open_files(outcome(pr.open_files), must, may, what)
        n = outcome(pr.num_fds)
        if n != ("ok", len(table)):
            bad.append(("num_fds", "num_fds() -> %r, table has %d" % (n, len(table))))
    elif k == "hist":
        # ONE object asked several times while the names behind its descriptors change what they are: every answer follows
        # the table as it is at that moment
        fds = list(range(3, 3 + len(case[1][0])))
        table = {fd: ("hist", 11 * fd, [0o100002, 0o102001][fd % 2]) for fd in fds}
        table[7] = ("reg", 4, 0o100000)
        set_table(p, table)
        try:
            for step, hks in enumerate(case[1]):
                for fd, hk in zip(fds, hks):
                    set_hist(w, fd, hk)
                must, may = ref_open_files(w, table)
                bad += judge_open_files(outcome(pr.open_files), must, may, "history-step%d" % step)
                n = outcome(pr.num_fds)
                if n != ("ok", len(table)):
                    bad.append(("num_fds", "num_fds() -> %r, table has %d" % (n, len(table))))
        finally:
            for fd in fds:
                set_hist(w, fd, "-")
    elif k == "archflags":
        # a Linux port with its own open(2) flag numbering: fdinfo shows THAT port's words, os.O_* are that port's constants
        arch = ARCH_FLAGS[case[1]]
        w.oflags = dict(arch)
        try:
            for acc in (0, 1, 2):
                for names in ((), ("O_APPEND",), ("O_CREAT", "O_EXCL"), ("O_APPEND", "O_NONBLOCK"), ("O_TRUNC", "O_CREAT")):
                    word = acc | 0o100000
                    for nm in names:
                        word |= arch[nm]
                    set_table(p, {3: ("reg", 7, word)})
                    want = {0: "r", 1: "w", 2: "r+"}[acc]
                    if "O_APPEND" in names:
                        want = {"r": "r", "w": "a", "r+": "a+"}[want]
                    got = outcome(pr.open_files)
                    ok = got[0] == "ok" and len(got[1]) == 1 and got[1][0].mode == want and got[1][0].flags == word
                    if not ok:
                        bad.append(("open_files:mode:other-flag-numbering", "%s: flags %#o (%s, access %d): got %r, expected mode %r"
                                    % (case[1], word, "+".join(names) or "-", acc, freeze(got), want)))
        finally:
            w.oflags = None
    elif k == "io":
        p.io_raw = case[1].encode("latin-1")
        got = outcome(pr.io_counters)
        exp = {"read_count": 103, "write_count": 104, "read_bytes": 105, "write_bytes": 106, "read_chars": 101, "write_chars": 102}
        if got[0] != "ok" or {f: getattr(got[1], f) for f in exp} != exp:
            bad.append(("io_counters:%s" % case[2], "io_counters() -> %r for %r" % (freeze(got), case[1])))
    return bad


def run_case(case, st):
    return LongLived.both(_run_case, case, st, repoint=True)


def worker(chunk):
    seed, cases = chunk
    w, p = mk_world(seed)
    use_world(w)
    w.logging = False
    return [guarded(run_case, c, (w, p)) for c in cases]


# ------------------------------------------------------------- F part
F_TABLE = {3: ("reg", 10, 0o100002), 4: ("sock", 0, 2), 5: ("reg", 7, 0o102001), 6: ("pipe", 0, 0), 7: ("litdel", 1, 0o100000)}


def f_run(arg):
    seed, plan = arg
    import psutil
    w, p = mk_world(seed)
    use_world(w)
    set_table(p, F_TABLE)
    pr = psutil.Process(p.pid)
    closed = []

    died = []

    def apply(world, dev, kind, subj, pid):
        if dev == "die":
            # the process itself exits and is reaped at this point of the scan
            if p.pid in world.procs:
                world.vanish(p.pid)
                died.append(True)
            return
        fd = int(dev.split(":")[1])
        if fd in p.fds:
            del p.fds[fd]
            closed.append(fd)
    hook = PlanHook(plan, apply)
    w.hook = hook
    w.logging = False
    out = outcome(pr.open_files)
    w.hook = None
    must, _ = ref_open_files(w, {fd: v for fd, v in F_TABLE.items() if fd not in closed})
    allm, _ = ref_open_files(w, F_TABLE)
    bad = []
    if died:
        # the whole listing (it was complete before the process went) or NoSuchProcess -- never a part of it
        if out[0] == "exc" and out[1] == "NoSuchProcess":
            pass
        elif out[0] != "ok":
            bad.append(("open_files-raised-when-the-process-exits:%s" % out[1], "%r (plan %r)" % (out, plan)))
        else:
            got = freeze(out[1])
            missing = [e[1] for e in allm if not any(matches(e, g) for g in got)]
            if missing or len(got) != len(allm):
                bad.append(("open_files:part-of-the-listing-of-a-process-that-exited-during-the-scan",
                            "process exited during the scan (plan %r): got %r, which lacks fds %r -- neither the listing it had nor NoSuchProcess"
                            % (plan, got, missing)))
        return {"accesses": hook.accesses, "bad": bad}
    if out[0] != "ok":
        bad.append(("open_files-raised-when-fd-closes:%s" % out[1], "open_files() raised %r when fds %r closed during the scan (plan %r)"
                    % (out, closed, plan)))
    else:
        got = freeze(out[1])
        for e in must:
            if not any(matches(e, g) for g in got):
                bad.append(("open_files:lost-open-fd-when-another-closes", "fd %d stayed open but is missing: %r (closed %r)" % (e[1], got, closed)))
        for g in got:
            if not any(matches(e, g) for e in allm):
                bad.append(("open_files:extra-when-fd-closes", "unexpected %r" % (g,)))
    n = outcome(pr.num_fds)
    if n != ("ok", len(p.fds)):
        bad.append(("num_fds-after-close", repr(n)))
    return {"accesses": hook.accesses, "bad": bad}


def f_alts(accesses, i):
    kind, subj, pid = accesses[i]
    if pid is None or not isinstance(subj, str):
        return []
    # an fd may close before any access that inspects it (or any other fd) later
    return ["close:%d" % fd for fd in F_TABLE] + ["die"]


def f_part(ctx, bound):
    base = f_run((ctx.seed, ()))
    plans = [()]
    singles = [((i, d),) for i in range(len(base["accesses"])) for d in f_alts(base["accesses"], i)]
    plans += singles
    if bound >= 2:
        for s in singles:
            r = f_run((ctx.seed, s))
            for j in range(s[0][0] + 1, len(r["accesses"])):
                for d in f_alts(r["accesses"], j):
                    if d != s[0][1]:
                        plans.append(s + ((j, d),))
    res = ctx.pmap(f_run, [(ctx.seed, pl) for pl in plans])
    viols = []
    for pl, r in zip(plans, res):
        for cause, msg in r["bad"]:
            viols.append({"cause": cause, "msg": msg, "case": ["f", [list(x) for x in pl]]})
    return len(plans), viols


def build_cases(thorough):
    cases = []
    # one descriptor of each kind x every flag word x a few positions
    words = []
    for acc in (0, 1, 2, 3):
        for r in range(len(FLAGBITS) + 1):
            for sub in itertools.combinations(FLAGBITS, r):
                f = acc
                for b in sub:
                    f |= b
                words.append(f)
    for f in words:
        cases.append(("table", {"3": ["reg", 5, f]}))
    for kind in KINDS:
        for pos in POS:
            cases.append(("table", {"3": [kind, pos, 0o100002]}))
    for ex in FDINFO_EXTRA:
        if ex:
            cases.append(("table", {"3": ["reg", 5, 0o100002], "4": ["litdel", 9, 0o102001]}, ex))
    nmax = 5 if thorough else 3
    # (the four stat-failure kinds join the tables of up to 2 descriptors (thorough: 3); the larger tables keep the earlier alphabet)
    kinds = KINDS[:13] if thorough else ["reg", "del", "delx", "litdel", "sock", "pipe", "anon2", "chr", "rel", "dir", "nulreg", "delnul"]
    for n in range(0, nmax + 1):
        for combo in itertools.product(KINDS if n <= (3 if thorough else 2) else kinds, repeat=n):
            cases.append(("table", {str(3 + i): [k, 11 * (i + 1), [0o100000, 0o100001, 0o102002, 0o101][i % 4]] for i, k in enumerate(combo)}))
    # histories on one object: one name through every sequence of 1-3 states, two names through every pair of joint states
    for n in (1, 2, 3):
        for seq in itertools.product(HKINDS, repeat=n):
            cases.append(("hist", [[h] for h in seq]))
    for a in itertools.product(HKINDS, repeat=2):
        for b in itertools.product(HKINDS, repeat=2):
            cases.append(("hist", [list(a), list(b)]))
    base = ["rchar: 101", "wchar: 102", "syscr: 103", "syscw: 104", "read_bytes: 105", "write_bytes: 106", "cancelled_write_bytes: 107"]
    for arch_ in ARCH_FLAGS:
        cases.append(("archflags", arch_))
    cases.append(("io", "\n".join(base) + "\n", "plain"))
    extras = {"blank": "", "no-separator": "garbage", "unknown-key": "new_counter: 5", "two-separators": "a: b: c",
              "spaces": "   ",
              # extra lines that merely CONTAIN one of the six names: they are not that counter
              "name-then-two-separators": "rchar: 1: 2", "prefixed-name": "total: write_bytes: 0", "comment-naming-a-counter": "# previous syscr: 1",
              "dotted-name": "blkio.read_bytes: 7", "dashed-name": "net-wchar: 5"}
    for name, line in extras.items():
        for i in range(len(base) + 1):
            ls = base[:i] + [line] + base[i:]
            cases.append(("io", "\n".join(ls) + "\n", name))
    import itertools as it
    for perm in list(it.permutations(base[:6]))[:: (1 if thorough else 24)]:
        cases.append(("io", "\n".join(perm) + "\n", "order"))
    return cases


def run(ctx):
    cases = build_cases(ctx.thorough)
    n = max(1, len(cases) // (ctx.ncpu * 4))
    chunks = [(ctx.seed, cases[i:i + n]) for i in range(0, len(cases), n)]
    res = [r for ch in ctx.pmap_fresh(worker, chunks) for r in ch]
    viols, kinds = [], {}
    for _i, (c, bad) in enumerate(zip(cases, res)):
        kinds[c[0]] = kinds.get(c[0], 0) + 1
        for cause, msg in bad:
            viols.append({"cause": cause, "msg": msg, "case": list(c), "_idx": _i})
    nf, fv = f_part(ctx, 2)
    viols += fv
    cov = {"evaluations": len(cases) + nf, "distinct_nontrivial": len({repr(c) for c in cases}) + nf - 1,
           "rule": "I: one evaluation = one descriptor table / io file rendered by simk and read through open_files()+num_fds() / "
                   "io_counters(); F: one evaluation = one scan of a 5-descriptor table with 0-2 descriptors closing just before "
                   "a chosen access; all cases distinct by construction",
           "per_dimension": kinds, "fd_close_plans": nf, "flag_words": 256, "exhaustive": True,
           "samples": [list(c) for c in sample(cases, 6)]}
    return {"coverage": cov, "violations": add_histories(viols, cases, n, list),
            "assumptions": ["access mode 3: any of the five mode strings is accepted, failing is not",
                            "target 'X (deleted)' where only X exists: psutil's documented heuristic (report X) is accepted, as is omitting it"]}


def replay(ctx, case):
    if not isinstance(case, dict) and case[0] == "f":
        r = f_run((ctx.seed, tuple(tuple(x) for x in case[1])))
        return {"violated": bool(r["bad"]), "viols": r["bad"]}
    w, p = mk_world(ctx.seed)
    use_world(w)
    for c in history_of(case):
        bad = guarded(run_case, tuple(c), (w, p))
    return {"violated": bool(bad), "viols": bad}
