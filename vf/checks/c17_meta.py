"""C17 runs on the sanitised build: clang -fsanitize=address,undefined (see vf/stage.py)."""
SANITIZE = True
