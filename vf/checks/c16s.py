"""C16 (schedule part) — a thread using oneshot()/as_dict() interleaved with
threads calling plain methods on the same object, explored exhaustively up to a
pre-emption bound (explorer S).  Every read of a source produces a new version,
so each returned value names the read that produced it."""
import types

from vf.explore import sched as S
from vf.harness import use_world, outcome, sample
from vf.simk.world import World, Mapping

SRC_OF = {"name": "stat", "cpu_times": "stat", "cpu_num": "stat", "uids": "status", "gids": "status",
          "num_ctx_switches": "status", "ppid": "stat"}


def ver(m, r):
    if m == "name":
        return int(r[1:])
    if m == "cpu_times":
        return int(round(r.user * 100))
    if m == "cpu_num":
        return r
    if m == "uids":
        return r.real - 1000
    if m == "gids":
        return r.real - 2000
    if m == "num_ctx_switches":
        return r.voluntary
    return None


SCENARIOS = {
    # name: list of thread programs; a program is a list of steps
    #   ("block", [methods...])  -> with oneshot(): call each
    #   ("call", m)             -> plain call
    #   ("as_dict", [attrs])
    "blk2-vs-plain": [[("block", ["name", "cpu_times", "uids"]), ("block", ["cpu_times", "uids"])],
                      [("call", "cpu_times"), ("call", "name"), ("call", "uids")]],
    "blk-vs-plain": [[("block", ["name", "cpu_times", "uids"])], [("call", "cpu_times"), ("call", "uids")]],
    "asdict-vs-plain": [[("as_dict", ["name", "cpu_times", "uids"])],
                        [("call", "uids"), ("call", "cpu_times")]],
    "blk-vs-blk": [[("block", ["name", "uids"])], [("block", ["cpu_times", "name"])]],
    "asdict-vs-asdict": [[("as_dict", ["name", "uids"])], [("as_dict", ["cpu_times", "name"])]],
    "blkexc-vs-plain": [[("block_exc", ["name", "cpu_times"]), ("call", "name")], [("call", "cpu_times"), ("call", "name")]],
    "blk-vs-2plain": [[("block", ["name", "cpu_times"])], [("call", "cpu_times")], [("call", "name"), ("call", "cpu_times")]],
}


class Harness:
    def __init__(self, scenario, seed, opcodes=False):
        import psutil
        self.ps = psutil
        self.scn = scenario
        self.pid = 640 + (seed % 11) * 3
        self.opcodes = opcodes
        co = []
        w_ = psutil.Process.cpu_times           # memoize_when_activated wrapper
        co += [w_.__code__, w_.cache_activate.__code__, w_.cache_deactivate.__code__]
        co += [psutil.Process.oneshot.__wrapped__.__code__, psutil.Process.as_dict.__code__,
               psutil._pslinux.Process.oneshot_enter.__code__, psutil._pslinux.Process.oneshot_exit.__code__]
        self.watched = co

    def run(self, prefix):
        ps = self.ps
        sc = S.Sched(prefix, self.watched, self.opcodes)
        w = World(ncpus=2)
        w.spawn(1, ppid=0, comm=b"init", start=1)
        w.spawn(w.mypid, ppid=1, comm=b"caller", start=50)
        p = w.spawn(self.pid, ppid=w.mypid, comm=b"n0", start=900)
        p.rollup = False
        use_world(w)
        v = {"stat": 0, "status": 0}
        ev = []          # event log: (time, kind, thread, ...)
        clock = [0]

        def setv():
            p.comm = b"n%d" % v["stat"]
            p.stat["utime"] = v["stat"]
            p.stat["processor"] = v["stat"]
            p.uids = (1000 + v["status"],) * 4
            p.gids = (2000 + v["status"],) * 4
            p.vctx = v["status"]
        pre = "/proc/%d/" % self.pid

        def hook(world, kind, subj, pid):
            sc.point("access", (kind, str(subj)))
            if kind == "read" and isinstance(subj, str) and subj.startswith(pre):
                tail = subj[len(pre):]
                if tail in v:
                    v[tail] += 1
                    setv()
                    clock[0] += 1
                    ev.append((clock[0], "read", sc.current(), tail, v[tail]))
        # cooperative RLock for Process._lock
        shim = types.SimpleNamespace(RLock=lambda: sc.lock(True, "Process._lock"), Lock=lambda: sc.lock(False, "lock"),
                                     current_thread=__import__("threading").current_thread)
        real_threading = ps.threading
        ps.threading = shim
        try:
            obj = ps.Process(self.pid)
        finally:
            ps.threading = real_threading
        w.hook = hook
        w.logging = False

        def stamp(kind, *a):
            clock[0] += 1
            ev.append((clock[0], kind, sc.current()) + a)

        def mk(prog):
            def body():
                outs = []
                for step in prog:
                    if step[0] == "call":
                        stamp("call_start", step[1])
                        o = outcome(getattr(obj, step[1]))
                        stamp("call_end", step[1], o if o[0] == "exc" else ("ok", ver(step[1], o[1])))
                    elif step[0] == "block":
                        stamp("blk_enter")
                        try:
                            with obj.oneshot():
                                stamp("blk_in")
                                for m in step[1]:
                                    stamp("call_start", m)
                                    o = outcome(getattr(obj, m))
                                    stamp("call_end", m, o if o[0] == "exc" else ("ok", ver(m, o[1])))
                                stamp("blk_out")
                        except BaseException as e:  # noqa: BLE001
                            stamp("blk_exc", repr(e))
                        stamp("blk_exit")
                    elif step[0] == "block_exc":
                        stamp("blk_enter")
                        try:
                            with obj.oneshot():
                                stamp("blk_in")
                                for m in step[1]:
                                    stamp("call_start", m)
                                    o = outcome(getattr(obj, m))
                                    stamp("call_end", m, o if o[0] == "exc" else ("ok", ver(m, o[1])))
                                stamp("blk_out")
                                raise KeyError("leave the block by an exception")
                        except KeyError:
                            pass
                        except BaseException as e:  # noqa: BLE001
                            stamp("blk_exc", repr(e))
                        stamp("blk_exit")
                    elif step[0] == "as_dict":
                        stamp("blk_enter")
                        stamp("call_start", "as_dict")
                        o = outcome(obj.as_dict, attrs=step[1])
                        if o[0] == "ok":
                            o = ("ok", {k: ver(k, x) for k, x in o[1].items()})
                        stamp("call_end", "as_dict", o)
                        stamp("blk_exit")
                return outs
            return body
        for i, prog in enumerate(SCENARIOS[self.scn]):
            sc.add(i, mk(prog))
        with S.coop_locks(sc, ps):
            x = sc.run()
        w.hook = None
        x.events = ev
        return x


def judge(x):
    """-> list of (cause, msg)"""
    out = []
    if x.deadlock:
        out.append(("deadlock", "no enabled thread: %r" % (x.deadlock,)))
        return out
    for t, e in x.errors.items():
        out.append(("thread-raised:%s" % type(e).__name__, "thread %d raised %r" % (t, e)))
    ev = x.events
    # intervals
    blocks = []     # (thread, enter, exit)
    calls = []      # (thread, method, start, end, result, in_block_index or None)
    open_blk, open_call = {}, {}
    reads = []      # (time, thread, src, version, call index)
    for e in ev:
        t, kind, th = e[0], e[1], e[2]
        if kind == "blk_enter":
            open_blk[th] = [t, None, len(blocks)]
            blocks.append([th, t, None])
        elif kind == "blk_exit":
            blocks[open_blk[th][2]][2] = t
            del open_blk[th]
        elif kind == "blk_exc":
            out.append(("block-raised", "oneshot block in thread %s raised %s" % (th, e[3])))
        elif kind == "call_start":
            open_call[th] = len(calls)
            calls.append([th, e[3], t, None, None, open_blk[th][2] if th in open_blk else None])
        elif kind == "call_end":
            c = calls[open_call.pop(th)]
            c[3], c[4] = t, e[4]
        elif kind == "read":
            reads.append((t, th, e[3], e[4], open_call.get(th)))
    read_at = {(r[2], r[3]): r for r in reads}

    def overlaps(b, c):
        return b[1] <= c[3] and (b[2] is None or b[2] >= c[2])
    # per call checks
    for ci, c in enumerate(calls):
        th, m, s, e_, res, bi = c
        if res is None:
            continue
        if res[0] == "exc":
            out.append(("call-raised:%s:%s" % (m, res[1]), "thread %s %s() raised %r" % (th, m, res)))
            continue
        items = res[1].items() if m == "as_dict" else [(m, res[1])]
        for mm, vv in items:
            if vv is None:
                continue
            src = SRC_OF[mm]
            r = read_at.get((src, vv))
            if r is None:
                out.append(("value-from-nowhere:%s" % mm, "%s() returned version %r of %s that no read produced" % (mm, vv, src)))
                continue
            ov = [b for b in blocks if overlaps(b, c)]
            lower = min([s] + [b[1] for b in ov])
            ok = r[0] >= lower and r[0] <= e_
            if not ok and r[4] is not None and r[0] <= e_:
                # the read was performed by another call that itself overlaps a block overlapping c
                c2 = calls[r[4]]
                if c2[5] is not None and any(overlaps(b, c2) for b in ov):
                    ok = True          # (two threads' blocks on ONE object share the cache of the first: its reads count)
            if not ok:
                out.append(("stale-value:%s:%s" % (mm, "plain" if bi is None else "in-block"),
                            "thread %s %s() [%d..%d] returned %s version %d read at time %d by thread %s; blocks overlapping: %r"
                            % (th, mm, s, e_, src, vv, r[0], r[1], ov)))
    # per block (owner thread) consistency and read counts
    for bi, b in enumerate(blocks):
        mine = [c for c in calls if c[5] == bi and c[4] is not None and c[4][0] == "ok"]
        seen = {}
        for c in mine:
            items = c[4][1].items() if c[1] == "as_dict" else [(c[1], c[4][1])]
            for mm, vv in items:
                if vv is None:
                    continue
                src = SRC_OF[mm]
                if src in seen and seen[src] != vv:
                    ra, rb = read_at.get((src, seen[src])), read_at.get((src, vv))
                    foreign = [r for r in (ra, rb) if r is not None and r[1] != b[0]]
                    if foreign:
                        out.append(("block-owner-sees-value-cached-by-concurrent-caller",
                                    "block of thread %s saw %s versions %d then %d: version %d was read (and put into the "
                                    "block's cache) by thread %s's plain call running concurrently"
                                    % (b[0], src, seen[src], vv, foreign[0][3], foreign[0][1])))
                    else:
                        out.append(("block-inconsistent-own-reads:%s" % src, "block of thread %s saw %s versions %d then %d, both read by itself"
                                    % (b[0], src, seen[src], vv)))
                seen.setdefault(src, vv)
        cnt = {}
        for r in reads:
            if r[1] == b[0] and b[1] <= r[0] and (b[2] is None or r[0] <= b[2]):
                cnt[r[2]] = cnt.get(r[2], 0) + 1
        for src, n in cnt.items():
            # ppid() is not used by these programs: every stat read by the owner counts
            if n > 1:
                out.append(("block-owner-read-twice:%s" % src, "thread %s read %s %d times inside one block" % (b[0], src, n)))
    return out


_H = None


def _task(arg):
    scn, seed, opc, bound, prefix = arg
    global _H
    if _H is None or _H.scn != scn or _H.opcodes != opc:
        _H = Harness(scn, seed, opc)
        _H.run([])         # warm-up (see _root_task)
    stats = {}
    viols = []
    outcomes = set()

    def check(x, pfx):
        j = judge(x)
        outcomes.add(tuple(sorted((c[1], str(c[4])) for c in _calls(x))))
        for cause, msg in j:
            viols.append({"cause": cause, "msg": msg, "case": {"part": "S", "scenario": scn, "opcodes": opc,
                                                             "schedule": x.choices()}})
    S.explore(_H.run, bound, prefix, check, stats)
    return stats, viols, len(outcomes)


def _calls(x):
    return [e for e in x.events if e[1] == "call_end"]


def _root_task(arg):
    """default schedule computed inside a worker (after a warm-up run, so that one-off effects of the tracing
    machinery - e.g. per-instruction instrumentation of the watched code objects - are the same for every run)"""
    scn, seed, opc = arg
    global _H
    if _H is None or _H.scn != scn or _H.opcodes != opc:
        _H = Harness(scn, seed, opc)
    _H.run([])
    root = _H.run([])
    return {"choices": root.choices(), "viols": judge(root),
            "points": [(len(p.enabled), p.running_enabled, p.choice) for p in root.points]}


def run_s(ctx):
    bound = 3 if ctx.thorough else 2
    tot = {"executions": 0, "points": 0, "max_points": 0}
    viols, per, distinct = [], {}, 0
    scns = list(SCENARIOS)
    plan = [(scn, False) for scn in scns]
    if ctx.thorough:
        plan += [("blk-vs-plain", True)]          # opcode-level scheduling points, in a pool of its own
    fresh_pool_done = False
    for scn, opc in plan:
        b = bound if not opc else 2
        if not ctx.thorough and scn in ("blk-vs-2plain", "blk2-vs-plain", "asdict-vs-asdict", "blkexc-vs-plain"):
            b = 1
        if ctx.thorough and scn in ("blk-vs-2plain", "blk2-vs-plain", "asdict-vs-asdict"):
            b = 2
        if opc and not fresh_pool_done:
            ctx.close()
            fresh_pool_done = True
        r = ctx.pmap(_root_task, [(scn, ctx.seed, opc)] * 4, chunk=1)[0]
        for cause, msg in r["viols"]:
            viols.append({"cause": cause, "msg": msg, "case": {"part": "S", "scenario": scn, "opcodes": opc, "schedule": r["choices"]}})
        tasks = []
        ch = r["choices"]
        pre = 0
        for i, (nen, run_en, choice) in enumerate(r["points"]):
            if nen >= 2:
                cost = pre + (1 if run_en else 0)
                if cost <= b:
                    for alt in range(1, nen):
                        tasks.append((scn, ctx.seed, opc, b, ch[:i] + [alt]))
            if run_en and choice != 0:
                pre += 1
        res = ctx.pmap(_task, tasks, chunk=1)
        n = 1
        for st, vs, nd in res:
            n += st.get("executions", 0)
            tot["points"] += st.get("points", 0)
            tot["max_points"] = max(tot["max_points"], st.get("max_points", 0))
            viols += vs
            distinct += nd
        tot["executions"] += n
        per["%s%s" % (scn, "+opcodes" if opc else "")] = {"executions": n, "points_in_default_schedule": len(r["points"]), "preemption_bound": b}
    cov = {"executions": tot["executions"], "states": tot["executions"], "transitions": tot["points"],
           "max_points_per_execution": tot["max_points"], "scenarios": per, "preemption_bound": bound,
           "distinct_outcome_vectors": distinct,
           "samples": [{"scenario": s, "programs": SCENARIOS[s]} for s in scns[:2]]}
    return {"coverage": cov, "violations": viols}


def replay_s(ctx, case):
    h = Harness(case["scenario"], ctx.seed, case.get("opcodes", False))
    x = h.run(case["schedule"])
    j = judge(x)
    return {"violated": bool(j), "viols": j, "events": [list(map(str, e)) for e in x.events],
            "points": len(x.points)}
