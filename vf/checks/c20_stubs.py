"""C20 environment: import psutil's *non-Linux* platform layers on Linux.

One interpreter == one platform flavour (the platform flags in psutil._common are
fixed at import).  `setup(flavour, seed)`:

 * puts recording stub modules for `psutil._psutil_<plat>` / `psutil._psutil_posix`
   into sys.modules (upper-case attributes -> distinct ints, `version` -> the
   staged package's version, lower-case attributes -> scripted functions),
 * patches sys.platform / os.name only around `import psutil`,
 * rebinds the module-level names through which the imported platform layer
   reaches the OS (`os`, `time`, `signal`, `subprocess`, `glob`, `pwd`,
   `_psposix.get_terminal_map`) to deterministic fakes owned by `Env`.

Every native call goes through `Env.native()`: it is logged, classified
(process-scoped / system-scoped, probe, identity pre-check) and -- when it is a
process-scoped call of the method under test -- is a *fault point* the
enumerator in c20.py can turn into an OSError.
"""
import copy
import errno
import importlib
import importlib.util
import ntpath
import os as real_os
import posixpath
import re
import signal as real_signal
import socket
import stat as stat_mod
import sys
import types

AF_INET, AF_INET6, AF_UNIX = int(socket.AF_INET), int(socket.AF_INET6), int(socket.AF_UNIX)
SOCK_STREAM, SOCK_DGRAM = int(socket.SOCK_STREAM), int(socket.SOCK_DGRAM)

FLAVOURS = {
    # flavour: sys.platform, os.name, platform module, native module
    "freebsd": ("freebsd13", "posix", "_psbsd", "_psutil_bsd"),
    "openbsd": ("openbsd7", "posix", "_psbsd", "_psutil_bsd"),
    "netbsd": ("netbsd9", "posix", "_psbsd", "_psutil_bsd"),
    "macos": ("darwin", "posix", "_psosx", "_psutil_osx"),
    "sunos": ("sunos5", "posix", "_pssunos", "_psutil_sunos"),
    "aix": ("aix7", "posix", "_psaix", "_psutil_aix"),
    "windows": ("win32", "nt", "_pswindows", "_psutil_windows"),
}
BSDS = ("freebsd", "openbsd", "netbsd")
# native functions that scan a system-wide table and filter it by pid ("those C functions who do not raise NSP", _psbsd.py)
SILENT_FOR_A_DEAD_PID = {"openbsd": ("net_connections", "proc_threads"), "netbsd": ("net_connections", "proc_num_fds")}
PROCFS = ("sunos", "aix")

# native functions that do not exist in that flavour's C extension (the modules
# probe for them with hasattr); from the PyMethodDef tables of _psutil_bsd.c
ABSENT = {
    "freebsd": set(),
    "openbsd": {"proc_num_threads", "proc_net_connections", "cpu_topology", "proc_cpu_affinity_get",
                "proc_cpu_affinity_set", "proc_exe", "proc_getrlimit", "proc_setrlimit",
                "proc_memory_maps", "sensors_battery", "sensors_cpu_temperature"},
    "netbsd": {"proc_net_connections", "cpu_topology", "proc_cpu_affinity_get",
               "proc_cpu_affinity_set", "proc_exe", "proc_getrlimit", "proc_setrlimit",
               "proc_memory_maps", "sensors_battery", "sensors_cpu_temperature", "cpu_freq"},
}
FIXED_CONSTS = {
    # values psutil compares with literals / each other
    "ERROR_ACCESS_DENIED": 5, "ERROR_PRIVILEGE_NOT_HELD": 1314,
    "ERROR_INVALID_NAME": 123, "ERROR_SERVICE_DOES_NOT_EXIST": 1060,
    "WINDOWS_VISTA": 0x0600, "WINDOWS_7": 0x0601, "WINDOWS_8": 0x0602, "WINDOWS_8_1": 0x0603,
    "WINDOWS_10": 0x0A00, "INFINITE": 0xFFFFFFFF, "PSUTIL_CONN_NONE": 128,
    "AF_LINK": 118,   # not a valid Linux socket.AddressFamily value -> front end's except branch
}
FREEBSD_RLIMS = ["RLIM_INFINITY", "RLIMIT_AS", "RLIMIT_CORE", "RLIMIT_CPU", "RLIMIT_DATA", "RLIMIT_FSIZE",
                 "RLIMIT_MEMLOCK", "RLIMIT_NOFILE", "RLIMIT_NPROC", "RLIMIT_RSS", "RLIMIT_STACK",
                 "RLIMIT_SWAP", "RLIMIT_SBSIZE", "RLIMIT_NPTS"]
# native names that are about the whole system even when handed a pid
SYSTEM_FNS = {"check_pid_range", "pid_exists", "set_debug"}


class Injected(Exception):
    pass


def make_oserror(spec):
    """spec: ['errno', 'ESRCH'] or ['win', 5].  Builds the exception CPython would
    build: the errno picks the OSError subclass; under the windows flavour every
    OSError also carries .winerror (None when the failure has no Windows code)."""
    kind, code = spec
    if kind == "errno":
        no = getattr(errno, code)
        e = OSError(no, real_os.strerror(no))
        e.winerror = None
    else:
        # PC/errmap.h: ERROR_ACCESS_DENIED -> EACCES; codes without a mapping -> EINVAL
        no = {5: errno.EACCES}.get(code, errno.EINVAL)
        e = OSError(no, "[WinError %d]" % code)
        e.winerror = code
    e._c20_injected = True
    return e


class Native(types.ModuleType):
    """stub for psutil._psutil_<plat> / psutil._psutil_posix"""

    def __init__(self, name, env, short):
        super().__init__(name)
        self.__dict__["_env"] = env
        self.__dict__["_short"] = short
        self.__dict__["__file__"] = "<c20 stub %s>" % name

    def __dir__(self):
        env = self.__dict__["_env"]
        if self.__dict__["_short"] == "posix" and env.fl == "freebsd":
            return FREEBSD_RLIMS + ["AF_LINK", "getpagesize"]
        return ["version"]

    def __getattr__(self, name):
        env = self.__dict__["_env"]
        short = self.__dict__["_short"]
        if name.startswith("__"):
            raise AttributeError(name)
        if name == "version":
            return env.version
        if name in ABSENT.get(env.fl, ()):
            raise AttributeError(name)
        if name in ("TimeoutExpired", "TimeoutAbandoned"):
            return env.exc_class(name)
        if name == "WINVER":
            return 0x0A00 if env.winver == "new" else 0x0601
        if name.startswith("RLIM") and not (env.fl == "freebsd" and name in FREEBSD_RLIMS):
            raise AttributeError(name)
        if name.upper() == name and re.match(r"^[A-Z][A-Z0-9_]*$", name):
            return env.const(name)
        return NativeFn(env, short, name)


class NativeFn:
    def __init__(self, env, short, name):
        self.env, self.short, self.name = env, short, name
        self.__name__ = name

    def __call__(self, *a, **k):
        return self.env.native(self.name, a, k)

    def __repr__(self):
        return "<native %s.%s>" % (self.short, self.name)


class FakePath:
    def __init__(self, env, mod):
        self._env, self._mod = env, mod

    def __getattr__(self, n):
        return getattr(self._mod, n)

    # os.path.exists/islink/isfile never raise OSError: they are answers, not fault points
    def exists(self, p):
        return self._env.fs("exists", p)

    def islink(self, p):
        return self._env.fs("islink", p)

    def isfile(self, p):
        return self._env.fs("isfile", p)

    def isdir(self, p):
        return self._env.fs("isdir", p)


class FakeOS:
    """what the platform layers see as `os`"""

    def __init__(self, env, pathmod):
        self._env = env
        self.path = FakePath(env, pathmod)
        self.sep = pathmod.sep
        self.environ = {"PATH": "/fake/bin"}
        self.name = "nt" if env.fl == "windows" else "posix"

    def __getattr__(self, n):
        return getattr(real_os, n)

    def getpid(self):
        return self._env.pid

    def sysconf(self, name):
        return {"SC_NPROCESSORS_ONLN": 2, "SC_PHYS_PAGES": 1 << 20, "SC_AVPHYS_PAGES": 1 << 19}.get(name, 1)

    def kill(self, pid, sig):
        return self._env.native("os.kill", (pid, sig), {})

    def waitpid(self, pid, flags):
        return self._env.native("os.waitpid", (pid, flags), {})

    def readlink(self, p):
        return self._env.fs("readlink", p)

    def listdir(self, p):
        return self._env.fs("listdir", p)

    def stat(self, p):
        return self._env.fs("stat", p)

    def access(self, p, mode):
        return self._env.fs("isfile", p)


class FakeTime:
    def __init__(self):
        self.now = 1000.0

    def monotonic(self):
        self.now += 0.001
        return self.now

    time = monotonic

    def sleep(self, s):
        self.now += s


class FakeSignal:
    CTRL_C_EVENT = 0
    CTRL_BREAK_EVENT = 1

    def __getattr__(self, n):
        return getattr(real_signal, n)


class FakePwd:
    @staticmethod
    def getpwuid(uid):
        raise KeyError(uid)


class FakePopen:
    """pfiles (SunOS) / procfiles (AIX): helpers, not native calls -> scripted, never faulted"""

    def __init__(self, env, cmd, **kw):
        self.env, self.cmd = env, list(cmd)
        self.returncode = 0

    def communicate(self):
        self.env.log("subprocess:" + real_os.path.basename(self.cmd[0]), scoped=False)
        if self.cmd[0] == "pfiles":
            out = ("%s:\tprog\n  Current rlimit: 256 file descriptors\n"
                   "   3: S_IFSOCK mode:0666 dev:1,1 ino:1 uid:0 gid:0 size:0\n"
                   "      O_RDWR\n\tSOCK_STREAM\n\tSO_SNDBUF(16384),SO_RCVBUF(5120)\n"
                   "\tsockname: AF_UNIX /fake/sock\n" % self.cmd[1])
            return out.encode(), b""
        if self.cmd[0].endswith("procfiles"):
            # the parser's regex wants "<fd>: S_IFREG ... name:<path>" on one line
            out = ("%s : /fake/bin/prog\n  Current rlimit: 2000 file descriptors\n"
                   "   0: S_IFCHR mode:0622 dev:10,4 ino:1 uid:0 gid:0 rdev:21,7 O_RDWR name:/dev/pts/7\n"
                   "   3: S_IFREG mode:0644 dev:10,4 ino:7 uid:0 gid:0 rdev:0,0 O_RDONLY size:5 name://fake/f1\n"
                   "   4: S_IFREG mode:0644 dev:10,4 ino:8 uid:0 gid:0 rdev:0,0 O_RDONLY size:5 name:Cannot be retrieved\n"
                   % self.cmd[2])
            return out.encode(), b""
        return b"", b""


class FakeSubprocess:
    PIPE = -1

    def __init__(self, env):
        self._env = env

    def Popen(self, cmd, **kw):
        return FakePopen(self._env, cmd, **kw)


class FakeGlob:
    @staticmethod
    def glob(pat, **kw):
        if pat == "/dev/**/*":
            return ["/dev/null", "/dev/pts/7"]
        return []


def seq(base, n):
    return [base + i for i in range(n)]


class Env:
    def __init__(self, flavour, seed=0):
        self.fl = flavour
        self.plat, self.osname, self.modname, self.cextname = FLAVOURS[flavour]
        self.k = (seed % 5) * 7          # rotates don't-care constants only
        self.norm_pid = 4242 + self.k
        self.pid = self.norm_pid
        self.consts = {}
        self._exc = {}
        self.version = None
        self.psutil = self.mod = self.cext = self.cext_posix = None
        self.D = {}
        self.time = FakeTime()
        self.scenario()

    # ------------------------------------------------------------ constants
    def const(self, name):
        if name in FIXED_CONSTS:
            return FIXED_CONSTS[name]
        if name not in self.consts:
            self.consts[name] = 9001 + len(self.consts)
        return self.consts[name]

    def exc_class(self, name):
        if name not in self._exc:
            self._exc[name] = type(name, (Exception,), {})
        return self._exc[name]

    @property
    def zombie_const(self):
        # OpenBSD lists zombies with SDEAD (see the comment in _psbsd.PROC_STATUSES)
        return self.const("SDEAD" if self.fl == "openbsd" else "SZOMB")

    # ------------------------------------------------------------ scenario
    def scenario(self, pid=None, mode="alive", listed0=True, plan=None, sticky=None,
                 winver="new", over=None):
        self.pid = self.norm_pid if pid is None else pid
        self.mode = mode            # what the zombie / existence probe answers
        self.listed0 = listed0
        self.plan = dict(plan or {})    # fault-point index -> fault spec
        self.sticky = sticky            # (first index, fault spec): repeat on the same fn
        self.winver = winver
        self.over = dict(over or {})    # native name -> replacement default
        self.in_probe = 0
        self.in_ident = 0
        self.dead = False
        self.waited = False
        self.calls = []
        self.points = []            # fault points (process-scoped calls of the method itself)
        self.fired = []
        self.recording = False
        self._sticky_fn = None
        self.time.now = 1000.0

    def begin(self):
        self.calls, self.points, self.fired = [], [], []
        self._sticky_fn = None
        self.recording = True

    def end(self):
        self.recording = False

    def log(self, fn, scoped, point=None):
        if self.recording:
            self.calls.append({"fn": fn, "scoped": scoped, "probe": bool(self.in_probe),
                               "ident": bool(self.in_ident), "point": point})

    # ------------------------------------------------------------ native calls
    def native(self, fn, a, k):
        scoped = bool(a) and a[0] == self.pid and type(a[0]) is int and fn not in SYSTEM_FNS
        if self.in_probe:
            self.log(fn, scoped)
            return self.probe_answer(fn, a, k)
        point = None
        if scoped and self.recording and not self.in_ident:
            point = len(self.points)
            self.points.append(fn)
        self.log(fn, scoped, point)
        if point is not None and self.mode.startswith("dies@") and not self.dead and point >= int(self.mode[5:]):
            self.dead = True          # the process exits and is reaped just before this native call, and stays gone
            self.mode = "gone"        # (what the probes answer from now on)
        if scoped and getattr(self, "dead", False):
            if fn in SILENT_FOR_A_DEAD_PID.get(self.fl, ()):
                # system-wide tables filtered by pid: nothing matches any more, and nothing fails
                v = self.default(fn, a, k)
                return type(v)() if isinstance(v, (list, tuple)) else 0
            e = make_oserror(["errno", "ESRCH"])
            raise e
        if point is not None:
            fault = self.plan.get(point)
            if fault is None and self.sticky is not None:
                first, sf = self.sticky
                if point == first:
                    self._sticky_fn = fn
                if point >= first and fn == self._sticky_fn:
                    fault = sf
            if fault is not None:
                self.fired.append([point, fn, fault])
                raise make_oserror(fault)
        return self.default(fn, a, k)

    def default(self, fn, a, k):
        if fn in self.over:
            v = self.over[fn]
        elif fn in self.D:
            v = self.D[fn]
        else:
            raise AssertionError("c20 stub: no default for native %s%r under %s" % (fn, a, self.fl))
        if callable(v):
            v = v(*a, **k)
        return copy.deepcopy(v)

    def probe_answer(self, fn, a, k):
        """answers given to is_zombie()/pid_exists()/pids() -- the 'is it still listed' probe"""
        if fn in ("proc_oneshot_info", "proc_kinfo_oneshot"):
            if self.mode == "gone":
                raise make_oserror(["errno", "ESRCH"])
            if self.mode.startswith("probe-"):
                raise make_oserror(["errno", self.mode[6:]])
            rec = list(self.default(fn, a, k))
            if self.mode == "zombie":
                rec[self.mod.kinfo_proc_map["status"]] = self.zombie_const
            return tuple(rec)
        if fn == "os.kill":
            if self.mode == "gone" or self.mode.startswith("probe-"):
                raise make_oserror(["errno", "ESRCH"])
            return None
        return self.default(fn, a, k)

    def listed_pids(self):
        ls = [1, 77]
        if self.listed0:
            ls.insert(0, 0)
        if self.pid != 0 and not (self.in_probe and self.mode == "gone"):
            ls.append(self.pid)
        return ls

    # ------------------------------------------------------------ fake file system
    def fs(self, op, p):
        isbytes = isinstance(p, bytes)
        s = p.decode() if isbytes else p
        procfs = "/proc"
        if s == procfs and op == "listdir":
            self.log("os.listdir:/proc", False)
            out = [str(x) for x in self.listed_pids()] + ["self"]
            return [x.encode() for x in out] if isbytes else out
        m = re.match(r"^/proc/(\d+)(?:/(.*))?$", s)
        if m and int(m.group(1)) == self.pid:
            suffix = m.group(2) or ""
            if op in ("exists", "islink", "isfile", "isdir"):
                self.log("os.path.%s:%s" % (op, suffix), False)
                if self.in_probe and self.mode == "gone":
                    return False
                ent = self.D["fs"].get(suffix)
                if op == "exists":
                    return ent is not None
                if op == "islink":
                    return ent is not None and ent[0] == "link"
                if op == "isdir":
                    return ent is not None and ent[0] == "dir"
                return ent is not None and ent[0] == "file"
            if op == "stat" and suffix == "" and self.mode == "gone" and getattr(self, "fired", None):
                # "is it still there?" asked by stat()ing the process directory itself (e.g. _pssunos._assert_alive) after the
                # failure that announced the process's death
                self.log("os.stat:", False)
                raise OSError(errno.ENOENT, "No such file or directory", s)
            return self.native("os.%s:%s" % (op, suffix), (self.pid, suffix), {})
        # everything else: a fixed fake tree, never the real machine's
        self.log("os.%s:%s" % (op, s), False)
        kind = None
        if s.startswith(("/fake/", "C:\\fake\\")) and not s.endswith(("cwd", "home", "bin")):
            kind = "file"
        elif s in ("/dev/null", "/dev/pts/7", "/dev/pts/5"):
            kind = "chr"
        if op == "exists":
            return kind is not None
        if op == "isfile":
            return kind == "file"
        if op in ("islink", "isdir"):
            return False
        if op == "stat":
            if kind is None:
                raise OSError(errno.ENOENT, "No such file or directory", s)
            if kind == "file":
                return types.SimpleNamespace(st_mode=stat_mod.S_IFREG | 0o755, st_rdev=0)
            return types.SimpleNamespace(st_mode=stat_mod.S_IFCHR | 0o620,
                                         st_rdev=self.D.get("rdev", {}).get(s, 0))
        raise OSError(errno.ENOENT, "No such file or directory", s)

    def fs_default(self, op):
        def f(pid, suffix):
            ent = self.D["fs"].get(suffix)
            if ent is None:
                raise OSError(errno.ENOENT, "No such file or directory", "/proc/%s/%s" % (pid, suffix))
            kind, val = ent
            if op == "readlink":
                if kind != "link":
                    raise OSError(errno.EINVAL, "Invalid argument")
                return val
            if op == "listdir":
                if kind != "dir":
                    raise OSError(errno.ENOTDIR, "Not a directory")
                return list(val)
            if op == "stat":
                mode = {"dir": stat_mod.S_IFDIR | 0o555, "link": stat_mod.S_IFLNK | 0o777}.get(kind, stat_mod.S_IFREG | 0o444)
                return types.SimpleNamespace(st_mode=mode, st_rdev=0)
            raise AssertionError(op)
        return f


# ---------------------------------------------------------------- default records
def conn_rows(env, C, est, with_pid):
    rows = [
        (2601, AF_INET, SOCK_STREAM, ("10.0.0.1", 2611), ("10.0.0.2", 2612), C(est)),
        (2602, AF_INET6, SOCK_DGRAM, ("::1", 2613), (), C("PSUTIL_CONN_NONE")),
        (2603, AF_INET, SOCK_STREAM, ("0.0.0.0", 2614), (), C("TCPS_LISTEN" if est.startswith("TCPS") else "MIB_TCP_STATE_LISTEN")),
    ]
    if env.fl != "sunos" and env.fl != "windows":
        rows.append((2604, AF_UNIX, SOCK_STREAM, "/fake/sock", "", C("PSUTIL_CONN_NONE")))
    if with_pid:
        rows = [r + (env.pid,) for r in rows]
    return rows


def filt(rows, fams, types_):
    return [r for r in rows if r[1] in fams and r[2] in types_]


def build_defaults(env):
    C = env.const
    fl = env.fl
    k = env.k
    D = {
        "check_pid_range": None, "set_debug": None,
        "getpagesize": 4096,
        "getpriority": 7, "setpriority": None,
        "pids": env.listed_pids,
        "cpu_count_logical": 2, "cpu_count_cores": 2,
        "os.kill": None,
        "os.waitpid": lambda pid, flags: (pid, 3 << 8),     # exited with status 3
        "net_if_addrs": [],
        "fs": {},
        "ttymap": {},
    }
    if fl in BSDS:
        R = seq(1100 + k, 25)
        R[1] = C("SSLEEP")
        R[24] = "bsdproc"
        D.update({
            "proc_oneshot_info": tuple(R),
            "proc_name": "bsdproc-byname",
            "proc_exe": "/fake/bin/prog",
            "proc_cmdline": ["/fake/bin/prog", "-a", "b c"],
            "proc_environ": {"HOME": "/fake/home", "K": "v=1"},
            "proc_threads": [(2101, 2102, 2103), (2111, 2112, 2113)],
            "proc_num_threads": 2201,
            "proc_cwd": "/fake/cwd",
            "proc_open_files": [("/fake/f1", 2301), ("/fake/f2", 2302)],
            "proc_num_fds": 2401,
            "proc_cpu_affinity_get": [1, 0],
            "proc_cpu_affinity_set": None,
            "proc_memory_maps": [("0x1000-0x2000", "r-x", "/fake/lib/a.so", 2501, 2502, 2503, 2504),
                                 ("0x3000-0x4000", "rw-", "[heap]", 2511, 2512, 2513, 2514),
                                 ("0x5000-0x6000", "r--", "/fake/lib/a.so", 2521, 2522, 2523, 2524)],
            "proc_getrlimit": (2701, 2702), "proc_setrlimit": None,
            "per_cpu_times": [tuple(seq(2801, 5)), tuple(seq(2811, 5))],
            "cpu_times": tuple(seq(2821, 5)),
            "fs": {"": ("dir", ["exe"]), "exe": ("link", "/fake/bin/prog")},
        })
        rows = conn_rows(env, C, "TCPS_ESTABLISHED", fl != "freebsd")
        if fl == "freebsd":
            D["proc_net_connections"] = lambda pid, fams, types_: rows    # python filters
        elif fl == "openbsd":
            D["net_connections"] = lambda pid, fams, types_: filt(rows, fams, types_)
        else:
            D["net_connections"] = lambda pid, kind: filt(rows, *env.psutil._common.conn_tmap[kind])
        D["ttymap"] = {v: "/dev/wrong-%s" % i for i, v in enumerate(R) if isinstance(v, int)}
        D["ttymap"][R[8]] = "/dev/ttyv-ok"
    elif fl == "macos":
        R = seq(1200 + k, 11)
        R[9] = C("SRUN")
        R[10] = "osxproc"
        D.update({
            "proc_kinfo_oneshot": tuple(R),
            "proc_pidtaskinfo_oneshot": tuple(seq(1300 + k, 8)),
            "proc_name": "osxproc-byname",
            "proc_exe": "/fake/bin/prog",
            "proc_cmdline": ["/fake/bin/prog", "-a", "b c"],
            "proc_environ": "HOME=/fake/home\0K=v=1\0\0",
            "proc_cwd": "/fake/cwd",
            "proc_memory_uss": 1401,
            "proc_open_files": [("/fake/f1", 2301), ("/dev/null", 2302), ("/fake/f2", 2303)],
            "proc_num_fds": 2401,
            "proc_threads": [(2101, 2102, 2103), (2111, 2112, 2113)],
            "per_cpu_times": [tuple(seq(2801, 4)), tuple(seq(2811, 4))],
            "cpu_times": tuple(seq(2821, 4)),
        })
        rows = conn_rows(env, C, "TCPS_ESTABLISHED", False)
        D["proc_net_connections"] = lambda pid, fams, types_: filt(rows, fams, types_)
        D["ttymap"] = {v: "/dev/wrong-%s" % i for i, v in enumerate(R) if isinstance(v, int)}
        D["ttymap"][R[7]] = "/dev/ttyv-ok"
    elif fl == "sunos":
        R = seq(1500 + k, 12)
        R[6] = C("SSLEEP")
        D.update({
            "proc_name_and_args": ("sunproc", "/fake/bin/prog -a b"),
            "proc_basic_info": tuple(R),
            "proc_cred": tuple(seq(1600 + k, 6)),
            "proc_environ": {"HOME": "/fake/home", "K": "v=1"},
            "proc_cpu_times": (1701.5, 1702.5, 1703.5, 1704.5),
            "proc_cpu_num": 1801,
            "query_process_thread": lambda pid, tid, procfs: (tid * 10 + 1, tid * 10 + 2),
            "proc_memory_maps": [(0x1000, 0x2000, "r-x", "a.out", 1901, 1902, 1903),
                                 (0x3000, 0x4000, "rw-", "[heap]", 1911, 1912, 1913)],
            "proc_num_ctx_switches": (2001, 2002),
            "per_cpu_times": [tuple(seq(2801, 4)), tuple(seq(2811, 4))],
            "fs": {"": ("dir", ["psinfo", "path", "fd", "lwp"]), "psinfo": ("file", None),
                   "path/a.out": ("link", "/fake/bin/prog"), "path/cwd": ("link", "/fake/cwd"),
                   "path/0": ("link", "/dev/pts/5"), "path/1": ("link", "/dev/pts/5"),
                   "path/2": ("link", "/dev/pts/5"), "path/255": ("link", "/dev/pts/5"),
                   "path/3": ("link", "/fake/f1"), "path/4": ("link", "/fake/f2"),
                   "fd": ("dir", ["0", "3", "4"]), "lwp": ("dir", ["1", "2"])},
        })
        rows = conn_rows(env, C, "TCPS_ESTABLISHED", True)
        D["net_connections"] = lambda pid: rows
    elif fl == "aix":
        R = seq(2100 + k, 8)
        R[6] = C("SACTIVE")
        R[7] = (1 << 63) | (0x21 << 32) | 0x0007       # a 64-bit AIX dev_t carries a flag in bit 63
        D.update({
            "proc_basic_info": tuple(R),
            "proc_cred": tuple(seq(1600 + k, 6)),
            "proc_name": "aixproc\x00\x00",
            "proc_args": ["/fake/bin/prog", "-a"],
            "proc_environ": {"HOME": "/fake/home", "K": "v=1"},
            "proc_threads": [(2101, 2102, 2103), (2111, 2112, 2113)],
            "proc_cpu_times": (1701.5, 1702.5, 1703.5, 1704.5),
            "proc_num_ctx_switches": (2001, 2002),
            "proc_io_counters": (2011, 2012, 2013, 2014),
            "per_cpu_times": [tuple(seq(2801, 4)), tuple(seq(2811, 4))],
            "fs": {"": ("dir", ["psinfo", "cwd", "fd"]), "psinfo": ("file", None),
                   "cwd": ("link", "/fake/cwd/"), "fd": ("dir", ["0", "1", "2"])},
            "rdev": {"/dev/pts/7": (0x21 << 16) | 0x0007, "/dev/null": 2107 + k},
        })
        rows = conn_rows(env, C, "TCPS_ESTABLISHED", True)
        D["net_connections"] = lambda pid: rows
    elif fl == "windows":
        dev = "\\Device\\HarddiskVolume1"
        rows = conn_rows(env, C, "MIB_TCP_STATE_ESTAB", True)
        D.update({
            "proc_info": tuple(seq(3000 + k, 22)),
            "proc_exe": dev + "\\fake\\prog.exe",
            "QueryDosDevice": lambda raw: {dev: "C:"}.get(raw, "Z:"),
            "proc_cmdline": lambda pid, use_peb=True: ["C:\\fake\\prog.exe", "/x"],
            "proc_environ": "Path=C:\\fake\0k=v=1\0\0",
            "ppid_map": lambda: {env.pid: 3101, 3101: 4, 4: 0, 0: 0},
            "proc_memory_info": tuple(seq(3200 + k, 10)),
            "proc_memory_uss": 3301,
            "proc_memory_maps": [(0x10000, "r", dev + "\\fake\\a.dll", 3401),
                                 (0x20000, "rw", dev + "\\fake\\b.dll", 3402),
                                 (0x30000, "rx", dev + "\\fake\\a.dll", 3403)],
            "proc_kill": None,
            "proc_wait": lambda pid, t: (setattr(env, "waited", True), 3501)[1],
            "pid_exists": lambda pid: not env.waited and not (env.in_probe and env.mode == "gone"),
            "proc_username": ("DOM", "usr"),
            "proc_times": (3601.5, 3602.5, 3603.5),
            "proc_threads": [(2101, 2102, 2103), (2111, 2112, 2113)],
            "proc_suspend_or_resume": None,
            "proc_cwd": "C:\\fake\\cwd\\",
            "proc_open_files": [dev + "\\fake\\f1", dev + "\\fake\\f2", dev + "\\nofile"],
            "net_connections": lambda pid, fams, types_: filt(rows, fams, types_),
            "proc_priority_get": C("HIGH_PRIORITY_CLASS"), "proc_priority_set": None,
            "proc_io_priority_get": 1, "proc_io_priority_set": None,
            "proc_io_counters": tuple(seq(3700 + k, 6)),
            "proc_is_suspended": False,
            "proc_cpu_affinity_get": 0b101, "proc_cpu_affinity_set": None,
            "per_cpu_times": [tuple(seq(2801, 5)), tuple(seq(2811, 5)), tuple(seq(2821, 5))],
            "cpu_times": tuple(seq(2831, 3)),
            "proc_num_handles": 3801,
        })
    D["os.readlink"] = env.fs_default("readlink")
    D["os.listdir"] = env.fs_default("listdir")
    D["os.stat"] = env.fs_default("stat")
    return D


class _FsDefaults(dict):
    """os.<op>:<suffix> names resolve to the generic per-op default"""

    def __contains__(self, k):
        return dict.__contains__(self, k) or (isinstance(k, str) and k.split(":")[0] in ("os.readlink", "os.listdir", "os.stat"))

    def __getitem__(self, k):
        if dict.__contains__(self, k):
            return dict.__getitem__(self, k)
        return dict.__getitem__(self, k.split(":")[0])


def staged_version():
    spec = importlib.util.find_spec("psutil")
    with open(spec.origin) as f:
        m = re.search(r'__version__ = "([\d.]+)"', f.read())
    return int(m.group(1).replace(".", ""))


def _probe_wrap(env, fn):
    def w(*a, **k):
        env.in_probe += 1
        try:
            return fn(*a, **k)
        finally:
            env.in_probe -= 1
    w.__wrapped__ = fn
    w.__name__ = getattr(fn, "__name__", "probe")
    return w


def _ident_wrap(env, fn):
    def w(self, *a, **k):
        env.in_ident += 1
        try:
            return fn(self, *a, **k)
        finally:
            env.in_ident -= 1
    w.__name__ = fn.__name__
    return w


def setup(flavour, seed=0):
    """import psutil as `flavour`; returns the Env (env.psutil, env.mod = platform module)"""
    assert "psutil" not in sys.modules, "one flavour per interpreter"
    env = Env(flavour, seed)
    env.version = staged_version()
    env.cext = Native("psutil." + env.cextname, env, "cext")
    env.cext_posix = Native("psutil._psutil_posix", env, "posix")
    sys.modules["psutil." + env.cextname] = env.cext
    sys.modules["psutil._psutil_posix"] = env.cext_posix
    env.D = _FsDefaults(build_defaults(env))
    saved = (sys.platform, real_os.name)
    sys.platform, real_os.name = env.plat, env.osname
    try:
        psutil = importlib.import_module("psutil")
    finally:
        sys.platform, real_os.name = saved
    stage = real_os.environ.get("VF_STAGE")
    if stage:
        assert real_os.path.realpath(psutil.__file__).startswith(real_os.path.realpath(stage)), psutil.__file__
    env.psutil = psutil
    env.mod = sys.modules["psutil." + env.modname]
    assert psutil._psplatform is env.mod
    # the defaults may mention constants first touched at import: rebuild now that all exist
    env.D = _FsDefaults(build_defaults(env))
    pathmod = ntpath if flavour == "windows" else posixpath
    fos = FakeOS(env, pathmod)
    env.fos = fos
    mods = [psutil, env.mod, psutil._common]
    if flavour != "windows":
        mods.append(sys.modules["psutil._psposix"])
    for m in mods:
        if hasattr(m, "os"):
            m.os = fos
    if hasattr(env.mod, "time"):
        env.mod.time = env.time
    if hasattr(env.mod, "signal"):
        env.mod.signal = FakeSignal()
    if hasattr(env.mod, "subprocess"):
        env.mod.subprocess = FakeSubprocess(env)
    if hasattr(env.mod, "glob"):
        env.mod.glob = FakeGlob()
    psutil.pwd = FakePwd()
    psutil._TOTAL_PHYMEM = 1 << 30
    if flavour != "windows":
        psposix = sys.modules["psutil._psposix"]
        psposix.get_terminal_map = lambda: dict(env.D["ttymap"])
    # probes: "is it still listed / a zombie" questions, answered by env.mode
    for nm in ("is_zombie", "pid_exists", "pids"):
        f = getattr(env.mod, nm, None)
        if f is not None and not isinstance(f, NativeFn):
            setattr(env.mod, nm, _probe_wrap(env, f))
    if flavour != "windows":
        # _psposix.wait_pid polls this bound default after ECHILD
        psposix = sys.modules["psutil._psposix"]
        wp = psposix.wait_pid
        d = list(wp.__defaults__)
        d[-1] = _probe_wrap(env, d[-1])
        wp.__defaults__ = tuple(d)
    # identity pre-checks of the front end (C01's business, not the platform layer's)
    for nm in ("_raise_if_pid_reused", "is_running"):
        setattr(psutil.Process, nm, _ident_wrap(env, getattr(psutil.Process, nm)))
    return env


def reset_caches(env):
    m = env.mod
    for nm in ("_pid_0_exists", "convert_dos_path", "getpagesize"):
        f = getattr(m, nm, None)
        if f is not None and hasattr(f, "cache_clear"):
            f.cache_clear()
    if hasattr(m, "_last_btime"):
        m._last_btime = 0
    env.psutil._pmap.clear()
    env.psutil._pids_reused.clear()
    env.psutil._LOWEST_PID = None
