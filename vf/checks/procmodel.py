"""Process-lifetime history model shared by C01 and C02 (explorer H).

Kernel events:  spawn X | exit X (-> zombie) | reap X | die X (exit+reap) |
                tick100 | step+ / step- (wall clock stepped: published btime +-1 s)
User events:    new X | is_running i | q i name|ppid | iter | boot_time |
                create_time i | act i <action>          (i = index of a held object)
Every event is executed on the real psutil code inside simk.  The reference
identity of a process is (pid, incarnation uid) kept by simk.
"""
from vf.harness import use_world, outcome, freeze, residue, ModuleResidue
from vf.simk.world import World, CLK_TCK

ACTIONS = ["kill", "nice5", "rlimit", "aff0", "ionice", "sig0", "affall", "terminate", "suspend", "resume",
           "sig64", "sig65"]


def do_action(psutil, o, a):
    if a == "kill":
        return o.kill()
    if a == "terminate":
        return o.terminate()
    if a == "suspend":
        return o.suspend()
    if a == "resume":
        return o.resume()
    if a == "sig64":
        return o.send_signal(64)
    if a == "sig0":
        return o.send_signal(0)
    if a == "sig65":
        return o.send_signal(65)          # not a signal number: the kernel answers EINVAL whatever the pid
    if a == "nice5":
        return o.nice(5)
    if a == "ionice":
        return o.ionice(psutil.IOPRIO_CLASS_BE, 3)
    if a == "rlimit":
        return o.rlimit(psutil.RLIMIT_NOFILE, (7, 9))
    if a == "aff0":
        return o.cpu_affinity([0])
    if a == "affall":
        return o.cpu_affinity([])
    raise AssertionError(a)


# events that only ask: whatever the circumstances (permission faults included) they cannot change which held objects are
# equal, nor any hash
PURE = ("q", "create_time", "boot_time", "is_running", "os_enter", "os_exit", "iter", "sys", "wait")
# other system-wide functions that read the same kernel tables as the identity code (/proc/stat ...)
SYS_CALLS = ("cpu_stats", "cpu_times", "cpu_count")

EXPECT = {"kill": ("kill", (9,)), "terminate": ("kill", (15,)), "suspend": ("kill", (19,)),
          "resume": ("kill", (18,)), "sig64": ("kill", (64,)), "sig0": ("kill", (0,)), "nice5": ("setpriority", (5,)),
          "ionice": ("ioprio_set", (2, 3)), "rlimit": ("prlimit", (7, (7, 9))),
          "aff0": ("affinity_set", ((0,),)), "affall": ("affinity_set", ((0, 1),)), "sig65": ("kill", (65,))}


_SUB = {}


def _subclass(ps):
    if ps not in _SUB:
        class MyProcess(ps.Process):
            """an application's own subclass"""

            def describe(self):
                return "%s/%s" % (self.pid, self.name())
        _SUB[ps] = MyProcess
    return _SUB[ps]


class _Unrelated:
    """something with a pid that is not a Process"""

    def __init__(self, pid):
        self.pid = pid
        self._ident = (pid, None)

    def __repr__(self):
        return "<unrelated object with pid %d>" % self.pid


def _norm(x):
    if isinstance(x, (tuple, list)):
        return [_norm(y) for y in x]
    if isinstance(x, int):
        return int(x)
    return x


class _StubSubproc:
    """what psutil.Popen wraps; the child was started by us and nobody waited for it through this object"""
    def __init__(self, pid):
        self.pid = pid
        self.returncode = None
        self.stdin = self.stdout = self.stderr = None


def mk_popen(ps, pid):
    o = ps.Popen.__new__(ps.Popen)
    object.__setattr__(o, "_Popen__subproc", _StubSubproc(pid))
    o._init(pid, _ignore_nsp=False)
    return o


class Cfg:
    def __init__(self, seed=0, slots=("A", "B"), max_objs=2, actions=(), clock=False,
                 queries=("name",), numeric=False, use_iter=True, use_exit=True, max_denies=0, max_faults=0, create_time_event=False, sys_calls=(), btime0=None, oneshot=False, popen=False,
                 own_pid=None, iterhold=False, comm=None, use_wait=False, mid=0, midact=0, lazy_hash=False):
        self.seed = seed
        base = 1000 + (seed % 9) * 13
        self.pid = {"A": base, "B": base + 7, "C": base + 19}
        self.slots = tuple(slots)
        self.max_objs = max_objs
        self.actions = tuple(actions)
        self.clock = clock
        self.queries = tuple(queries)
        self.numeric = numeric
        self.use_iter = use_iter
        self.use_exit = use_exit
        self.popen = popen                # held objects are psutil.Popen instances (over a stub subprocess)
        self.use_wait = use_wait          # event: wait(timeout=0) on a held object (its answer is C15's business; what it leaves behind is ours)
        self.mid = mid                    # is_running() with ONE process-table event landing before its k-th kernel access, k < mid
        self.midact = midact              # an action during which the process dies before access k1 and the pid is re-used before access k2 > k1
        self.lazy_hash = lazy_hash        # the first hash() of an object is an event of its own (compared with a twin hashed at birth)
        self.iterhold = iterhold          # event: run process_iter() and hold the object it yields for a slot
        self.comm = comm or {}            # slot -> process name bytes
        if own_pid:
            self.pid["A"] = own_pid       # the pid of the interpreter that imported psutil
        self.oneshot = oneshot            # enter/exit of a oneshot() block on object 0
        self.sys_calls = sys_calls        # system-wide functions as events (clock configurations only)
        self.create_time_event = create_time_event     # create_time() queries even without clock events
        self.max_faults = max_faults      # one-shot resource failures (EMFILE) of the next open() of /proc/<pid>/stat
        self.max_denies = max_denies      # permission faults: /proc/<pid>/stat of ONE incarnation becomes unreadable
        self.btime0 = 1700000000 + (seed % 5) * 3600 if btime0 is None else btime0
        self.j0 = 500000 + (seed % 7) * 1000


class Exec:
    def __init__(self, cfg):
        import psutil
        self.psutil = psutil
        self.cfg = cfg
        w = World(ncpus=2, btime=cfg.btime0, jiffies=cfg.j0)
        w.spawn(1, ppid=0, comm=b"init", start=1)
        w.spawn(w.mypid, ppid=1, comm=b"caller", start=50)
        self.w = w
        use_world(w)
        self.objs = []        # held Process objects
        self.ouid = []        # incarnation uid each was created for
        self.hashes = []      # first hash taken (None until taken)
        self.ran_false = []   # is_running() has returned False
        self.ngen = {}        # slot -> number of processes spawned there so far
        self.twin_hash = []   # hash of a second object built at the same moment and hashed at once (lazy_hash configurations)
        self.viols = []
        self.label = ""
        self.ndeny = 0
        self.nfault = 0
        self.modres = ModuleResidue([psutil, psutil._pslinux, psutil._common, psutil._psposix],
                                    known=("_pmap", "_pids_reused", "_LOWEST_PID", "BOOT_TIME"))
        self.cms = {}         # object index -> entered oneshot() context manager

    def comm_for(self, slot):
        """successive owners of one pid carry different names (so that a name taken from the wrong one shows)"""
        base = self.cfg.comm.get(slot)
        if base is not None:
            return base
        self.ngen[slot] = self.ngen.get(slot, 0) + 1
        return b"p" + slot.encode() + (b"" if self.ngen[slot] % 2 else b"-again")

    # ------------------------------------------------------------ enabled
    def enabled(self):
        c, w = self.cfg, self.w
        ev = []
        for s in c.slots:
            pid = c.pid[s]
            p = w.procs.get(pid)
            if p is None:
                ev.append(["spawn", s])
            else:
                ev.append(["die", s])
                if c.use_exit:
                    if not p.zombie:
                        ev.append(["exit", s])
                    else:
                        ev.append(["reap", s])
        if self.ndeny < c.max_denies:
            for s in c.slots:
                p = w.procs.get(c.pid[s])
                if p is not None and not p.zombie and "stat" not in p.denied:
                    ev.append(["deny", s])
        for s in c.slots:
            p = w.procs.get(c.pid[s])
            if p is not None and "stat" in p.denied:
                ev.append(["allow", s])
        if self.nfault < c.max_faults:
            for s in c.slots:
                p = w.procs.get(c.pid[s])
                if p is not None and not p.zombie and not getattr(p, "fail_once", None):
                    ev.append(["fault", s])
        if len(self.objs) < c.max_objs:
            for s in c.slots:
                ev.append(["new", s])
        for i in range(len(self.objs)):
            ev.append(["is_running", i])
        for i in range(len(self.objs)):
            for q in c.queries:
                ev.append(["q", i, q])
        if c.mid:
            for i, o in enumerate(self.objs):
                for s in c.slots:
                    if c.pid[s] != o.pid:
                        continue
                    p = w.procs.get(o.pid)
                    for e in (("spawn", "spawnZ") if p is None else (("recycle", "die") if p.zombie else ("recycle", "die", "exit"))):
                        for k_ in range(c.mid):
                            ev.append(["mid", i, k_, e, s])
        if c.lazy_hash:
            for i, o in enumerate(self.objs):
                if o._hash is None:
                    ev.append(["hash", i])
        if c.midact:
            for i, o in enumerate(self.objs):
                p = w.procs.get(o.pid)
                if p is None or p.zombie or p.uid != self.ouid[i]:
                    continue
                s_ = [s for s in c.slots if c.pid[s] == o.pid]
                if not s_:
                    continue
                for a in c.actions:
                    for k1 in range(c.midact):
                        for k2 in range(k1 + 1, c.midact + 1):
                            ev.append(["midact", i, a, k1, k2, s_[0]])
        if c.use_wait:
            for i, o in enumerate(self.objs):
                if o._exitcode is self.psutil._SENTINEL:
                    ev.append(["wait", i])
        if c.oneshot and self.objs:
            ev.append(["os_exit", 0] if 0 in self.cms else ["os_enter", 0])
        if c.use_iter:
            ev.append(["iter"])
        if c.iterhold and len(self.objs) < c.max_objs:
            for s in c.slots:
                if c.pid[s] in w.procs:
                    ev.append(["iterhold", s])
        if c.clock:
            ev += [["boot_time"], ["step-"], ["tick100"], ["step+"]]
            ev += [["sys", f] for f in c.sys_calls]
        if c.clock or c.create_time_event:
            for i in range(len(self.objs)):
                ev.append(["create_time", i])
        for i in range(len(self.objs)):
            for a in c.actions:
                ev.append(["act", i, a])
        return ev

    # -------------------------------------------------------------- apply
    def viol(self, cause, msg):
        self.viols.append({"cause": cause, "msg": msg})

    def ident(self, i):
        """reference: is object i's incarnation still in the process table?"""
        o = self.objs[i]
        p = self.w.procs.get(o.pid)
        return p is not None and p.uid == self.ouid[i]

    def apply(self, ev):
        ps, w, c = self.psutil, self.w, self.cfg
        self.viols = []
        k = ev[0]
        n0 = len(w.effects)
        lab = k
        before = self.eq_matrix() if k in PURE else None
        armed0 = [p for p in w.procs.values() if getattr(p, "fail_once", None)]
        if k == "spawn":
            w.tick(1)      # a recycled pid's new owner starts at a later jiffy
            w.spawn(c.pid[ev[1]], ppid=1, comm=self.comm_for(ev[1]))
        elif k == "exit":
            w.exit(c.pid[ev[1]])
        elif k == "reap":
            w.reap(c.pid[ev[1]])
        elif k == "die":
            w.vanish(c.pid[ev[1]])
        elif k == "deny":
            w.procs[c.pid[ev[1]]].denied.add("stat")
            self.ndeny += 1
        elif k == "allow":
            w.procs[c.pid[ev[1]]].denied.discard("stat")
        elif k == "fault":
            import errno as _e
            w.procs[c.pid[ev[1]]].fail_once = {"stat": _e.EMFILE}
            self.nfault += 1
        elif k == "os_enter":
            cm = self.objs[ev[1]].oneshot()
            out = outcome(cm.__enter__)
            self.cms[ev[1]] = cm
            if out[0] != "ok":
                self.viol("oneshot-enter-raised", repr(out))
        elif k == "os_exit":
            out = outcome(self.cms.pop(ev[1]).__exit__, None, None, None)
            if out[0] != "ok":
                self.viol("oneshot-exit-raised", repr(out))
        elif k == "tick100":
            w.tick(100)
        elif k == "step-":
            w.btime -= 1
        elif k == "step+":
            w.btime += 1
        elif k == "new":
            pid = c.pid[ev[1]]
            owner = w.owner_uid(pid)
            # (every second held object is an instance of a trivial subclass: identity is a matter of pid and creation time)
            ctor = ps.Process if len(self.objs) % 2 == 0 else _subclass(ps)
            out = outcome(mk_popen if c.popen else ctor, *((ps, pid) if c.popen else (pid,)))
            if out[0] == "ok":
                if owner is None:
                    self.viol("ctor-on-absent-pid", "Process(%d) succeeded for an unlisted pid" % pid)
                self.objs.append(out[1])
                self.ouid.append(owner)
                self.hashes.append(None)
                self.ran_false.append(False)
                th = None
                if c.lazy_hash and not any(getattr(p_, "fail_once", None) for p_ in w.procs.values()):
                    t2 = outcome(mk_popen if c.popen else ctor, *((ps, pid) if c.popen else (pid,)))
                    if t2[0] == "ok":
                        th = outcome(hash, t2[1])
                self.twin_hash.append(th)
                lab = "new:ok"
            else:
                lab = "new:" + out[1]
                if owner is not None:
                    self.viol("ctor-failed-on-listed-pid", "Process(%d) raised %r for a listed pid" % (pid, out))
                elif out[1] != "NoSuchProcess":
                    self.viol("ctor-wrong-exc", "Process(%d) on a free pid raised %r" % (pid, out))
        elif k == "is_running":
            i = ev[1]
            out = outcome(self.objs[i].is_running)
            exp = self.ident(i)
            lab = "is_running:%s" % (out[1] if out[0] == "ok" else out[1])
            if self.ndeny or self.nfault:
                pass       # a refused identity re-check is C03's business (known finding there), not judged here
            elif out[0] != "ok" or out[1] is not exp:
                self.viol("is_running:%s-expected-%s" % (out[1] if out[0] == "ok" else out[1], exp),
                          "is_running() -> %r but the object's process is %s in the table (pid %d owner uid %r, object uid %r)"
                          % (out, "still" if exp else "not", self.objs[i].pid, w.owner_uid(self.objs[i].pid), self.ouid[i]))
            if out[0] == "ok" and out[1] is False:
                self.ran_false[i] = True
        elif k == "q":
            i, q = ev[1], ev[2]
            out = outcome(getattr(self.objs[i], q))
            lab = "q:%s:%s" % (q, "ok" if out[0] == "ok" else out[1])
            if out[0] == "exc" and out[1] not in ("NoSuchProcess", "ZombieProcess", "AccessDenied"):
                self.viol("query-leak:%s:%s" % (q, out[1]), "%s() raised %r" % (q, out))
        elif k == "mid":
            i, k_, e, s_ = ev[1:]
            pid = c.pid[s_]
            seen = []

            def hook(world, kind, subj, pid_):
                seen.append(kind)
                if len(seen) - 1 != k_:
                    return
                world.hook = None
                if e in ("die", "recycle"):
                    world.vanish(pid)
                if e == "exit":
                    world.exit(pid)
                if e in ("spawn", "spawnZ", "recycle"):
                    world.tick(1)
                    world.spawn(pid, ppid=1, comm=self.comm_for(s_))
                if e == "spawnZ":
                    world.exit(pid)
                seen.append("applied")
            exp0 = self.ident(i)
            w.hook = hook
            try:
                out = outcome(self.objs[i].is_running)
            finally:
                w.hook = None
            exp1 = self.ident(i)
            landed = "applied" in seen
            lab = "mid:%s:%s:%s" % (e, "landed" if landed else "late", out[1])
            if self.ndeny or self.nfault:
                pass
            elif out[0] != "ok" or out[1] not in (exp0, exp1):
                self.viol("mid-call:%s:is_running:%s-expected-%s" % (e, out[1], exp1),
                          "is_running() -> %r while %r happened before kernel access %d of the call; the object's process was %s in the "
                          "table before the call and is %s after it" % (out, e, k_, "still" if exp0 else "not", "still" if exp1 else "not"))
            if out[0] == "ok" and out[1] is False:
                self.ran_false[i] = True
        elif k == "hash":
            i = ev[1]
            h = outcome(hash, self.objs[i])
            lab = "hash:%s" % h[0]
            th = self.twin_hash[i] if i < len(self.twin_hash) else None
            if h[0] != "ok":
                self.viol("hash-raised", repr(h))
            elif th is not None and th[0] == "ok" and th[1] != h[1]:
                self.viol("hash-depends-on-calls-made-before-the-first-hash()",
                          "object %d (ident %r): its first hash() differs from the hash of a second object built at the same moment "
                          "and hashed at once" % (i, self.objs[i]._ident))
        elif k == "midact":
            i, a, k1, k2, s_ = ev[1:]
            o = self.objs[i]
            pid = o.pid
            seen, between = [], []

            cnt = [0]

            def hook(world, kind, subj, pid_):
                n = cnt[0]
                cnt[0] += 1
                if n == k1 and pid in world.procs:
                    world.vanish(pid)
                    seen.append("died")
                if "died" in seen and "respawned" not in seen:
                    if n >= k2:
                        world.tick(1)
                        world.spawn(pid, ppid=1, comm=self.comm_for(s_))
                        seen.append("respawned")
                        world.hook = None
                    elif pid_ == pid:
                        between.append(kind)      # psutil looked at the pid while nobody owned it
            w.hook = hook
            n_eff = len(w.effects)
            try:
                out = outcome(do_action, ps, o, a)
            finally:
                w.hook = None
            eff = w.effects[n_eff:]
            lab = "midact:%s:%s:%s:%s" % (a, "died" in seen, "respawned" in seen, "ok" if out[0] == "ok" else out[1])
            n0 = len(w.effects)       # (judged here, not by the generic rule below)
            for e in eff:
                if e[3] != self.ouid[i] and not (e[0] == "kill" and tuple(e[2]) == (0,)):
                    if between:
                        self.viol("mid-call:delivered-to-new-owner-after-seeing-the-pid-free",
                                  "%s(): the process died before kernel access %d of the call, psutil then made %r on the ownerless pid, "
                                  "the pid was re-used before access %d, and the call went on to deliver %r to the new owner"
                                  % (a, k1, between, k2, e))
            if out[0] == "exc" and out[1] not in ("NoSuchProcess", "ZombieProcess", "AccessDenied") and not (a == "sig65" and out[1] in ("OSError", "ValueError")):
                self.viol("mid-call:action-raised:%s" % out[1], "%s() raised %r (process died before access %d, pid re-used before access %d)" % (a, out, k1, k2))
        elif k == "wait":
            out = outcome(self.objs[ev[1]].wait, 0)
            lab = "wait:%s" % ("ok" if out[0] == "ok" else out[1])
            if out[0] == "exc" and out[1] not in ("TimeoutExpired", "NoSuchProcess"):
                self.viol("wait-leak:%s" % out[1], "wait(0) raised %r" % (out,))
        elif k == "iter":
            out = outcome(lambda: [p.pid for p in ps.process_iter()])
            lab = "iter:%s" % (out[0] if out[0] == "ok" else out[1])
            for pid_, o_ in ps._pmap.items():
                if not hasattr(o_, "_vf_uid"):
                    o_._vf_uid = w.owner_uid(pid_)       # created during this (atomic) call
            if out[0] != "ok":
                self.viol("iter-raised:%s" % out[1], "process_iter() raised %r" % (out,))
            # completeness / order of the listing is C04's business, not checked here
        elif k == "iterhold":
            pid = c.pid[ev[1]]
            out = outcome(lambda: [p for p in ps.process_iter() if p.pid == pid])
            lab = "iterhold:%s" % (out[0] if out[0] == "ok" else out[1])
            for pid_, o_ in ps._pmap.items():
                if not hasattr(o_, "_vf_uid"):
                    o_._vf_uid = w.owner_uid(pid_)
            if out[0] != "ok":
                self.viol("iter-raised:%s" % out[1], repr(out))
            elif out[1]:
                o = out[1][0]
                # which incarnation does a cached object stand for?  the one current when it was first yielded
                if not hasattr(o, "_vf_uid"):
                    o._vf_uid = w.owner_uid(pid)
                if not any(o is x for x in self.objs):
                    self.objs.append(o)
                    self.ouid.append(o._vf_uid)
                    self.hashes.append(None)
                    self.ran_false.append(False)
                    self.twin_hash.append(None)
        elif k == "boot_time":
            out = outcome(ps.boot_time)
            if out != ("ok", float(w.btime)):
                self.viol("boot_time", "boot_time() -> %r, kernel publishes %r" % (out, w.btime))
        elif k == "sys":
            out = outcome(getattr(ps, ev[1]))
            if out[0] != "ok":
                self.viol("sys-call-raised:%s" % ev[1], repr(out))
        elif k == "create_time":
            out = outcome(self.objs[ev[1]].create_time)
            lab = "create_time:%s" % (out[0] if out[0] == "ok" else out[1])
        elif k == "act":
            self.apply_action(ev[1], ev[2])
            lab = self.label
        else:
            raise AssertionError(ev)
        if k != "act":
            for e in w.effects[n0:]:
                if k == "wait" and e[0] == "kill" and tuple(e[2]) == (0,):
                    continue      # (the existence probe of the polling loop: signal 0 delivers nothing)
                self.viol("effect-from-%s" % k, "event %r delivered %r" % (ev, e))
        self.label = lab
        if before is not None:
            after = self.eq_matrix()
            if after != before:
                self.viol("query-changed-equality-or-hash:%s" % k,
                          "a mere query (%r) changed ==/hash() of held objects: before %r after %r" % (ev, before, after))
        self.check_identity()
        if any(not p.fail_once for p in armed0):
            # the armed resource failure hit an open() made by this event: the bare OSError(EMFILE) it produces is the
            # caller's to handle (no psutil error class stands for it); what must still hold is judged by the other oracles
            self.viols = [v for v in self.viols if "[Errno 24]" not in v["msg"]]

    def apply_action(self, i, a):
        ps, w = self.psutil, self.w
        o = self.objs[i]
        n0 = len(w.effects)
        owner = w.owner_uid(o.pid)
        own = owner is not None and owner == self.ouid[i]
        was_gone = o._gone
        name0 = o._name
        out = outcome(do_action, ps, o, a)
        eff = w.effects[n0:]
        self.label = "act:%s:%s:%s" % (a, "own" if own else ("other" if owner is not None else "free"),
                                       "ok" if out[0] == "ok" else out[1])
        name, args = EXPECT[a]
        for e in eff:
            if e[1] <= 0:
                self.viol("group-signal", "%s delivered %r to pid %d" % (a, e, e[1]))
            elif e[1] != o.pid:
                self.viol("wrong-pid", "%s on object pid %d delivered %r" % (a, o.pid, e))
            elif e[0] != name or _norm(e[2]) != _norm(args):
                self.viol("wrong-value:%s" % a, "%s delivered %r, expected %s%r" % (a, e, name, args))
            elif e[3] != self.ouid[i]:
                self.viol("delivered-to-new-owner:%s" % ("object-already-marked-gone" if was_gone else "object-not-marked"),
                          "%s() on an object created for incarnation %r of pid %d was delivered to incarnation %r: %r"
                          % (a, self.ouid[i], o.pid, e[3], e))
        if len(eff) > 1:
            self.viol("multiple-deliveries:%s" % a, "%s delivered %r" % (a, eff))
        if not own and owner is not None and out[0] == "exc" and out[1] == "NoSuchProcess":
            nm = out[2].get("name")
            cur = w.procs[o.pid].comm.decode("latin-1") if o.pid in w.procs else None
            mine = [d.comm.decode("latin-1") for u, d in getattr(w, "dead", {}).items() if u == self.ouid[i]]
            if nm is not None and name0 is None and nm == cur and nm not in mine:
                # (a name() asked of the stale object earlier is the caller's own doing; here the ACTION went and fetched it)
                self.viol("NoSuchProcess-names-the-new-owner", "%s() on a recycled pid raised NoSuchProcess carrying name=%r: that is the name of the process "
                          "which owns the pid NOW (the object's own process was called %r)" % (a, nm, mine))
        if not own and owner is not None:
            if not (out[0] == "exc" and out[1] == "NoSuchProcess"):
                self.viol("no-NSP-on-recycled-pid:%s" % ("object-already-marked-gone" if was_gone else "object-not-marked"),
                          "%s() on a recycled pid returned %r instead of raising NoSuchProcess" % (a, out))
        if a == "sig65" and out[0] == "exc" and out[1] in ("OSError", "ValueError"):
            pass          # an invalid signal number is the caller's error; it says nothing about the process
        elif out[0] == "exc" and out[1] not in ("NoSuchProcess", "ZombieProcess", "AccessDenied"):
            self.viol("action-leak:%s:%s" % (a, out[1]), "%s() raised %r" % (a, out))
        if own and out[0] == "exc" and out[1] == "NoSuchProcess" and not w.procs[o.pid].zombie:
            # not demanded by C01's statement (see DESIGN): reported under C02's oracle instead
            pass

    def eq_matrix(self):
        objs = self.objs
        m = []
        for i in range(len(objs)):
            if self.cfg.lazy_hash and objs[i]._hash is None:
                pass          # not hashed yet: the first hash() is an event of its own
            else:
                h = outcome(hash, objs[i])
                m.append(("h", i, h[1] if h[0] == "ok" else h[1]))
            for j in range(i + 1, len(objs)):
                m.append((i, j, objs[i] == objs[j], objs[i] != objs[j]))
        return m

    # ---------------------------------------------------- C02 invariants
    def check_identity(self):
        """==/hash over every pair of held objects (pure, evaluated after every event)."""
        if self.ndeny or self.nfault:
            return       # identity under permission faults is outside C02's quantifier (see C03's known finding)
        objs = self.objs
        for i, o in enumerate(objs):
            # objects of other types are simply not equal (no exception, whichever side they stand on)
            for other in (None, o.pid, (o.pid, o._ident[1]), "x", _Unrelated(o.pid)):
                r = outcome(lambda: (o == other, other == o, o != other, other != o))
                if r != ("ok", (False, False, True, True)):
                    self.viol("eq-with-another-type", "Process == %r -> %r" % (other, r))
            h = outcome(hash, o)
            if h[0] != "ok":
                self.viol("hash-raised", "hash() raised %r" % (h,))
                continue
            if self.hashes[i] is None:
                self.hashes[i] = h[1]
            elif self.hashes[i] != h[1]:
                self.viol("hash-changed", "hash(object %d) changed" % i)
        for i in range(len(objs)):
            for j in range(i + 1, len(objs)):
                same = objs[i].pid == objs[j].pid and self.ouid[i] == self.ouid[j]
                eq = objs[i] == objs[j]
                ne = objs[i] != objs[j]
                if eq is not same or ne is same:
                    self.viol("eq:%s-expected-%s" % (eq, same),
                              "objects %d,%d (pid %d/%d, incarnations %r/%r): == -> %r, != -> %r; idents %r %r"
                              % (i, j, objs[i].pid, objs[j].pid, self.ouid[i], self.ouid[j], eq, ne,
                                 objs[i]._ident, objs[j]._ident))
                if same and self.hashes[i] != self.hashes[j]:
                    self.viol("hash-differs-for-equal", "objects %d,%d same process, different hash" % (i, j))
                if not same and objs[i].pid == objs[j].pid and self.hashes[i] is not None and self.hashes[i] == self.hashes[j]:
                    self.viol("hash-alike-for-different-processes", "objects %d,%d (pid %d, incarnations %r/%r) are unequal but hash alike: idents %r %r"
                              % (i, j, objs[i].pid, self.ouid[i], self.ouid[j], objs[i]._ident, objs[j]._ident))

    # -------------------------------------------------------------- canon
    def canon(self):
        ps, w, c = self.psutil, self.w, self.cfg
        lin = ps._pslinux
        slots = {}
        for s in c.slots:
            p = w.procs.get(c.pid[s])
            if p is None:
                slots[s] = None
            else:
                slots[s] = ["Z" if p.zombie else ("D" if "stat" in p.denied else ("F" if getattr(p, "fail_once", None) else "R")),
                            p.uid, p.start]
        # relabel incarnation uids by order of appearance (uids are allocation counters)
        uids = sorted({v[1] for v in slots.values() if v} | {u for u in self.ouid if u is not None})
        rel = {u: n for n, u in enumerate(uids)}

        def od(o, uid):
            d = {"pid": o.pid, "uid": rel.get(uid), "gone": o._gone, "reused": o._pid_reused,
                 "name": o._name, "hash": o._hash is not None, "blk": hasattr(o, "_cache"),
                 # what the open oneshot() block has remembered so far (any memoized method, whichever they are)
                 "ocache": sorted((getattr(fn, "__name__", str(fn)), v if isinstance(v, (bool, int, str)) else None)
                                  for fn, v in getattr(o, "_cache", {}).items()),
                 "pcache": sorted(fn.__name__ for fn in getattr(o._proc, "_cache", {})),
                 "pcache_cur": (lambda c_, p_: None if not c_ or p_ is None else
                                any(isinstance(v, dict) and v.get("create_time") == str(p_.start).encode() for v in c_.values()))(
                                    getattr(o._proc, "_cache", None), w.procs.get(o.pid)), "exit": repr(o._exitcode) if o._exitcode is not ps._SENTINEL else None}
            # whatever else the object (or its platform half) remembers
            d["rest"] = residue(o, ("_pid", "_gone", "_pid_reused", "_name", "_hash", "_cache", "_exitcode", "_ident", "_create_time",
                                    "_proc", "_lock"))
            d["prest"] = residue(o._proc, ("pid", "_cache", "_procfs_path"))
            if c.numeric:
                d["ident"] = None if o._ident[1] is None else round(o._ident[1] - c.btime0, 2)
                d["ct"] = None if o._create_time is None else round(o._create_time - c.btime0, 2)
            else:
                # without clock events psutil compares create times only for equality with the
                # current owner's; all starts are distinct and increasing, so "matches the current
                # owner" is the only observable
                p = w.procs.get(o.pid)
                d["match"] = None if p is None else (o._ident[1] == p.start / CLK_TCK + w.btime)
            return d
        objs = [od(o, u) for o, u in zip(self.objs, self.ouid)]
        pmap = {}
        for pid, po in sorted(ps._pmap.items()):
            held = [i for i, o in enumerate(self.objs) if o is po]
            if held:
                pmap[pid] = ["held", held[0]]
            else:
                p = w.procs.get(pid)
                if c.numeric:
                    m = None if po._ident[1] is None else round(po._ident[1] - c.btime0, 2)
                else:
                    m = None if p is None else (po._ident[1] == p.start / CLK_TCK + w.btime)
                pmap[pid] = ["anon", m, po._gone, po._pid_reused]
        key = {"slots": {s: (None if v is None else [v[0], rel[v[1]]] + ([v[2] - c.j0] if c.numeric else []))
                         for s, v in slots.items()},
               "objs": objs, "pmap": pmap, "reused": sorted(ps._pids_reused),
               "lowest": ps._LOWEST_PID, "ranf": list(self.ran_false), "ndeny": self.ndeny, "nfault": self.nfault,
               "modules": self.modres.diff()}
        if c.numeric:
            key["bt"] = None if lin.BOOT_TIME is None else lin.BOOT_TIME - c.btime0
            key["btime"] = w.btime - c.btime0
            key["j"] = w.jiffies - c.j0
        else:
            key["bt"] = lin.BOOT_TIME is not None
        return key


def run_history(cfg, history):
    ex = Exec(cfg)
    for ev in history:
        ex.apply(ev)
    return {"key": ex.canon(), "enabled": ex.enabled(), "viols": list(ex.viols), "label": ex.label}
