"""Binding of the environment model (simk) to the real kernel — run on every C03/C06 check.

1. liveness table: for a live child, a zombie, a reaped pid and "opened, then died", the real kernel's
   answer to each access psutil makes (errno class / empty / content) is measured and compared with
   simk's answer for a process in the same state;
2. renderer round trip: /proc/<pid>/stat and the Name: line of /proc/<pid>/status of real specimen
   processes with hostile names (set via /proc/self/comm) are decoded into facts, re-rendered by simk
   and must reproduce the kernel's bytes exactly.
A mismatch means the model is out of date: machinery failure (exit 2), never a VIOLATION.
"""
import errno
import os
import signal
import subprocess
import sys
import time

from .world import World, render_stat, render_status, STAT_FIELDS
from .seams import FakeOS, make_open

FILES = ["stat", "status", "io", "statm", "cmdline", "smaps", "smaps_rollup", "environ"]
LINKS = ["exe", "cwd"]
DIRS = ["fd", "task", ""]


def _cls(fn):
    try:
        r = fn()
    except OSError as e:
        return "E:" + errno.errorcode.get(e.errno, str(e.errno))
    if isinstance(r, (bytes, str)):
        return "empty" if len(r) == 0 else "content"
    if isinstance(r, list):
        return "emptylist" if not r else "list"
    return "ok"


def _probe(os_mod, open_fn, pid):
    base = "/proc/%d" % pid
    out = {}
    for f in FILES:
        def rd(f=f):
            with open_fn("%s/%s" % (base, f), "rb") as fh:
                return fh.read()
        out["read:" + f] = _cls(rd)
    for ln in LINKS:
        out["readlink:" + ln] = _cls(lambda ln=ln: os_mod.readlink("%s/%s" % (base, ln)))
    for d in DIRS:
        out["listdir:" + d] = _cls(lambda d=d: os_mod.listdir("%s/%s" % (base, d) if d else base))
    out["stat"] = _cls(lambda: os_mod.stat(base) and "x")
    out["kill0"] = _cls(lambda: os_mod.kill(pid, 0) or "x")
    return out


def _open_then_die(os_mod, open_fn, pid, kill):
    fhs = {}
    for f in FILES:
        try:
            fhs[f] = open_fn("/proc/%d/%s" % (pid, f), "rb")
        except OSError:
            fhs[f] = None
    kill()
    out = {}
    for f, fh in fhs.items():
        if fh is None:
            continue
        out["late-read:" + f] = _cls(fh.read)
        fh.close()
    return out


def liveness():
    """-> list of mismatches [(state, access, real, simk)]"""
    mism = []
    # --- real kernel
    real = {}
    c = subprocess.Popen(["sleep", "60"], stdout=subprocess.DEVNULL)
    for _ in range(500):            # wait for the exec to complete
        try:
            if os.readlink("/proc/%d/exe" % c.pid).endswith("sleep") and open("/proc/%d/cmdline" % c.pid, "rb").read():
                break
        except OSError:
            pass
        time.sleep(0.01)
    real["live"] = _probe(os, open, c.pid)
    pid = os.fork()
    if pid == 0:
        os._exit(0)
    for _ in range(500):            # wait until the child really is a zombie (loaded machines)
        try:
            with open("/proc/%d/stat" % pid, "rb") as f:
                st = f.read()
            if st[st.rfind(b")") + 2:st.rfind(b")") + 3] == b"Z":
                break
        except OSError:
            pass
        time.sleep(0.01)
    real["zombie"] = _probe(os, open, pid)
    os.waitpid(pid, 0)
    real["reaped"] = _probe(os, open, pid)

    def kill():
        c.kill()
        c.wait()
    real["late"] = _open_then_die(os, open, c.pid, kill)
    # --- simk
    sim = {}
    w = World()
    w.procfs = "/proc"          # (the calibration probes the model under the real kernel's own path names)
    w.spawn(1, ppid=0, comm=b"init", start=1)
    p = w.spawn(500, ppid=1, comm=b"sleep", start=10)
    from .world import Mapping, FD
    p.maps = [Mapping(0x1000, 0x2000, path=b"/bin/sleep", kb={"Rss": 4})]
    p.fds = {0: FD("/dev/null", "chr")}
    fos, fopen = FakeOS(w), make_open(w)
    sim["live"] = _probe(fos, fopen, 500)
    w.exit(500)
    sim["zombie"] = _probe(fos, fopen, 500)
    w.reap(500)
    sim["reaped"] = _probe(fos, fopen, 500)
    q = w.spawn(501, ppid=1, comm=b"sleep", start=11)
    q.maps = [Mapping(0x1000, 0x2000, path=b"/bin/sleep", kb={"Rss": 4})]
    sim["late"] = _open_then_die(fos, fopen, 501, lambda: w.vanish(501))
    n = 0
    for state in real:
        for acc, r in real[state].items():
            n += 1
            s = sim[state].get(acc)
            if r != s:
                # tolerated: as non-root some reads are EACCES on the real kernel
                if r in ("E:EACCES", "E:EPERM"):
                    continue
                mism.append((state, acc, r, s))
    return n, mism


SPECIMENS = [b"plain", b"a) R 1 2 3", b"(", b")) ((", b"Uid:\t7\t7\t7", b"x\ny", b"back\\slash", b"sp ace", b"\xff\xfe", b"tab\there",
             b"123456789012345"]


def roundtrip():
    """-> (n, mismatches)"""
    mism = []
    n = 0
    for name in SPECIMENS:
        r, wfd = os.pipe()
        pid = os.fork()
        if pid == 0:
            try:
                with open("/proc/self/comm", "wb") as f:
                    f.write(name)
                os.write(wfd, b"k")
                time.sleep(30)
            finally:
                os._exit(0)
        try:
            os.read(r, 1)
            with open("/proc/%d/stat" % pid, "rb") as f:
                stat = f.read()
            with open("/proc/%d/status" % pid, "rb") as f:
                status = f.read()
        finally:
            os.kill(pid, signal.SIGKILL)
            os.waitpid(pid, 0)
            os.close(r)
            os.close(wfd)
        n += 1
        # decode with the reference rule (first '(' .. last ')')
        lp, rp = stat.find(b"("), stat.rfind(b")")
        comm = stat[lp + 1:rp]
        fields = stat[rp + 2:].split()
        if comm != name[:15]:
            mism.append(("stat-comm", name, comm))
            continue
        w = World()
        p = w.spawn(pid, ppid=int(fields[1]), comm=comm, start=int(fields[19]))
        p.state = fields[0].decode()
        for i, fname in enumerate(STAT_FIELDS):
            if i < len(fields) and i not in (0,):
                try:
                    p.stat[fname] = int(fields[i])
                except ValueError:
                    pass
        p.tty_nr = int(fields[4])
        p.nice = int(fields[16])
        p.stat_nfields = len(fields)
        mine = render_stat(w, p)
        if mine != stat:
            mism.append(("stat-bytes", name, stat[:80], mine[:80]))
        real_name = [l for l in status.split(b"\n") if l.startswith(b"Name:\t")][0]
        # the Name: line may itself contain an (escaped) newline: take up to the Umask line
        real_name = status[:status.index(b"\nUmask:")]
        mine_name = render_status(w, p).split(b"\nUmask:")[0]
        if mine_name != real_name:
            mism.append(("status-name", name, real_name, mine_name))
    return n, mism


def run():
    for attempt in range(4):        # the specimens are real processes on a possibly loaded machine: re-measure before complaining
        n1, m1 = liveness()
        if not m1:
            break
        time.sleep(0.2)
    for attempt in range(4):
        n2, m2 = roundtrip()
        if not m2:
            break
        time.sleep(0.2)
    return {"liveness_cells": n1, "liveness_mismatches": [list(map(str, m)) for m in m1],
            "roundtrip_specimens": n2, "roundtrip_mismatches": [list(map(str, m)) for m in m2]}


if __name__ == "__main__":
    import json
    print(json.dumps(run(), indent=1))
