"""simk: an in-memory model of the Linux kernel surface psutil touches.

State: a process table of *incarnations* (Proc), a jiffies clock + btime, a
virtual monotonic clock, system tables, and a literal VFS for everything that
is not /proc/<pid>.  Text is rendered on each read by functions mirroring the
kernel formatters (fs/proc/array.c, fs/proc/task_mmu.c, ...).

Every access goes through World.point(kind, subj, pid) first: that is the
hook the explorers use to inject faults / switch threads / log.
"""
import errno
import os as _os
import stat as _stat

# clock ticks per second of the simulated machine (USER_HZ): 100 on Linux today, other values on other systems / old ports;
# the second configuration of a check runs with VF_CLK_TCK set
CLK_TCK = int(_os.environ.get("VF_CLK_TCK", "100") or 100)
PAGESIZE = 4096


CURRENT = [None]        # the world behind the seams (set by Seams.set_world): errors name the path as the CALLER spelt it


def oserr(code, path=None):
    w = CURRENT[0]
    if isinstance(path, str) and w is not None:
        if path.startswith("/.nothing-mounted-on-proc"):
            path = "/proc" + path[len("/.nothing-mounted-on-proc"):]
        else:
            path = w.unxlate(path)
    return OSError(code, _os.strerror(code), path)


class Thread:
    __slots__ = ("tid", "comm", "state", "utime", "stime", "extra")

    def __init__(self, tid, comm=b"thr", state="S", utime=0, stime=0):
        self.tid = tid
        self.comm = comm
        self.state = state
        self.utime = utime
        self.stime = stime
        self.extra = {}


class FD:
    """kind: reg | sock | pipe | anon | chr | dir | rel"""
    __slots__ = ("target", "pos", "flags", "kind", "extra")

    def __init__(self, target, kind="reg", pos=0, flags=0o100000, extra=b""):
        self.target = target
        self.kind = kind
        self.pos = pos
        self.flags = flags
        self.extra = extra        # further fdinfo lines (lock:, eventfd-count:, inotify ..., tfd: ...)


SMAPS_KEYS = ["Size", "KernelPageSize", "MMUPageSize", "Rss", "Pss", "Pss_Dirty",
              "Shared_Clean", "Shared_Dirty", "Private_Clean", "Private_Dirty",
              "Referenced", "Anonymous", "KSM", "LazyFree", "AnonHugePages",
              "ShmemPmdMapped", "FilePmdMapped", "Shared_Hugetlb", "Private_Hugetlb",
              "Swap", "SwapPss", "Locked"]


def _kbline(key, val):
    """fs/proc/task_mmu.c: SEQ_PUT_DEC("Key:<pad to 16, at least one blank>", v) " kB" (number right-aligned, width 8)"""
    k = (key + ":").encode()
    k = k.ljust(16) if len(k) < 16 else k + b" "
    return b"%s%8d kB" % (k, val)


class Mapping:
    def __init__(self, start, end, perms="r-xp", offset=0, dev="08:01", inode=0,
                 path=b"", kb=None, thp=True, vmflags=b"rd ex mr mw me", pkey=None,
                 omit=()):
        self.start, self.end, self.perms = start, end, perms
        self.offset, self.dev, self.inode, self.path = offset, dev, inode, path
        self.kb = dict.fromkeys(SMAPS_KEYS, 0)
        if kb:
            self.kb.update(kb)
        self.thp = thp
        self.vmflags = vmflags
        self.pkey = pkey
        self.omit = set(omit)

    def header(self):
        h = b"%x-%x %s %08x %s %d" % (self.start, self.end, self.perms.encode(),
                                      self.offset, self.dev.encode(), self.inode)
        if self.path:
            # kernel pads to column 73 then path
            h = h.ljust(72) + b" " + self.path
        else:
            h = h + b" "
        return h

    def render(self):
        out = [self.header()]
        for k in SMAPS_KEYS:
            if k in self.omit:
                continue
            out.append(_kbline(k, self.kb[k]))
        if self.thp is not None:
            if self.thp == "tab":
                out.append(b"THPeligible:\t\t0")        # (5.x releases separate this one key from its value with tabs)
            else:
                out.append(b"THPeligible:    %d" % (1 if self.thp else 0))
        if self.pkey is not None:
            out.append(b"ProtectionKey:  %8d" % self.pkey)
        if self.vmflags is not None:
            out.append(b"VmFlags: " + self.vmflags + b" ")
        return b"\n".join(out) + b"\n"


STATE_NAMES = {"R": "running", "S": "sleeping", "D": "disk sleep", "T": "stopped",
               "t": "tracing stop", "Z": "zombie", "X": "dead", "x": "dead",
               "K": "wakekill", "W": "waking", "I": "idle", "P": "parked"}

STAT_FIELDS = ["state", "ppid", "pgrp", "session", "tty_nr", "tpgid", "flags", "minflt",
               "cminflt", "majflt", "cmajflt", "utime", "stime", "cutime", "cstime",
               "priority", "nice", "num_threads", "itrealvalue", "starttime", "vsize",
               "rss", "rsslim", "startcode", "endcode", "startstack", "kstkesp", "kstkeip",
               "signal", "blocked", "sigignore", "sigcatch", "wchan", "nswap", "cnswap",
               "exit_signal", "processor", "rt_priority", "policy", "blkio_ticks",
               "guest_time", "cguest_time", "start_data", "end_data", "start_brk",
               "arg_start", "arg_end", "env_start", "env_end", "exit_code"]
assert len(STAT_FIELDS) == 50


class Proc:
    """One incarnation of a process."""
    _next_uid = [1]

    def __init__(self, pid, ppid=1, comm=b"proc", start=1000, **kw):
        self.uid = Proc._next_uid[0]
        Proc._next_uid[0] += 1
        self.pid = pid
        self.ppid = ppid
        self.comm = comm
        self.state = "S"
        self.start = start  # jiffies since boot
        self.zombie = False
        self.is_child = False       # child of the calling process (waitpid works)
        self.wstatus = None         # wait status once exited
        self.tty_nr = 0
        # distinct numeric defaults so that any index slip shows
        self.stat = {}
        for i, name in enumerate(STAT_FIELDS):
            self.stat[name] = 1000 + 7 * i
        self.stat["nice"] = 0
        self.stat["exit_signal"] = 17
        self.stat_nfields = 50      # number of fields after the name
        self.uids = (1000, 1001, 1002, 1003)
        self.gids = (2000, 2001, 2002, 2003)
        self.vctx = 31
        self.nvctx = 37
        self.threads = None         # list[Thread]; None => single main thread
        self.fds = {}               # fd -> FD
        self.maps = []              # list[Mapping]
        self.rollup = True          # smaps_rollup available for this process
        self.cmdline = b"/bin/proc\0"
        self.environ = b"A=1\0"
        self.exe = "/bin/proc"      # raw link target; None => ENOENT while alive
        self.cwd = "/"
        self.nice = 0
        self.ioprio = (0, 0)        # (class, data)
        self.affinity = None        # None => all cpus
        self.cpus_allowed_list = None  # text; None => derived "0-(n-1)"
        self.rlimits = {}
        self.io = {"rchar": 101, "wchar": 102, "syscr": 103, "syscw": 104,
                   "read_bytes": 105, "write_bytes": 106, "cancelled_write_bytes": 107}
        self.io_raw = None          # raw bytes override
        self.statm = (211, 212, 213, 214, 215, 216, 217)
        self.status_extra = {}      # overrides of raw status lines
        self.status_raw = None
        self.stat_raw = None
        self.ver = {}               # source -> version counter (C16)
        self.denied = set()         # file names refused with EACCES
        for k, v in kw.items():
            setattr(self, k, v)

    # -- accessors used by renderers
    def thread_list(self):
        if self.threads is None:
            return [Thread(self.pid, self.comm, self.state, self.stat["utime"], self.stat["stime"])]
        return self.threads


def escape_status_name(comm):
    return comm.replace(b"\\", b"\\\\").replace(b"\n", b"\\n")


def render_stat(world, p, thread=None):
    if p.stat_raw is not None and thread is None:
        return p.stat_raw
    f = dict(p.stat)
    f["state"] = "Z" if p.zombie else p.state
    f["ppid"] = p.ppid
    f["tty_nr"] = p.tty_nr
    f["starttime"] = p.start
    f["num_threads"] = 1 if p.zombie else len(p.thread_list())
    f["nice"] = p.nice
    pid, comm = p.pid, p.comm
    if thread is not None:
        pid, comm = thread.tid, thread.comm
        f["state"] = "Z" if p.zombie else thread.state
        f["utime"], f["stime"] = thread.utime, thread.stime
        f.update(thread.extra)
    vals = [str(f[n]) for n in STAT_FIELDS[:p.stat_nfields]]
    return b"%d (%s) %s\n" % (pid, comm, " ".join(vals).encode())


def render_status(world, p, tid=None):
    if p.status_raw is not None:
        return p.status_raw
    st = "Z" if p.zombie else p.state
    ncpu = world.ncpus
    lines = []
    a = lines.append
    a(b"Name:\t" + escape_status_name(p.comm))
    a(b"Umask:\t0022")
    a(("State:\t%s (%s)" % (st, STATE_NAMES.get(st, "unknown"))).encode())
    a(b"Tgid:\t%d" % p.pid)
    a(b"Ngid:\t0")
    a(b"Pid:\t%d" % (tid if tid is not None else p.pid))
    a(b"PPid:\t%d" % p.ppid)
    a(b"TracerPid:\t0")
    a(b"Uid:\t%d\t%d\t%d\t%d" % p.uids)
    a(b"Gid:\t%d\t%d\t%d\t%d" % p.gids)
    a(b"FDSize:\t64")
    a(b"Groups:\t ")
    a(b"NStgid:\t%d" % p.pid)
    a(b"NSpid:\t%d" % p.pid)
    a(b"NSpgid:\t%d" % p.stat["pgrp"])
    a(b"NSsid:\t%d" % p.stat["session"])
    if not p.zombie:
        a(b"VmPeak:\t    9000 kB")
        a(b"VmSize:\t    8000 kB")
        a(b"VmRSS:\t    1000 kB")
    a(b"Threads:\t%d" % (1 if p.zombie else len(p.thread_list())))
    a(b"SigQ:\t0/63432")
    a(b"SigPnd:\t0000000000000000")
    a(b"CapEff:\t000001ffffffffff")
    a(b"Seccomp:\t0")
    mask = (1 << ncpu) - 1
    a(b"Cpus_allowed:\t%x" % mask)
    cal = p.cpus_allowed_list
    if cal is None:
        cal = "0-%d" % (ncpu - 1) if ncpu > 1 else "0"
    if "nocpuslist" not in p.status_extra:       # (the line appeared in 2.6.24)
        a(b"Cpus_allowed_list:\t" + cal.encode())
    a(b"Mems_allowed:\t1")
    a(b"Mems_allowed_list:\t0")
    if "noctx" not in p.status_extra and not getattr(world, "status_noctx", False):      # (the two lines appeared in 2.6.23)
        a(b"voluntary_ctxt_switches:\t%d" % p.vctx)
        a(b"nonvoluntary_ctxt_switches:\t%d" % p.nvctx)
    if "x86tail" in p.status_extra:
        # x86-64 kernels >= 6.6 built with user shadow stacks print two more lines at the very end
        a(b"x86_Thread_features:\t")
        a(b"x86_Thread_features_locked:\t")
    return b"\n".join(lines) + b"\n"


def render_io(world, p):
    if p.io_raw is not None:
        return p.io_raw
    order = ["rchar", "wchar", "syscr", "syscw", "read_bytes", "write_bytes",
             "cancelled_write_bytes"]
    return b"".join(b"%s: %d\n" % (k.encode(), p.io[k]) for k in order)


def render_smaps(world, p):
    return b"".join(m.render() for m in p.maps)


def render_rollup(world, p):
    tot = dict.fromkeys(SMAPS_KEYS, 0)
    for m in p.maps:
        for k in SMAPS_KEYS:
            tot[k] += m.kb[k]
    lo = min([m.start for m in p.maps] or [0])
    hi = max([m.end for m in p.maps] or [0])
    out = [b"%08x-%08x ---p 00000000 00:00 0 " % (lo, hi) + b" " * 26 + b"[rollup]"]
    skip = {"Size", "KernelPageSize", "MMUPageSize"}
    omit_all = set()
    for m in p.maps:
        omit_all |= m.omit
    for k in SMAPS_KEYS:
        if k in skip or k in omit_all:
            continue
        out.append(_kbline(k, tot[k]))
        if k == "Pss" and "Pss_Anon" not in omit_all:
            out.append(b"Pss_Anon:       %8d kB" % (tot["Pss"] // 3))
            out.append(b"Pss_File:       %8d kB" % (tot["Pss"] // 5))
            out.append(b"Pss_Shmem:      %8d kB" % 0)
    return b"\n".join(out) + b"\n"


class Node:
    __slots__ = ("kind", "data", "mode")

    def __init__(self, kind, data=None, mode=None):
        self.kind = kind  # 'f' file, 'd' dir, 'l' link, 'c' char dev
        self.data = data
        self.mode = mode  # None => readable; 'deny' => EACCES on open


class StatResult:
    __slots__ = ("st_mode", "st_rdev", "st_dev", "st_ino", "st_size")

    def __init__(self, mode, rdev=0, dev=2049, ino=1, size=0):
        self.st_mode, self.st_rdev, self.st_dev, self.st_ino, self.st_size = mode, rdev, dev, ino, size


PROC_STATIC = ["stat", "meminfo", "vmstat", "zoneinfo", "cpuinfo", "diskstats", "partitions",
               "filesystems", "net", "self", "uptime"]


# where procfs is mounted in the worlds built from now on (psutil.PROCFS_PATH is set to it by the seams); with another
# mount point nothing answers under /proc, so a path that does not go through get_procfs_path() fails
DEFAULT_PROCFS = "/proc"


class World:
    def __init__(self, ncpus=2, btime=1700000000, jiffies=500000, mypid=77):
        self.ncpus = ncpus
        self.btime = btime          # published in /proc/stat
        self.jiffies = jiffies      # since boot
        self.mono = 1000.0          # virtual monotonic clock
        self.procfs = DEFAULT_PROCFS
        self.mypid = mypid
        self.procs = {}             # pid -> Proc (listed: running or zombie)
        self.tids = {}              # tid -> Proc (extra thread ids, not listed)
        self.nodes = {"/": Node("d")}
        self.children = {"/": set()}
        self.hook = None            # hook(world, kind, subj, pid)
        self.naccess = 0
        self.log = []               # access log [(kind, subj, pid)]
        self.effects = []           # delivered syscalls [(name, pid, args, owner_uid)]
        self.logging = True
        self.sleeps = []
        self.listing_reversed = False
        self.cpu_fields = 10
        self.cpu_times = None       # list per cpu of lists; None => default
        self.cpu_total_override = None
        self.ctxt, self.intr, self.softirq = 12345, 23456, 34567
        self.sysconf_fail = set()
        self.statvfs_result = None
        self.ipv6 = True
        self.dead = {}              # uid -> Proc of reaped incarnations
        self._defaults()

    # ---------------------------------------------------------------- VFS
    def _ensure_parents(self, path):
        parent = _os.path.dirname(path)
        name = _os.path.basename(path)
        if parent != path:
            if parent not in self.nodes:
                self.mkdir(parent)
            self.children.setdefault(parent, set()).add(name)

    def mkdir(self, path):
        path = path.rstrip("/") or "/"
        if path in self.nodes:
            return
        self._ensure_parents(path)
        self.nodes[path] = Node("d")
        self.children.setdefault(path, set())

    def set_file(self, path, data, mode=None):
        self._ensure_parents(path)
        self.nodes[path] = Node("f", data, mode)

    def set_link(self, path, target):
        self._ensure_parents(path)
        self.nodes[path] = Node("l", target)

    def set_dev(self, path, rdev):
        self._ensure_parents(path)
        self.nodes[path] = Node("c", rdev)

    def remove(self, path):
        n = self.nodes.pop(path, None)
        if n is not None:
            self.children.get(_os.path.dirname(path), set()).discard(_os.path.basename(path))
            if n.kind == "d":
                for c in list(self.children.pop(path, ())):
                    self.remove(path + "/" + c)

    def _defaults(self):
        for d in ("/proc", "/proc/net", "/sys", "/dev", "/dev/pts", "/etc", "/bin", "/tmp",
                  "/sys/block", "/sys/class", "/sys/class/power_supply", "/sys/devices/system/cpu"):
            self.mkdir(d)
        self.set_dev("/dev/tty1", 0x0401)
        self.set_dev("/dev/ttyS0", 0x0440)
        self.set_link("/dev/ttyGPS", "/dev/ttyS0")       # (a udev alias: a symbolic link among the tty device nodes)
        self.set_dev("/dev/pts/0", 0x8800)
        # minors >= 256 live in bits 20.. of the device number (and of tty_nr)
        for minor in (1, 4, 255, 256, 1024, 4097):
            self.set_dev("/dev/pts/%d" % minor, 0x8800 | (minor & 0xff) | ((minor & ~0xff) << 12))
        self.set_dev("/dev/null", 0x0103)
        self.set_file("/bin/proc", b"#!")
        self.set_link("/proc/self", "%d" % self.mypid)
        self.set_file("/proc/meminfo", (
            b"MemTotal:       16000000 kB\nMemFree:         4000000 kB\nMemAvailable:    9000000 kB\n"
            b"Buffers:          500000 kB\nCached:          3000000 kB\nSwapCached:            0 kB\n"
            b"Active:          5000000 kB\nInactive:        2000000 kB\nActive(file):    1500000 kB\n"
            b"Inactive(file):  1200000 kB\nSwapTotal:       2000000 kB\nSwapFree:        1500000 kB\n"
            b"Shmem:            300000 kB\nSlab:             700000 kB\nSReclaimable:     400000 kB\n"))
        self.set_file("/proc/vmstat", b"nr_free_pages 1000\npswpin 11\npswpout 13\n")
        self.set_file("/proc/filesystems", b"nodev\tsysfs\nnodev\tproc\n\text4\n\tvfat\n")
        self.set_file("/proc/net/dev", (
            b"Inter-|   Receive                                                |  Transmit\n"
            b" face |bytes    packets errs drop fifo frame compressed multicast|bytes    packets errs drop fifo colls carrier compressed\n"
            b"    lo:     100       2    0    0    0     0          0         0      100       2    0    0    0     0       0          0\n"))
        self.set_file("/proc/diskstats", b"   8       0 sda 10 11 12 13 14 15 16 17 0 19 20 0 0 0 0 0 0\n")
        self.mkdir("/sys/block/sda")
        hdr = b"  sl  local_address rem_address   st tx_queue rx_queue tr tm->when retrnsmt   uid  timeout inode\n"
        for n in ("tcp", "udp"):
            self.set_file("/proc/net/" + n, hdr)
        hdr6 = b"  sl  local_address                         remote_address                        st tx_queue rx_queue tr tm->when retrnsmt   uid  timeout inode\n"
        for n in ("tcp6", "udp6"):
            self.set_file("/proc/net/" + n, hdr6)
        self.set_file("/proc/net/unix", b"Num       RefCount Protocol Flags    Type St Inode Path\n")
        self.set_file("/proc/cpuinfo", lambda w: b"".join(
            b"processor\t: %d\ncpu MHz\t\t: %d.000\nphysical id\t: 0\ncpu cores\t: %d\n\n" % (i, 2000 + i, w.ncpus)
            for i in range(w.ncpus)))
        self.set_file("/proc/stat", lambda w: w.render_proc_stat())

    def render_proc_stat(self):
        n = self.cpu_fields
        per = self.cpu_times
        if per is None:
            per = [[(c + 1) * 1000 + 10 * i for i in range(10)] for c in range(self.ncpus)]
        tot = self.cpu_total_override
        if tot is None:
            tot = [sum(c[i] for c in per) for i in range(10)]
        out = [b"cpu  " + b" ".join(b"%d" % v for v in tot[:n])]
        ids = getattr(self, "online_cpu_ids", None) or range(len(per))      # hot-unplugged CPUs leave holes in the numbering
        for i, c in zip(ids, per):
            out.append(b"cpu%d " % i + b" ".join(b"%d" % v for v in c[:n]))
        out.append(b"intr %d 1 2 3" % self.intr)
        out.append(b"ctxt %d" % self.ctxt)
        out.append(b"btime %d" % self.btime)
        out.append(b"processes 4242")
        out.append(b"procs_running 1")
        out.append(b"procs_blocked 0")
        out.append(b"softirq %d 9 8 7" % self.softirq)
        return b"\n".join(out) + b"\n"

    # ------------------------------------------------------------ processes
    def spawn(self, pid, **kw):
        assert pid not in self.procs, pid
        kw.setdefault("start", self.jiffies)
        p = Proc(pid, **kw)
        self.procs[pid] = p
        return p

    def exit(self, pid, wstatus=0):
        """running -> zombie"""
        p = self.procs[pid]
        p.zombie = True
        p.wstatus = wstatus
        # children get re-parented to init
        for q in self.procs.values():
            if q.ppid == pid and q is not p:
                q.ppid = 1
        for t in [t for t, q in self.tids.items() if q is p]:
            del self.tids[t]

    def reap(self, pid):
        p = self.procs.pop(pid)
        self.dead[p.uid] = p
        for t in [t for t, q in self.tids.items() if q is p]:
            del self.tids[t]
        for q in self.procs.values():
            if q.ppid == pid:
                q.ppid = 1
        return p

    def vanish(self, pid):
        """exit + reap at once (non-child processes reaped by their parent)."""
        if pid in self.procs:
            if not self.procs[pid].zombie:
                self.exit(pid, 0)
            self.reap(pid)

    def tick(self, n=1):
        self.jiffies += n
        self.mono += n / CLK_TCK

    def now(self):
        return self.btime + self.jiffies / CLK_TCK

    def owner_uid(self, pid):
        p = self.procs.get(pid) or self.tids.get(pid)
        return p.uid if p is not None else None

    # --------------------------------------------------------------- access
    def point(self, kind, subj, pid=None):
        self.naccess += 1
        if self.logging:
            self.log.append((kind, subj, pid))
        h = self.hook
        if h is not None:
            h(self, kind, subj, pid)

    @staticmethod
    def split_proc(path):
        """'/proc/12/fd/3' -> (12, 'fd/3'); non-process path -> (None, None)"""
        if path.startswith("/proc/"):
            rest = path[6:]
            head, _, tail = rest.partition("/")
            if head.isdigit():
                return int(head), tail
        return None, None

    def xlate(self, path):
        """caller's path -> path inside the model (procfs lives at /proc there, wherever it is mounted for the caller)"""
        m = self.procfs
        if m == "/proc" or not isinstance(path, str):
            return path
        mm = m.rstrip("/") or "/"
        if path == m or path == mm or path.startswith(mm + "/"):
            rest = path[len(mm):]
            while rest.startswith("//"):
                rest = rest[1:]            # (a mount point spelt with a trailing slash gives paths with a doubled one)
            return "/proc" + (rest if rest != "/" else "")
        if path == "/proc" or path.startswith("/proc/"):
            return "/.nothing-mounted-on-proc" + path[5:]
        return path

    def unxlate(self, path):
        m = self.procfs
        if m != "/proc" and isinstance(path, str) and (path == "/proc" or path.startswith("/proc/")):
            return m + path[5:]
        return path

    def resolve(self, path, follow=True, depth=0):
        """Resolve symlinks in the static VFS (component-wise)."""
        if depth > 8:
            raise oserr(errno.ELOOP, path)
        # NAME_MAX / PATH_MAX: the kernel refuses such a name before looking anything up
        try:
            raw = path.encode("utf-8", "surrogateescape")
        except Exception:  # noqa: BLE001
            raw = b""
        if len(raw) > 4095 or any(len(c) > 255 for c in raw.split(b"/")):
            raise oserr(errno.ENAMETOOLONG, path)
        path = _os.path.normpath(path)
        if path.startswith("//"):
            path = path[1:]
        if self.split_proc(path)[0] is not None:
            return path
        parts = [x for x in path.split("/") if x]
        cur = ""
        for i, comp in enumerate(parts):
            cur = cur + "/" + comp
            n = self.nodes.get(cur)
            if n is None:
                raise oserr(errno.ENOENT, path)
            last = i == len(parts) - 1
            if n.kind == "l" and (follow or not last):
                tgt = n.data
                if not tgt.startswith("/"):
                    tgt = _os.path.dirname(cur) + "/" + tgt
                rest = "/".join(parts[i + 1:])
                return self.resolve(tgt + ("/" + rest if rest else ""), follow, depth + 1)
            if not last and n.kind != "d":
                raise oserr(errno.ENOTDIR, path)
        return cur or "/"

    # --- /proc/<pid> semantics (calibrated against the real kernel)
    def _task(self, pid):
        """Return (Proc, is_tid)"""
        p = self.procs.get(pid)
        if p is not None:
            return p, False
        p = self.tids.get(pid)
        if p is not None:
            return p, True
        return None, False

    PROC_FILES = ("stat", "status", "io", "statm", "cmdline", "environ", "smaps",
                  "smaps_rollup", "comm", "limits")

    def proc_kind(self, path):
        """Classify a /proc/<pid>/... path -> ('dir'|'file'|'link', proc, tail, tid)
        or raise ENOENT."""
        pid, tail = self.split_proc(path)
        p, is_tid = self._task(pid)
        if p is None:
            raise oserr(errno.ENOENT, path)
        tid = pid if is_tid else None
        if tail == "":
            return "dir", p, tail, tid
        if getattr(p, "halfgone", False):
            # exiting task (psutil issue #2418): the /proc/<pid> entry is still there, nothing inside it is
            raise oserr(errno.ENOENT, path)
        if tail in self.PROC_FILES:
            return "file", p, tail, tid
        if tail in ("exe", "cwd", "root"):
            return "link", p, tail, tid
        if tail in ("fd", "fdinfo", "task"):
            return "dir", p, tail, tid
        comps = tail.split("/")
        if comps[0] == "fd" and len(comps) == 2:
            if p.zombie or not comps[1].isdigit() or int(comps[1]) not in p.fds:
                raise oserr(errno.ENOENT, path)
            return "link", p, tail, tid
        if comps[0] == "fdinfo" and len(comps) == 2:
            if p.zombie or not comps[1].isdigit() or int(comps[1]) not in p.fds:
                raise oserr(errno.ENOENT, path)
            return "file", p, tail, tid
        if comps[0] == "task":
            if not comps[1].isdigit():
                raise oserr(errno.ENOENT, path)
            t = int(comps[1])
            ths = [th for th in p.thread_list() if th.tid == t]
            if not ths or (p.zombie and t != p.pid):
                raise oserr(errno.ENOENT, path)
            if len(comps) == 2:
                return "dir", p, tail, tid
            if len(comps) == 3 and comps[2] in ("stat", "status", "comm"):
                return "file", p, tail, tid
        raise oserr(errno.ENOENT, path)

    def proc_listdir(self, path):
        kind, p, tail, tid = self.proc_kind(path)
        if kind != "dir":
            raise oserr(errno.ENOTDIR, path)
        if tail == "" and getattr(p, "halfgone", False):
            return []
        if tail == "":
            return ["task", "fd", "fdinfo", "environ", "status", "stat", "statm", "cmdline",
                    "smaps", "smaps_rollup", "io", "exe", "cwd", "root", "comm", "limits"]
        if tail in ("fd", "fdinfo"):
            if p.zombie:
                return []
            return [str(k) for k in sorted(p.fds)]
        if tail == "task":
            if p.zombie:
                return [str(p.pid)]
            return [str(t.tid) for t in p.thread_list()]
        return ["stat", "status", "comm"]

    def proc_readlink(self, path):
        kind, p, tail, tid = self.proc_kind(path)
        if kind != "link":
            raise oserr(errno.EINVAL, path)
        if p.zombie:
            raise oserr(errno.ENOENT, path)
        if tail in ("exe", "cwd"):
            if tail in p.denied:
                raise oserr(errno.EACCES, path)
            v = getattr(p, tail)
            if v is None:
                # the kernel withholds the link of a live task: ENOENT, or ESRCH (psutil issues 503 / 2514)
                raise oserr(errno.ESRCH if tail in getattr(p, "link_esrch", ()) else errno.ENOENT, path)
            return v
        if tail == "root":
            return "/"
        fd = int(tail.split("/")[1])
        return p.fds[fd].target

    def proc_open_check(self, path):
        """Errors raised by open() itself on a /proc/<pid> file."""
        kind, p, tail, tid = self.proc_kind(path)
        if kind == "dir":
            raise oserr(errno.EISDIR, path)
        if kind == "link":
            raise oserr(errno.ENOENT, path)
        if tail in p.denied:
            raise oserr(errno.EACCES, path)
        once = getattr(p, "fail_once", None)
        if once and tail in once:
            raise oserr(once.pop(tail), path)       # a one-shot resource failure (EMFILE/ENOMEM) of this very open()
        if p.zombie and tail in ("environ", "smaps_rollup"):
            raise oserr(errno.ESRCH, path)
        if tail == "smaps_rollup" and not p.rollup:
            raise oserr(errno.ENOENT, path)
        return p, tail, tid

    def proc_read(self, p, tail, tid, path):
        """Content at read() time for an already opened file of incarnation p."""
        live = self.procs.get(p.pid) is p or (tid is not None and self.tids.get(tid) is p)
        if live and getattr(p, "dying", False):
            # a task that is exiting: its /proc entries can still be opened, every read answers ESRCH
            raise oserr(errno.ESRCH, path)
        if not live:
            if tail == "environ":
                return b""
            raise oserr(errno.ESRCH, path)
        if tail == "stat":
            if tid is not None:
                th = [t for t in p.thread_list() if t.tid == tid]
                return render_stat(self, p, th[0] if th else None)
            return render_stat(self, p)
        if tail == "status":
            return render_status(self, p, tid)
        if tail == "io":
            return render_io(self, p)
        if tail == "statm":
            if p.zombie:
                return b"0 0 0 0 0 0 0\n"
            return b" ".join(b"%d" % v for v in p.statm) + b"\n"
        if tail == "cmdline":
            return b"" if p.zombie else p.cmdline
        if tail == "environ":
            return b"" if p.zombie else p.environ      # mm gone: empty read
        if tail == "smaps":
            return b"" if p.zombie else render_smaps(self, p)
        if tail == "smaps_rollup":
            if p.zombie or p.rollup == "esrch-read":
                # show_smaps_rollup: !mmget_not_zero -- open() had succeeded; also seen for live processes (psutil's own
                # comment in memory_full_info: "may fail with ESRCH on a number of live processes")
                raise oserr(errno.ESRCH, path)
            return render_rollup(self, p)
        if tail == "comm":
            return p.comm + b"\n"
        if tail == "limits":
            return b"Limit  Soft Limit  Hard Limit  Units\n"
        comps = tail.split("/")
        if comps[0] == "fdinfo":
            fd = int(comps[1])
            if fd not in p.fds or p.zombie:
                raise oserr(errno.ENOENT, path)   # kernel: read of closed fd's fdinfo -> ENOENT
            f = p.fds[fd]
            return b"pos:\t%d\nflags:\t0%o\nmnt_id:\t29\nino:\t%d\n" % (f.pos, f.flags, 1000 + fd) + f.extra
        if comps[0] == "task":
            t = int(comps[1])
            th = [x for x in p.thread_list() if x.tid == t]
            if not th:
                raise oserr(errno.ESRCH, path)
            if comps[2] == "stat":
                return render_stat(self, p, th[0])
            if comps[2] == "status":
                return render_status(self, p, t)
            return th[0].comm + b"\n"
        raise oserr(errno.ENOENT, path)

    def target_stat(self, target):
        """stat() of an fd link target / arbitrary static path."""
        n = self.nodes.get(target)
        if n is None:
            raise oserr(errno.ENOENT, target)
        return n


# ------------------------------------------------------------------ World extras
def _world_defaults(w):
    w.sysinfo = (16000000 * 1024, 4000000 * 1024, 500000 * 1024, 300000 * 1024,
                 2000000 * 1024, 1500000 * 1024, 1)
    w.users = []
    w.partitions = []
    w.if_addrs = []
    w.ifaces = {}
    w.events = []          # [(mono_time, seq, fn)]
    w._seq = 0
    w._overshoot = 0.0
    w.kill_exits = False


def _if_info(self, name):
    try:
        return self.ifaces[name]
    except KeyError:
        raise oserr(errno.ENODEV)


def _eligible(self, p):
    return list(range(self.ncpus))


def _on_signal(self, p, sig):
    if self.kill_exits and sig in (9, 15) and not p.zombie:
        self.exit(p.pid, sig)


def _at(self, t, fn):
    self._seq += 1
    self.events.append((t, self._seq, fn))
    self.events.sort(key=lambda e: (e[0], e[1]))


def _advance(self, dt):
    target = self.mono + dt
    while self.events and self.events[0][0] <= target:
        t, _, fn = self.events.pop(0)
        if t > self.mono:
            self.jiffies += int(round((t - self.mono) * CLK_TCK))
            self.mono = t
        fn(self)
    if target > self.mono:
        self.jiffies += int(round((target - self.mono) * CLK_TCK))
        self.mono = target


def _sleep_overshoot(self):
    return self._overshoot


class Hang(Exception):
    """A blocking call that can never return in this world."""


def _do_waitpid(self, pid, flags):
    if pid <= 0:
        raise EscapeError("waitpid(%d)" % pid)
    p = self.procs.get(pid)
    if p is None or not p.is_child:
        raise oserr(errno.ECHILD)
    while not p.zombie:
        if flags & _os.WNOHANG:
            return (0, 0)
        if not self.events:
            raise Hang("waitpid(%d) would block forever" % pid)
        t = self.events[0][0]
        self.advance(max(0.0, t - self.mono))
    self.reap(pid)
    return (pid, p.wstatus)


World.if_info = _if_info
World.eligible_cpus = _eligible
World.on_signal = _on_signal
World.at = _at
World.advance = _advance
World.sleep_overshoot = _sleep_overshoot
World.do_waitpid = _do_waitpid
_orig_init = World.__init__


def _init(self, *a, **k):
    _world_defaults(self)
    _orig_init(self, *a, **k)


World.__init__ = _init


