"""Seams: rebind the module-level names through which psutil reaches the OS
(`os`, `glob`, `time`, `resource`, `open`, `cext`, `cext_posix`, timer defaults)
to a simulated kernel (World).  No source change in /repo is needed.

    import psutil
    S = Seams(psutil); S.install(world) ... S.reset_psutil() ... S.uninstall()
"""
import errno
import fnmatch
import io
import os as real_os
import stat as _stat
import sys
import types

from .world import World, oserr, StatResult, CLK_TCK, PAGESIZE, Hang

INT_MAX = 2 ** 31 - 1
INT_MIN = -2 ** 31


class EscapeError(AssertionError):
    """psutil reached the real OS through a name that is not routed."""


def _c_int(v, what="int"):
    if isinstance(v, bool):
        v = int(v)
    if not isinstance(v, int):
        if hasattr(v, "__index__"):
            v = v.__index__()
        else:
            raise TypeError("'%s' object cannot be interpreted as an integer" % type(v).__name__)
    if v > INT_MAX:
        raise OverflowError("signed integer is greater than maximum")
    if v < INT_MIN:
        raise OverflowError("signed integer is less than minimum")
    return v


class SimRaw(io.RawIOBase):
    """Raw file whose content is produced at the first read()."""

    def __init__(self, world, path, producer, pid):
        super().__init__()
        self._w, self._path, self._producer, self._pid = world, path, producer, pid
        self._buf = None
        self._off = 0
        # every open file is a descriptor of the calling process: RLIMIT_NOFILE applies (EMFILE)
        world.nopen = getattr(world, "nopen", 0) + 1
        self._counted = True
        if world.nopen > getattr(world, "nofile_limit", 1024) - 16:          # (16 descriptors are in use by the interpreter anyway)
            world.nopen -= 1
            self._counted = False
            raise oserr(errno.EMFILE, path)

    def close(self):
        if getattr(self, "_counted", False):
            self._counted = False
            self._w.nopen -= 1
        super().close()

    def readable(self):
        return True

    def readinto(self, b):
        if self._buf is None:
            self._w.point("read", self._path, self._pid)
            try:
                self._buf = self._producer()
            except OSError as e:
                # opt-in fidelity (world.bare_read_errors): an error of read(2) is raised by Python WITHOUT a file name
                # (only open()/stat()/readlink() errors carry one); the default keeps the name, as before
                if getattr(self._w, "bare_read_errors", False) and e.filename is not None:
                    raise OSError(e.errno, e.strerror) from None
                raise
        n = min(len(b), len(self._buf) - self._off)
        b[:n] = self._buf[self._off:self._off + n]
        self._off += n
        return n


class FakePath:
    def __init__(self, fos):
        self._os = fos

    def __getattr__(self, name):
        if name in ("join", "basename", "dirname", "isabs", "normpath", "split", "splitext", "sep"):
            return getattr(real_os.path, name)
        raise EscapeError("os.path.%s not routed" % name)

    def exists(self, path):
        try:
            self._os.stat(path)
        except (OSError, ValueError):
            return False
        return True

    def lexists(self, path):
        try:
            self._os.lstat(path)
        except (OSError, ValueError):
            return False
        return True

    def isfile(self, path):
        try:
            st = self._os.stat(path)
        except (OSError, ValueError):
            return False
        return _stat.S_ISREG(st.st_mode)

    def isdir(self, path):
        try:
            st = self._os.stat(path)
        except (OSError, ValueError):
            return False
        return _stat.S_ISDIR(st.st_mode)

    def islink(self, path):
        try:
            st = self._os.lstat(path)
        except (OSError, ValueError):
            return False
        return _stat.S_ISLNK(st.st_mode)

    def realpath(self, path):
        w = self._os._w
        try:
            return w.resolve(path)
        except OSError:
            return path


_PASS = {"O_RDONLY", "O_WRONLY", "O_RDWR", "O_APPEND", "O_CREAT", "O_TRUNC", "O_CLOEXEC",
         "O_NONBLOCK", "WNOHANG", "F_OK", "X_OK", "R_OK", "W_OK", "WIFEXITED", "WEXITSTATUS",
         "WIFSIGNALED", "WTERMSIG", "WIFSTOPPED", "fsdecode", "fsencode", "major", "minor", "makedev",
         "name", "sep", "strerror", "PRIO_PROCESS", "environ", "fspath", "PathLike", "linesep",
         "devnull", "error"}


class FakeOS:
    def __init__(self, world):
        self._w = world
        self.path = FakePath(self)

    def __getattr__(self, name):
        if name in _PASS:
            arch = getattr(self._w, "oflags", None)
            if arch and name in arch:
                return arch[name]          # open(2) flag numbering of another Linux port (mips, alpha, sparc ...)
            return getattr(real_os, name)
        raise EscapeError("os.%s not routed" % name)

    # -- helpers
    def _s(self, path):
        if isinstance(path, bytes):
            return self._w.xlate(path.decode("utf-8", "surrogateescape")), True
        if "\0" in path:
            raise ValueError("embedded null byte")
        return self._w.xlate(path), False

    def getpid(self):
        return self._w.mypid

    def sysconf(self, name):
        if name in self._w.sysconf_fail:
            raise ValueError("unrecognized configuration name")
        if name == "SC_CLK_TCK":
            return CLK_TCK
        if name == "SC_NPROCESSORS_ONLN":
            return self._w.ncpus
        if name == "SC_PAGE_SIZE":
            return PAGESIZE
        raise EscapeError("sysconf(%r)" % (name,))

    def listdir(self, path="."):
        w = self._w
        p, isb = self._s(path)
        pid, tail = w.split_proc(p)
        w.point("listdir", p, pid)
        if pid is not None:
            names = w.proc_listdir(p)
        else:
            rp = w.resolve(p)
            pid2, _ = w.split_proc(rp)
            if pid2 is not None:
                names = w.proc_listdir(rp)
            else:
                n = w.nodes.get(rp)
                if n is None:
                    raise oserr(errno.ENOENT, p)
                if n.kind != "d":
                    raise oserr(errno.ENOTDIR, p)
                if n.mode == "deny":
                    raise oserr(errno.EACCES, p)
                names = sorted(w.children.get(rp, ()))
                if rp == "/proc":
                    pids = sorted(w.procs, reverse=w.listing_reversed)
                    names = names + [str(x) for x in pids]
        if isb:
            return [x.encode("utf-8", "surrogateescape") for x in names]
        return list(names)

    def readlink(self, path):
        w = self._w
        p, isb = self._s(path)
        pid, tail = w.split_proc(p)
        w.point("readlink", p, pid)
        if pid is not None:
            return w.proc_readlink(p)
        rp = w.resolve(p, follow=False)
        n = w.nodes.get(rp)
        if n is None:
            raise oserr(errno.ENOENT, p)
        if n.kind != "l":
            raise oserr(errno.EINVAL, p)
        return n.data

    def _stat(self, path, follow):
        w = self._w
        p, isb = self._s(path)
        pid, tail = w.split_proc(p)
        w.point("stat", p, pid)
        if pid is None:
            rp = w.resolve(p, follow=follow)
            pid, tail = w.split_proc(rp)
            if pid is not None:
                p = rp
        if pid is not None:
            kind, pr, tail, tid = w.proc_kind(p)
            if kind == "dir":
                return StatResult(_stat.S_IFDIR | 0o555)
            if kind == "file":
                return StatResult(_stat.S_IFREG | 0o444)
            if not follow:
                return StatResult(_stat.S_IFLNK | 0o777)
            tgt = w.proc_readlink(p)
            return self._stat_static(tgt, True)
        return self._stat_static(rp, follow, resolved=True)

    def _stat_static(self, p, follow, resolved=False):
        w = self._w
        rp = p if resolved else w.resolve(p, follow=follow)
        n = w.nodes.get(rp)
        if n is None:
            raise oserr(errno.ENOENT, p)
        if n.mode == "statdeny":
            raise oserr(errno.EACCES, p)
        if n.kind == "d":
            return StatResult(_stat.S_IFDIR | 0o755)
        if n.kind == "f":
            return StatResult(_stat.S_IFREG | 0o644)
        if n.kind == "c":
            return StatResult(_stat.S_IFCHR | 0o600, rdev=n.data)
        if n.kind == "l":
            return StatResult(_stat.S_IFLNK | 0o777)
        raise oserr(errno.ENOENT, p)

    def stat(self, path, **kw):
        return self._stat(path, True)

    def lstat(self, path, **kw):
        return self._stat(path, False)

    def access(self, path, mode):
        w = self._w
        p, _ = self._s(path)
        w.point("access", p, None)
        try:
            rp = w.resolve(p)
        except OSError:
            return False
        n = w.nodes.get(rp)
        if n is None:
            return False
        if mode & real_os.X_OK and n.kind == "f" and n.mode == "noexec":
            return False
        return True

    def walk(self, top):
        names = self.listdir(top)
        dirs, files = [], []
        for n in names:
            (dirs if self.path.isdir(top + "/" + n) else files).append(n)
        yield top, dirs, files
        for d in dirs:
            yield from self.walk(top + "/" + d)

    def statvfs(self, path):
        w = self._w
        w.point("statvfs", path, None)
        if w.statvfs_result is None:
            raise oserr(errno.ENOENT, path)
        return w.statvfs_result

    # -- signals / wait
    def kill(self, pid, sig):
        w = self._w
        pid = _c_int(pid)
        sig = _c_int(sig)
        w.point("kill", (pid, sig), pid if pid > 0 else None)
        if pid <= 0:
            w.effects.append(("kill", pid, (sig,), None))
            return
        if sig < 0 or sig > 64:
            raise oserr(errno.EINVAL)        # (checked before the pid is looked up)
        p, is_tid = w._task(pid)
        if p is None:
            raise oserr(errno.ESRCH)
        if "kill" in p.denied:
            raise oserr(errno.EPERM)
        w.effects.append(("kill", pid, (sig,), p.uid))        # (signal 0 = existence probe: logged, no effect)
        if sig != 0:
            w.on_signal(p, sig)

    def waitpid(self, pid, flags):
        w = self._w
        pid = _c_int(pid)
        flags = _c_int(flags)
        w.point("waitpid", (pid, flags), pid)
        return w.do_waitpid(pid, flags)


class FakeGlob:
    def __init__(self, world):
        self._w = world

    def glob(self, pattern):
        w = self._w
        if w.procfs != "/proc":
            pattern = w.xlate(pattern)
            return [w.unxlate(x) for x in self._glob(pattern)]
        return self._glob(pattern)

    def _glob(self, pattern):
        w = self._w
        w.point("glob", pattern, None)
        parts = [x for x in pattern.split("/") if x]
        cur = [""]
        for i, comp in enumerate(parts):
            nxt = []
            for base in cur:
                d = base or "/"
                try:
                    rd = w.resolve(d)
                except OSError:
                    continue
                n = w.nodes.get(rd)
                if n is None or n.kind != "d":
                    continue
                names = sorted(w.children.get(rd, ()))
                if any(c in comp for c in "*?["):
                    for nm in names:
                        if fnmatch.fnmatchcase(nm, comp) and not (nm.startswith(".") and not comp.startswith(".")):
                            nxt.append(base + "/" + nm)
                else:
                    if comp in names:
                        nxt.append(base + "/" + comp)
            cur = nxt
        return cur

    def iglob(self, pattern):
        return iter(self.glob(pattern))


class FakeTime:
    def __init__(self, world):
        self._w = world

    def monotonic(self):
        self._w.point("time", "monotonic", None)
        return self._w.mono

    def time(self):
        return self._w.now()

    def sleep(self, secs):
        w = self._w
        w.point("sleep", secs, None)
        w.sleeps.append(secs)
        w.advance(secs + w.sleep_overshoot())

    def __getattr__(self, name):
        raise EscapeError("time.%s not routed" % name)


class FakeResource:
    def __init__(self, world, real):
        self._w, self._real = world, real

    def __getattr__(self, name):
        if name.startswith("RLIM"):
            return getattr(self._real, name)
        raise EscapeError("resource.%s not routed" % name)

    # the calling process's own limits (what a code path without prlimit(2) would have to use)
    def getrlimit(self, res):
        w = self._w
        w.point("syscall:getrlimit", (res,), w.mypid)
        return w.procs[w.mypid].rlimits.get(res, (1024, 4096))

    def setrlimit(self, res, limits):
        w = self._w
        w.point("syscall:setrlimit", (res, limits), w.mypid)
        w.effects.append(("prlimit", w.mypid, (res, tuple(limits)), w.procs[w.mypid].uid))
        w.procs[w.mypid].rlimits[res] = tuple(limits)

    def prlimit(self, pid, res, limits=None):
        w = self._w
        pid = _c_int(pid)
        res = _c_int(res)
        w.point("syscall:prlimit", (pid, res, limits), pid if pid > 0 else None)
        if getattr(w, "prlimit_enosys", False):
            raise oserr(errno.ENOSYS)         # a kernel older than 2.6.36 / a seccomp filter: no prlimit(2)
        if limits is not None:
            limits = tuple(limits)
            if len(limits) != 2:
                raise ValueError("expected a tuple of 2 integers")
        if res < 0 or res >= 16:
            raise ValueError("invalid resource specified")
        if pid == 0:
            w.effects.append(("prlimit", 0, (res, limits), None))
            return (0, 0)
        p, _ = w._task(pid)
        if p is None:
            raise oserr(errno.ESRCH)
        if "prlimit" in p.denied:
            raise oserr(errno.EPERM)
        old = p.rlimits.get(res, (1024, 4096))
        if limits is not None:
            w.effects.append(("prlimit", pid, (res, limits), p.uid))
            p.rlimits[res] = limits
        return old


class CextProxy:
    def __init__(self, world, real, routed):
        self.__dict__["_w"] = world
        self.__dict__["_real"] = real
        self.__dict__["_routed"] = routed

    def __getattr__(self, name):
        r = self.__dict__["_routed"]
        if name in r:
            return r[name]
        return getattr(self.__dict__["_real"], name)


def _fmt_cpulist(cpus):
    out, i = [], 0
    while i < len(cpus):
        j = i
        while j + 1 < len(cpus) and cpus[j + 1] == cpus[j] + 1:
            j += 1
        out.append("%d" % cpus[i] if i == j else "%d-%d" % (cpus[i], cpus[j]))
        i = j + 1
    return ",".join(out)


def _mk_routed(w):
    def find(pid, what):
        pid = _c_int(pid)
        w.point("syscall:" + what, pid, pid if pid > 0 else None)
        p, _ = w._task(pid)
        if p is None:
            raise oserr(errno.ESRCH)
        if what in p.denied:
            raise oserr(errno.EPERM)
        return pid, p

    def getpriority(pid):
        pid, p = find(pid, "getpriority")
        return p.nice

    def setpriority(pid, value):
        value = _c_int(value)
        pid, p = find(pid, "setpriority")
        w.effects.append(("setpriority", pid, (value,), p.uid))
        p.nice = max(-20, min(19, value))

    def proc_ioprio_get(pid):
        pid, p = find(pid, "ioprio_get")
        return p.ioprio

    def proc_ioprio_set(pid, ioclass, value):
        ioclass = _c_int(ioclass)
        value = _c_int(value)
        pid, p = find(pid, "ioprio_set")
        if ioclass < 0 or ioclass > 3:
            raise oserr(errno.EINVAL)
        w.effects.append(("ioprio_set", pid, (ioclass, value), p.uid))
        p.ioprio = (ioclass, value)

    def proc_cpu_affinity_get(pid):
        pid, p = find(pid, "affinity_get")
        if p.affinity is None:
            return list(range(w.ncpus))
        return sorted(p.affinity)

    def proc_cpu_affinity_set(pid, cpus):
        if not isinstance(cpus, (list, tuple)):
            raise TypeError("sequence argument expected, got %r" % type(cpus))
        cpus = [int(c) for c in cpus]
        if -1 in cpus:
            raise ValueError("invalid CPU value")
        # glibc's CPU_SET() silently ignores indexes outside cpu_set_t (1024 bits)
        cpus = [c for c in cpus if 0 <= c < 1024]
        pid, p = find(pid, "affinity_set")
        eff = set(cpus) & set(w.eligible_cpus(p))
        if not eff:
            raise oserr(errno.EINVAL)
        w.effects.append(("affinity_set", pid, (tuple(sorted(set(cpus))),), p.uid))
        p.affinity = eff
        # the kernel's Cpus_allowed_list is the task's *current* mask
        p.cpus_allowed_list = _fmt_cpulist(sorted(eff))

    def linux_sysinfo():
        w.point("syscall:sysinfo", None, None)
        return w.sysinfo

    def users():
        w.point("syscall:users", None, None)
        return list(w.users)

    def disk_partitions(path):
        w.point("syscall:disk_partitions", path, None)
        return list(w.partitions)

    def net_if_addrs():
        w.point("syscall:net_if_addrs", None, None)
        return list(w.if_addrs)

    def net_if_mtu(name):
        w.point("syscall:net_if_mtu", name, None)
        return w.if_info(name)["mtu"]

    def net_if_flags(name):
        w.point("syscall:net_if_flags", name, None)
        return list(w.if_info(name)["flags"])

    def net_if_is_running(name):
        return "running" in w.if_info(name)["flags"]

    def net_if_duplex_speed(name):
        w.point("syscall:net_if_duplex_speed", name, None)
        i = w.if_info(name)
        return (i["duplex"], i["speed"])

    linux = dict(proc_ioprio_get=proc_ioprio_get, proc_ioprio_set=proc_ioprio_set,
                 proc_cpu_affinity_get=proc_cpu_affinity_get, proc_cpu_affinity_set=proc_cpu_affinity_set,
                 linux_sysinfo=linux_sysinfo, users=users, disk_partitions=disk_partitions,
                 net_if_duplex_speed=net_if_duplex_speed)
    posix = dict(getpriority=getpriority, setpriority=setpriority, net_if_addrs=net_if_addrs,
                 net_if_mtu=net_if_mtu, net_if_flags=net_if_flags, net_if_is_running=net_if_is_running)
    return linux, posix


def make_open(world):
    def fake_open(file, mode="r", buffering=-1, encoding=None, errors=None, newline=None,
                  closefd=True, opener=None):
        w = world
        if isinstance(file, bytes):
            file = file.decode("utf-8", "surrogateescape")
        if not isinstance(file, str):
            raise EscapeError("open(%r)" % (file,))
        if "\0" in file:
            raise ValueError("embedded null byte")
        if any(c in mode for c in "wax+"):
            raise EscapeError("open(%r, %r)" % (file, mode))
        file = w.xlate(file)
        pid, tail = w.split_proc(file)
        w.point("open", file, pid)
        path = file
        if pid is None:
            path = w.resolve(file)
            pid2, tail = w.split_proc(path)
            if pid2 is not None:
                pid = pid2
        if pid is not None:
            p, tail, tid = w.proc_open_check(path)
            producer = lambda: w.proc_read(p, tail, tid, path)
        else:
            n = w.nodes.get(path)
            if n is None:
                raise oserr(errno.ENOENT, file)
            if n.kind == "d":
                raise oserr(errno.EISDIR, file)
            if n.mode == "deny":
                raise oserr(errno.EACCES, file)
            if n.mode == "eio":
                def producer():
                    raise oserr(errno.EIO, file)
            else:
                data = n.data

                def producer():
                    d = data(w) if callable(data) else data
                    if d is None:
                        raise oserr(errno.ENODEV, file)
                    return d
        raw = SimRaw(w, file, producer, pid)
        bs = buffering if buffering and buffering > 0 else 8192
        buf = io.BufferedReader(raw, bs)
        if "b" in mode:
            return buf
        return io.TextIOWrapper(buf, encoding=encoding or "utf-8", errors=errors, newline=newline)
    return fake_open


class Seams:
    MODS = ("psutil", "psutil._common", "psutil._pslinux", "psutil._psposix")

    def __init__(self):
        import psutil
        import psutil._common
        import psutil._pslinux
        import psutil._psposix
        self.psutil = psutil
        self.mods = [sys.modules[m] for m in self.MODS]
        self.saved = {}
        self.real_cext = psutil._pslinux.cext
        self.real_cext_posix = psutil._pslinux.cext_posix
        self.real_resource = psutil._pslinux.resource
        self.world = None
        self._wait_defaults = psutil._psposix.wait_pid.__defaults__
        self._orig_timer = psutil._timer
        # snapshot of module-level mutables at import time
        self._import_state = dict(
            scputimes=psutil._pslinux.scputimes,
        )
        self._snapshot_pristine()

    # -- generic part of reset_psutil(): whatever module-level data or mutable default argument the code under test keeps
    #    memory in -- including state a *changed* tree introduces -- is put back to what it was right after import, so that an
    #    execution depends on its own history only (explorer H re-builds every state from scratch in a long-lived worker)
    _DATA = (type(None), bool, int, float)

    def _snapshot_pristine(self):
        import copy
        import types
        self._pristine, self._pristine_names, self._pristine_defaults = [], {}, []
        self._pristine_fattrs, self._pristine_cells = [], []
        seen, seen_attrs = set(), set()
        for m in self.mods:
            self._pristine_names[m.__name__] = set(vars(m))
            for k, v in list(vars(m).items()):
                if k.startswith("__"):
                    continue
                if isinstance(v, (dict, list, set)):
                    try:
                        self._pristine.append((m, k, copy.deepcopy(v), True))
                    except Exception:  # noqa: BLE001
                        pass
                elif isinstance(v, self._DATA):
                    self._pristine.append((m, k, v, False))
            fns = []
            for v in list(vars(m).values()):
                if isinstance(v, types.FunctionType):
                    fns.append(v)
                elif isinstance(v, type) and v.__module__ == m.__name__:
                    for a in list(vars(v).values()):
                        a = getattr(a, "__func__", a)
                        if isinstance(a, types.FunctionType):
                            fns.append(a)
            for f in fns:
                g = f
                while g is not None and id(g) not in seen_attrs:
                    seen_attrs.add(id(g))
                    try:
                        self._pristine_fattrs.append((g, copy.deepcopy({k: v for k, v in g.__dict__.items()
                                                                       if k != "__wrapped__" and not callable(v)})))
                    except Exception:  # noqa: BLE001
                        pass
                    for cell in (g.__closure__ or ()):
                        try:
                            v = cell.cell_contents
                        except ValueError:
                            continue
                        if isinstance(v, (dict, list, set)) and id(cell) not in seen_attrs:
                            seen_attrs.add(id(cell))
                            try:
                                self._pristine_cells.append((cell, copy.deepcopy(v)))
                            except Exception:  # noqa: BLE001
                                pass
                    g = getattr(g, "__wrapped__", None)
                while f is not None and id(f) not in seen:
                    seen.add(id(f))
                    d = f.__defaults__
                    if d and any(isinstance(x, (dict, list, set)) for x in d):
                        try:
                            self._pristine_defaults.append((f, copy.deepcopy(d)))
                        except Exception:  # noqa: BLE001
                            pass
                    f = getattr(f, "__wrapped__", None)

    def _restore_pristine(self):
        import copy
        for cell, d in self._pristine_cells:
            cur = cell.cell_contents
            if cur != d:
                fresh = copy.deepcopy(d)
                if isinstance(cur, list):
                    cur[:] = fresh
                else:
                    cur.clear()
                    cur.update(fresh)
        for f, d in self._pristine_fattrs:
            fd = f.__dict__
            if not fd and not d:
                continue
            cur = {k: v for k, v in fd.items() if k != "__wrapped__" and not callable(v)}
            if cur != d:
                for k in cur:
                    del fd[k]
                fd.update(copy.deepcopy(d))
        for m, k, v, container in self._pristine:
            g = m.__dict__
            cur = g.get(k, _MISSING)
            if not container:
                if cur is not v and (type(cur) is not type(v) or cur != v):
                    g[k] = v
            elif type(cur) is type(v):
                if cur != v:
                    fresh = copy.deepcopy(v)
                    if isinstance(cur, list):
                        cur[:] = fresh
                    else:
                        cur.clear()
                        cur.update(fresh)
            else:
                g[k] = copy.deepcopy(v)
        for m in self.mods:
            known = self._pristine_names[m.__name__]
            for k in [k for k, v in vars(m).items() if k not in known and (isinstance(v, self._DATA) or isinstance(v, (dict, list, set)))]:
                delattr(m, k)
        for f, d in self._pristine_defaults:
            if f.__defaults__ != d:
                f.__defaults__ = copy.deepcopy(d)

    def _set(self, mod, name, value):
        key = (mod.__name__, name)
        if key not in self.saved:
            self.saved[key] = (mod, name, mod.__dict__.get(name, _MISSING))
        setattr(mod, name, value)

    def install(self, world):
        ps = self.psutil
        self.world = world
        fos = FakeOS(world)
        fglob = FakeGlob(world)
        ftime = FakeTime(world)
        fopen = make_open(world)
        self.fos, self.ftime = fos, ftime
        for m in self.mods:
            if "os" in m.__dict__:
                self._set(m, "os", fos)
            if "glob" in m.__dict__:
                self._set(m, "glob", fglob)
            if "time" in m.__dict__:
                self._set(m, "time", ftime)
        self._set(ps._common, "open", fopen)
        self._set(ps._pslinux, "open", fopen)
        self._set(ps, "open", fopen)
        self._set(ps._psposix, "open", fopen)
        lin, pos = _mk_routed(world)
        cl = CextProxy(world, self.real_cext, lin)
        cp = CextProxy(world, self.real_cext_posix, pos)
        self._set(ps._pslinux, "cext", cl)
        self._set(ps._pslinux, "cext_posix", cp)
        self._set(ps._pslinux, "net_if_addrs", pos["net_if_addrs"])
        self._set(ps._pslinux, "resource", FakeResource(world, self.real_resource))
        import time as real_time

        def clock(orig):
            # the simulated counterpart of whichever clock the code under test chose (a wall clock stays a wall clock)
            return ftime.time if orig is real_time.time else ftime.monotonic
        self._set(ps, "_timer", clock(self._orig_timer))
        d = list(self._wait_defaults)
        # (timeout, proc_name, _waitpid, _timer, _min, _sleep, _pid_exists)
        d[2] = fos.waitpid
        d[3] = clock(d[3])
        d[5] = ftime.sleep
        ps._psposix.wait_pid.__defaults__ = tuple(d)
        self._set(ps._common, "supports_ipv6", lambda: world.ipv6)
        self._set(ps._pslinux, "supports_ipv6", lambda: world.ipv6)
        self.reset_psutil()

    def set_world(self, world):
        """Swap in a new world cheaply (re-install)."""
        self.uninstall()
        self.install(world)
        from . import world as _wm
        _wm.CURRENT[0] = world

    def uninstall(self):
        for (mod, name, old) in self.saved.values():
            if old is _MISSING:
                try:
                    delattr(mod, name)
                except AttributeError:
                    pass
            else:
                setattr(mod, name, old)
        self.saved.clear()
        self.psutil._psposix.wait_pid.__defaults__ = self._wait_defaults

    def reset_psutil(self):
        """Restore every module-level mutable of psutil to its just-imported
        (but empty) state."""
        ps = self.psutil
        self._restore_pristine()
        ps._pmap = {}
        ps._pids_reused.clear()
        ps._LOWEST_PID = None
        ps._TOTAL_PHYMEM = None
        ps._last_cpu_times.clear()
        ps._last_per_cpu_times.clear()
        ps._last_cpu_times_2.clear()
        ps._last_per_cpu_times_2.clear()
        ps._pslinux.BOOT_TIME = None
        wn = ps._common._wn
        wn.cache.clear()
        wn.reminders.clear()
        wn.reminder_keys.clear()
        ps._psposix.get_terminal_map.cache_clear()
        ps._pslinux.set_scputimes_ntuple.cache_clear()
        ps._pslinux.scputimes = self._import_state["scputimes"]
        ps.PROCFS_PATH = self.world.procfs if self.world is not None else "/proc"
        ps._pslinux.CLOCK_TICKS = CLK_TCK           # (read from sysconf at import time)


_MISSING = object()
