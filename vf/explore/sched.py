"""Explorer S — stateless exploration of thread interleavings on the real code.

Real `threading` threads, exactly one of which runs at any time (baton =
one semaphore per thread).  Scheduling points:
  * every `line` event (optionally every opcode) of the *watched* code objects
    (the code that touches state shared between threads) via sys.settrace,
  * every simulated-kernel access (World.hook),
  * every cooperative lock acquire / release, thread start and thread end.
At a point the enabled threads are listed in canonical order (the running
thread first if still enabled, then ascending ids); choice 0 is the default
("keep running"), any other choice while the running thread is enabled costs
one pre-emption.  explore() is the CHESS recursion with iterative pre-emption
bounding; a replayed prefix must reproduce the recorded enabled sets exactly.
"""
import sys
import threading


class Deadlock(Exception):
    pass


class ReplayDivergence(Exception):
    pass


class _Stop(BaseException):
    pass


class CoopLock:
    """Cooperative (R)Lock known to the scheduler."""

    def __init__(self, sched, reentrant=False, name="lock"):
        self.s = sched
        self.owner = None
        self.count = 0
        self.reentrant = reentrant
        self.name = name

    def acquire(self, blocking=True, timeout=-1):
        s = self.s
        me = s.current()
        if me is None:            # unmanaged thread (set-up code): plain semantics
            self.owner, self.count = "main", self.count + 1
            return True
        s.point("acquire", self.name)
        while True:
            if self.owner is None:
                self.owner, self.count = me, 1
                return True
            if self.owner == me and self.reentrant:
                self.count += 1
                return True
            if not blocking:
                return False
            s.block_on(self)

    def release(self):
        s = self.s
        me = s.current()
        self.count -= 1
        if self.count == 0:
            self.owner = None
            if me is not None:
                s.unblock(self)
        if me is not None:
            s.point("release", self.name)

    __enter__ = acquire

    def __exit__(self, *a):
        self.release()

    def locked(self):
        return self.owner is not None


class Point:
    __slots__ = ("enabled", "running_enabled", "choice", "kind", "info")

    def __init__(self, enabled, running_enabled, choice, kind, info):
        self.enabled, self.running_enabled, self.choice, self.kind, self.info = enabled, running_enabled, choice, kind, info


class Execution:
    def __init__(self):
        self.points = []
        self.results = {}
        self.errors = {}
        self.deadlock = None

    def choices(self):
        return [p.choice for p in self.points]

    def preemptions_before(self, i):
        return sum(1 for p in self.points[:i] if p.running_enabled and p.choice != 0)


class Sched:
    def __init__(self, prefix=(), watched=(), opcodes=False, max_points=20000):
        self.prefix = list(prefix)
        self.watched = set(watched)          # code objects
        self.opcodes = opcodes
        self.max_points = max_points
        self.sems = {}
        self.bodies = {}
        self.state = {}        # tid -> 'ready' | 'blocked' | 'done'
        self.blocked_on = {}
        self.running = None
        self.by_ident = {}
        self.x = Execution()
        self.done_evt = threading.Event()
        self.abort = None
        self.active = False

    # ---------------------------------------------------------- plumbing
    def current(self):
        if not self.active:
            return None
        return self.by_ident.get(threading.get_ident())

    def lock(self, reentrant=False, name="lock"):
        return CoopLock(self, reentrant, name)

    def add(self, tid, fn):
        self.bodies[tid] = fn
        self.sems[tid] = threading.Semaphore(0)
        self.state[tid] = "ready"

    def _tracer(self, frame, event, arg):
        if frame.f_code in self.watched:
            if self.opcodes:
                frame.f_trace_opcodes = True
            return self._local
        return None

    def _local(self, frame, event, arg):
        if event == "line" or (event == "opcode" and self.opcodes):
            self.point(event, (frame.f_code.co_name, frame.f_lineno if event == "line" else frame.f_lasti))
        return self._local

    def _body(self, tid):
        self.by_ident[threading.get_ident()] = tid
        self.sems[tid].acquire()
        if self.abort is not None:
            return
        sys.settrace(self._tracer)
        try:
            try:
                self.x.results[tid] = self.bodies[tid]()
            except _Stop:
                return
            except BaseException as e:  # noqa: BLE001
                self.x.errors[tid] = e
        finally:
            sys.settrace(None)
        self.state[tid] = "done"
        try:
            self._switch(tid, "end", None, ending=True)
        except _Stop:
            pass

    # ------------------------------------------------------- scheduling
    def _enabled(self, me):
        ids = sorted(t for t, s in self.state.items() if s == "ready")
        if me in ids:
            ids.remove(me)
            ids.insert(0, me)
        return ids

    def _choose(self, me, kind, info, me_enabled):
        en = self._enabled(me if me_enabled else None)
        i = len(self.x.points)
        if i >= self.max_points:
            self._fail(Deadlock("more than %d scheduling points (livelock?)" % self.max_points))
        if not en:
            return None
        if i < len(self.prefix):
            c = self.prefix[i]
            if c >= len(en):
                self._fail(ReplayDivergence("choice %d out of range at point %d (enabled %r, %s %r)" % (c, i, en, kind, info)))
        else:
            c = 0
        self.x.points.append(Point(tuple(en), me_enabled, c, kind, info))
        return en[c]

    def _fail(self, exc):
        self.abort = exc
        for t, s in self.sems.items():
            s.release()
        self.done_evt.set()
        raise _Stop()

    def _switch(self, me, kind, info, ending=False):
        me_enabled = (not ending) and self.state.get(me) == "ready"
        nxt = self._choose(me, kind, info, me_enabled)
        if nxt is None:
            if all(s == "done" for s in self.state.values()):
                self.done_evt.set()
                return
            blocked = {t: getattr(self.blocked_on.get(t), "name", None) for t, s in self.state.items() if s == "blocked"}
            self.x.deadlock = blocked
            self._fail(Deadlock("no enabled thread; blocked: %r" % (blocked,)))
        if nxt == me:
            return
        self.running = nxt
        self.sems[nxt].release()
        if ending:
            return
        self.sems[me].acquire()
        if self.abort is not None:
            raise _Stop()

    def point(self, kind, info=None):
        me = self.current()
        if me is None or self.running != me:
            return
        self._switch(me, kind, info)

    def block_on(self, lock):
        me = self.current()
        self.state[me] = "blocked"
        self.blocked_on[me] = lock
        self._switch(me, "blocked", lock.name)
        # resumed: we are 'ready' again (unblock() did that)

    def unblock(self, lock):
        for t, l in list(self.blocked_on.items()):
            if l is lock and self.state[t] == "blocked":
                self.state[t] = "ready"
                del self.blocked_on[t]

    def world_hook(self, world, kind, subj, pid):
        self.point("access", (kind, str(subj)))

    # -------------------------------------------------------------- run
    def run(self):
        threads = []
        self.active = True
        try:
            for tid in sorted(self.bodies):
                t = threading.Thread(target=self._body, args=(tid,), daemon=True)
                threads.append(t)
                t.start()
            # wait until every thread registered its ident
            import time
            while len(self.by_ident) < len(threads):
                time.sleep(0)
            # first point: who starts
            en = sorted(self.bodies)
            i = 0
            c = self.prefix[0] if self.prefix else 0
            if c >= len(en):
                raise ReplayDivergence("first choice out of range")
            self.x.points.append(Point(tuple(en), False, c, "start", None))
            self.running = en[c]
            self.sems[en[c]].release()
            if not self.done_evt.wait(60):
                self.abort = Deadlock("execution did not finish within 60 s of real time")
                for s in self.sems.values():
                    s.release()
            for t in threads:
                t.join(5)
        finally:
            self.active = False
        if isinstance(self.abort, ReplayDivergence):
            raise self.abort
        if isinstance(self.abort, Deadlock) and self.x.deadlock is None:
            self.x.deadlock = str(self.abort)
        return self.x


def explore(run_one, bound, prefix=(), check=None, stats=None):
    """run_one(prefix) -> Execution.  Depth-first CHESS recursion.
    `check(execution)` is called for every execution.  Returns number of executions."""
    x = run_one(list(prefix))
    if stats is not None:
        stats["executions"] = stats.get("executions", 0) + 1
        stats["points"] = stats.get("points", 0) + len(x.points)
        stats["max_points"] = max(stats.get("max_points", 0), len(x.points))
    if check is not None:
        check(x, list(prefix))
    pts = x.points
    ch = x.choices()
    for i in range(len(prefix), len(pts)):
        p = pts[i]
        if len(p.enabled) < 2:
            continue
        cost = x.preemptions_before(i) + (1 if p.running_enabled else 0)
        if cost > bound:
            continue
        for alt in range(1, len(p.enabled)):
            explore(run_one, bound, ch[:i] + [alt], check, stats)


def frontier(run_one, bound, depth_points=2):
    """Prefixes that partition the schedule space (for parallel exploration):
    the root plus, recursively, every alternative at the first `depth_points`
    branching points."""
    out = []

    def rec(prefix, left):
        x = run_one(list(prefix))
        pts, ch = x.points, x.choices()
        out.append((list(prefix), "leafcheck"))
        if left == 0:
            return
        for i in range(len(prefix), len(pts)):
            p = pts[i]
            if len(p.enabled) < 2:
                continue
            cost = x.preemptions_before(i) + (1 if p.running_enabled else 0)
            if cost > bound:
                continue
            for alt in range(1, len(p.enabled)):
                rec(ch[:i] + [alt], left - 1)
    rec([], depth_points)
    return out


class coop_locks:
    """Context manager: every lock psutil owns or creates while active is a cooperative lock known to
    the scheduler (a real lock held by a de-scheduled thread would hang the baton protocol).
    * module attribute `threading` of psutil and psutil._common -> shim whose Lock/RLock build CoopLocks
    * existing `_thread.lock` / RLock instances in those modules' globals and in psutil._common._wn
      (including dict values, e.g. a defaultdict of locks) are swapped for the duration."""

    def __init__(self, sched, psutil):
        self.s, self.ps = sched, psutil
        self.saved = []

    def __enter__(self):
        import threading as T
        import types
        s = self.s
        lock_types = (type(T.Lock()), type(T.RLock()))

        class _DD(dict):
            def __missing__(d, k):
                d[k] = s.lock(False, "lock[%r]" % (k,))
                return d[k]
        shim = types.SimpleNamespace(**{k: getattr(T, k) for k in dir(T) if not k.startswith("__")})
        shim.Lock = lambda: s.lock(False, "Lock")
        shim.RLock = lambda: s.lock(True, "RLock")
        mods = [self.ps, self.ps._common]
        for m in mods:
            if "threading" in m.__dict__:
                self.saved.append((m.__dict__, "threading", m.__dict__["threading"]))
                m.__dict__["threading"] = shim
        holders = [m.__dict__ for m in mods] + [self.ps._common._wn.__dict__]
        for h in holders:
            for k, v in list(h.items()):
                if isinstance(v, lock_types):
                    self.saved.append((h, k, v))
                    h[k] = s.lock(isinstance(v, lock_types[1]), k)
                elif isinstance(v, dict) and v and all(isinstance(x, lock_types) for x in v.values()):
                    self.saved.append((h, k, v))
                    h[k] = _DD()
                elif type(v).__name__ == "defaultdict" and getattr(v, "default_factory", None) in (T.Lock, T.RLock):
                    self.saved.append((h, k, v))
                    h[k] = _DD()
        return self

    def __exit__(self, *a):
        for h, k, v in reversed(self.saved):
            h[k] = v
        self.saved = []
