"""Explorer H — explicit-state breadth-first search over *event histories*.

A node is an event list.  Live psutil objects cannot be copied, so a state is
re-built by replaying its history on the real code in a fresh world (model.run).
model.run(history) must return a dict:
    key      canonical, hashable-as-JSON form of the reached state (everything
             that can influence a future; equal key => equal futures)
    enabled  list of events enabled in that state (simplest first)
    viols    violations observed at the LAST event of the history
    label    short label of the last event's observed outcome (for statistics)
The search is level-synchronous; each level's (history, event) pairs are
executed in parallel.  Every transition is one execution of the implementation.
"""
import hashlib
import json


def _k(key):
    # 20-byte digest of the canonical state (hash compaction: a collision -- probability ~ n^2 / 2^161 -- would prune a state)
    return hashlib.blake2b(json.dumps(key, sort_keys=True, default=str).encode(), digest_size=20).digest()


MAX_WITNESSES = 200


def bfs(run, depth, ctx, max_states=None, progress=None, roots=None):
    """roots: prefix histories to start from in addition to [] (non-initial
    start states reach deep corners within a small depth bound)."""
    seen = set()
    frontier = []
    for root in [[]] + [list(r) for r in (roots or [])]:
        r0 = run(root)
        k0 = _k(r0["key"])
        if k0 not in seen:
            seen.add(k0)
            frontier.append((root, r0["enabled"]))
    states, transitions, maxd = len(frontier), 0, 0
    viols = []
    viol_counts = {}
    labels = {}
    samples = []
    capped = None
    per_level = [len(frontier)]
    for d in range(1, depth + 1):
        tasks = [(h, e) for h, en in frontier for e in en]
        if not tasks:
            break
        results = ctx.pimap_ordered(_Task(run), tasks) if hasattr(ctx, "pimap_ordered") else ctx.pmap(_Task(run), tasks)
        nxt = []
        for (h, e), r in zip(tasks, results):
            transitions += 1
            labels[r["label"]] = labels.get(r["label"], 0) + 1
            for v in r["viols"]:
                c = v.get("cause", "?")
                viol_counts[c] = viol_counts.get(c, 0) + 1
                if viol_counts[c] > MAX_WITNESSES:
                    continue              # counted, not kept: the first MAX_WITNESSES witnesses of a cause are the shortest ones
                v = dict(v)
                v.setdefault("case", {})
                v["case"]["history"] = h + [e]
                viols.append(v)
            k = _k(r["key"])
            if k in seen:
                continue
            seen.add(k)
            states += 1
            nh = h + [e]
            if len(samples) < 400:
                samples.append(nh)
            if r.get("stop"):
                continue
            nxt.append((nh, r["enabled"]))
        maxd = d
        per_level.append(len(nxt))
        frontier = nxt
        if progress:
            progress(d, states, transitions)
        if max_states and states >= max_states:
            capped = "max_states=%d reached at depth %d" % (max_states, d)
            break
    first = {}
    kept = {}
    for v in viols:
        c = v.get("cause", "?")
        first.setdefault(c, v)
        kept[c] = kept.get(c, 0) + 1
    for c, v in first.items():
        v["n"] = viol_counts[c] - (kept[c] - 1)      # this witness also stands for the ones that were counted but not kept
    return {"states": states, "transitions": transitions, "max_depth": maxd, "violations": viols, "violation_counts": viol_counts,
            "labels": labels, "samples": samples, "capped": capped, "new_states_per_level": per_level,
            "frontier_left": len(frontier)}


class _Task:
    def __init__(self, run):
        self.run = run

    def __call__(self, he):
        from vf.harness import deadline, Hang
        h, e = he
        try:
            with deadline(300):
                return self.run(h + [e])
        except Hang as x:
            # the code under test did not come back: a finding of its own; the state is not expanded further
            return {"key": {"hang": h + [e]}, "enabled": [], "viols": [{"cause": "does-not-terminate", "msg": "%s after %r" % (x, h + [e])}],
                    "label": "hang"}
