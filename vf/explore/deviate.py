"""Explorer F — environment-deviation enumeration (deviation-bounded, exhaustive).

A *run* executes one operation of the real code inside simk; every OS access
is a numbered point.  A *plan* is a tuple ((i0, dev0), (i1, dev1), ...) with
i0 < i1 < ...: at access i_k the deviation dev_k is applied (the default answer
is given everywhere else).  explore() enumerates every plan with at most
`bound` deviations: plan () first, then every single deviation at every access
of that run, then (recursively, on the access list *of the deviated run*) every
second deviation at a later access, ...

While replaying a prefix the access sequence up to the last planned index must
be identical to the parent's run: a divergence is a harness bug (Divergence).
"""


class Divergence(Exception):
    pass


class Run:
    __slots__ = ("plan", "accesses", "outcome", "extra")

    def __init__(self, plan, accesses, outcome, extra=None):
        self.plan, self.accesses, self.outcome, self.extra = plan, accesses, outcome, extra


def explore(runner, alts, bound, prefix=(), parent=None, on_run=None):
    """runner(plan) -> Run;  alts(run, i) -> iterable of deviation names
    applicable at access i of `run`.  Yields every Run (depth-first)."""
    run = runner(prefix)
    if parent is not None and prefix:
        k = prefix[-1][0]
        if run.accesses[:k + 1] != parent.accesses[:k + 1]:
            raise Divergence("replay of %r diverged from parent at or before access %d:\n%r\n%r"
                             % (prefix, k, run.accesses[:k + 1], parent.accesses[:k + 1]))
    yield run
    if len(prefix) >= bound:
        return
    start = prefix[-1][0] + 1 if prefix else 0
    for i in range(start, len(run.accesses)):
        for d in alts(run, i):
            yield from explore(runner, alts, bound, prefix + ((i, d),), run)


class PlanHook:
    """World hook applying a plan; records (kind, subj, pid) of every access."""

    def __init__(self, plan, apply):
        self.plan = dict(plan)
        self.apply = apply
        self.accesses = []
        self.applied = []

    def __call__(self, world, kind, subj, pid):
        i = len(self.accesses)
        self.accesses.append((kind, _j(subj), pid))
        d = self.plan.get(i)
        if d is not None:
            self.applied.append((i, d))
            self.apply(world, d, kind, subj, pid)


def _j(x):
    if isinstance(x, tuple):
        return tuple(_j(y) for y in x)
    if isinstance(x, (int, float, str)) or x is None:
        return x
    return repr(x)
