"""Driver: ./check <ID> --tier quick|thorough | --replay <file>

 1. stage /repo's working tree + build the extensions (vf.stage)
 2. run the check's exploration in a child interpreter that imports the staged
    psutil (vf.child), which writes a result JSON
 3. for every violation: write a replay file, re-execute it twice in fresh
    processes (determinism + still failing), match against known_findings.txt
 4. write evidence/<ID>.json (schema-validated), print VIOLATION / KNOWN-FINDING
    lines, remove the stage.
Exit: 0 held, 1 violation(s), 2 machinery failure.
"""
import argparse
import json
import os
import subprocess
import sys
import tempfile
import time

HERE = os.path.dirname(os.path.dirname(os.path.abspath(__file__)))
sys.path.insert(0, HERE)
from vf import stage as stage_mod  # noqa: E402

PY = "/venv/bin/python"
MAX_REPLAYS = 12


def load_known():
    """known_findings.txt lines:  <ID> <cause-key> :: <description>
       'fixed:' lines document repaired defects and suppress nothing."""
    out = {}
    path = os.path.join(HERE, "known_findings.txt")
    if not os.path.exists(path):
        return out
    for line in open(path):
        line = line.strip()
        if not line or line.startswith("#") or line.startswith("fixed:"):
            continue
        head, _, desc = line.partition("::")
        parts = head.split()
        if len(parts) >= 2:
            out.setdefault(parts[0], {})[parts[1]] = desc.strip()
    return out


def run_child(st, args, result_path, extra_env=None, timeout=None):
    env = st.env(extra_env)
    cmd = [PY, "-m", "vf.child"] + args + ["--out", result_path]
    # a check that stops making progress must fail (exit 2, machinery), not sit there: an overall allowance far above any
    # measured run time (quick: minutes, thorough: up to ~75 min on a loaded machine)
    if timeout is None:
        timeout = 4 * 3600 if "thorough" in args else 3600
    p = subprocess.Popen(cmd, env=env, cwd=HERE, start_new_session=True)
    try:
        return p.wait(timeout=timeout)
    except subprocess.TimeoutExpired:
        import signal
        print("check child exceeded its overall allowance of %d s: stopped (machinery failure)" % timeout, file=sys.stderr)
        try:
            os.killpg(p.pid, signal.SIGKILL)
        except OSError:
            pass
        p.wait()
        return 124
    except BaseException:
        import signal
        try:
            os.killpg(p.pid, signal.SIGKILL)
        except OSError:
            pass
        raise


def validate_evidence(path):
    code = (
        "import json,sys,jsonschema;"
        "s=json.load(open('/root/.vp/EVIDENCE.schema.json'));"
        "jsonschema.validate(json.load(open(sys.argv[1])),s)"
    )
    schema = "/root/.vp/EVIDENCE.schema.json"
    if not os.path.exists(schema):
        schema = os.path.join(HERE, "schemas", "EVIDENCE.schema.json")
        code = code.replace("/root/.vp/EVIDENCE.schema.json", schema)
    for py in ("python3-vt", "/opt/veriftools/pyvenv/bin/python"):
        try:
            p = subprocess.run([py, "-c", code, path], capture_output=True, text=True)
        except FileNotFoundError:
            continue
        if p.returncode != 0:
            print("evidence does not validate:\n" + p.stderr[-2000:], file=sys.stderr)
            return False
        return True
    print("warning: no jsonschema available; evidence not validated", file=sys.stderr)
    return True


def _n(vs):
    """number of violating cases a list of kept witnesses stands for (explorers keep a bounded number of witnesses per cause)"""
    return sum(int(v.get("n", 1)) for v in vs)


def main():
    ap = argparse.ArgumentParser()
    ap.add_argument("id")
    ap.add_argument("--tier", default=os.environ.get("VERIF_TIER", "quick"))
    ap.add_argument("--replay")
    ap.add_argument("--keep-stage", action="store_true")
    a = ap.parse_args()
    pid = a.id.upper()
    tier = a.tier if a.tier in ("quick", "thorough") else "quick"
    seed = int(os.environ.get("VERIF_SEED", "0") or 0)
    t0 = time.time()

    import importlib
    try:
        meta = importlib.import_module("vf.checks.%s" % pid.lower() + "_meta")
    except ImportError:
        meta = None
    sanitize = bool(getattr(meta, "SANITIZE", False))
    extra_env = dict(getattr(meta, "ENV", {}))

    try:
        st = stage_mod.Stage.create(sanitize=sanitize)
    except stage_mod.BuildError as e:
        print("BUILD FAILED: %s" % e, file=sys.stderr)
        return 2
    tmp = tempfile.mkdtemp(prefix="vf-run-", dir=stage_mod.SCRATCH_ROOT)
    try:
        if a.replay:
            out = os.path.join(tmp, "replay.json")
            rc = run_child(st, [pid, "--replay", os.path.abspath(a.replay), "--seed", str(seed)], out, extra_env)
            if rc != 0 or not os.path.exists(out):
                print("replay failed (machinery), rc=%s" % rc, file=sys.stderr)
                return 2
            r = json.load(open(out))
            print(json.dumps(r, indent=1, default=str)[:6000])
            if r.get("violated"):
                print("VIOLATION property=%s replay=%s" % (pid, os.path.abspath(a.replay)))
                return 1
            print("replay: property held on this case")
            return 0

        out = os.path.join(tmp, "result.json")
        rc = run_child(st, [pid, "--tier", tier, "--seed", str(seed)], out, extra_env)
        if rc != 0 or not os.path.exists(out):
            print("check %s: child failed rc=%s (machinery failure)" % (pid, rc), file=sys.stderr)
            return 2
        res = json.load(open(out))
        known = load_known().get(pid, {})
        viols = res.get("violations", [])
        # group by cause
        by_cause = {}
        for v in viols:
            by_cause.setdefault(v.get("cause", "?"), []).append(v)
        new_lines, known_lines = [], []
        rdir = os.path.join(HERE, "replays", pid)
        if os.environ.get("VF_NO_EVIDENCE"):
            rdir = os.path.join(HERE, "replays", "_seeded" + os.environ.get("VF_REPLAY_TAG", ""), pid)
        if os.path.isdir(rdir):
            for fn in os.listdir(rdir):
                if fn.startswith(tier + "_"):
                    os.unlink(os.path.join(rdir, fn))
        nrep = 0
        machinery_fail = False
        for cause, vs in sorted(by_cause.items()):
            v = vs[0]
            if cause in known:
                known_lines.append("KNOWN-FINDING: property=%s %s :: %s (%d case(s) this run)"
                                   % (pid, cause, known[cause], _n(vs)))
                continue
            if nrep >= MAX_REPLAYS:
                continue
            os.makedirs(rdir, exist_ok=True)
            rpath = os.path.join(rdir, "%s_%d.json" % (tier, nrep))
            nrep += 1

            def confirm(case):
                """write the replay file and replay it twice in fresh processes -> True iff the same cause shows both times"""
                with open(rpath, "w") as f:
                    json.dump({"property_id": pid, "cause": cause, "case": case,
                               "msg": v.get("msg"), "seed": seed, "count": _n(vs)}, f, indent=1, default=str)
                obs = []
                for k in range(2):
                    o = os.path.join(tmp, "rp%d_%d.json" % (nrep, k))
                    if os.path.exists(o):
                        os.unlink(o)
                    rc2 = run_child(st, [pid, "--replay", rpath, "--seed", str(seed)], o, extra_env)
                    if rc2 != 0 or not os.path.exists(o):
                        obs.append(None)
                    else:
                        obs.append(json.load(open(o)))
                return obs, not (obs[0] is None or obs[1] is None or obs[0] != obs[1] or not obs[0].get("violated"))

            # a violation that depends on what earlier cases left behind in the interpreter does not replay from its own
            # case alone: try a few other witnesses of the same cause, then the recorded history (shortest suffix first)
            obs, ok = None, False
            tried = []
            for cand in vs[:4]:
                if cand["case"] in tried:
                    continue
                tried.append(cand["case"])
                v = cand
                obs, ok = confirm(cand["case"])
                if ok:
                    break
            if not ok:
                for cand in vs:
                    ac = cand.get("alt_case") or {}
                    hist = ac.get("history")
                    if not hist:
                        continue
                    v = cand
                    k = 2
                    while not ok:
                        hc = {"history": hist[-k:]}
                        obs, ok = confirm({"_mount": ac["_mount"], "case": hc} if ac.get("_mount") else hc)
                        if k >= len(hist):
                            break
                        k *= 2
                    break
            if not ok:
                print("MACHINERY: violation %s did not replay deterministically: %r" % (rpath, obs), file=sys.stderr)
                machinery_fail = True
                continue
            new_lines.append("VIOLATION property=%s replay=%s" % (pid, rpath))
            print("  cause=%s  cases=%d  msg=%s" % (cause, _n(vs), str(v.get("msg"))[:400]))
        wall = time.time() - t0
        cov = res.get("coverage", {})
        ev = {
            "property_id": pid, "tier": tier, "seed": seed, "level": res["level"],
            "coverage": cov, "assumptions": res.get("assumptions", []),
            "wall_s": round(wall, 2), "violations": _n(viols),
            "violation_causes": {c: _n(v) for c, v in by_cause.items()},
            "known_findings_matched": sorted(c for c in by_cause if c in known),
        }
        os.makedirs(os.path.join(HERE, "evidence"), exist_ok=True)
        epath = os.path.join(HERE, "evidence", "%s.json" % pid)
        if os.environ.get("VF_NO_EVIDENCE"):
            # mutation-detection runs (tools_seed.py) must not overwrite committed evidence
            epath = os.path.join(tmp, "evidence.json")
        with open(epath, "w") as f:
            json.dump(ev, f, indent=1, default=str)
        ok = validate_evidence(epath)
        for l in known_lines:
            print(l)
        for l in new_lines:
            print(l)
        summary = {k: cov.get(k) for k in ("states", "transitions", "evaluations", "distinct_nontrivial",
                                           "traces_validated_against_impl", "exhaustive") if k in cov}
        print("check %s tier=%s seed=%d: %s violations=%d (new causes=%d, known=%d) wall=%.1fs"
              % (pid, tier, seed, summary, _n(viols), len(new_lines), len(known_lines), wall))
        if machinery_fail or not ok:
            return 2
        return 1 if new_lines else 0
    finally:
        if not a.keep_stage:
            st.remove()
        import shutil
        shutil.rmtree(tmp, ignore_errors=True)


if __name__ == "__main__":
    sys.exit(main())
