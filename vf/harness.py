"""Shared helpers for the check modules (run inside the child interpreter)."""
import collections
import enum
import multiprocessing
import os
import sys
import traceback

_SEAMS = None


def seams():
    global _SEAMS
    if _SEAMS is None:
        from vf.simk.seams import Seams
        _SEAMS = Seams()
    return _SEAMS


# settings of the second ("alt") pass of a check, set by vf/child.py before the workers are forked
ALT_SETTINGS = {"debug": False}


def use_world(world):
    """Install `world` behind the seams and reset psutil's module state."""
    s = seams()
    s.set_world(world)
    if ALT_SETTINGS["debug"]:
        # PSUTIL_DEBUG=1 (documented): the debug() calls on the error paths really format and print their messages
        s.psutil._common.PSUTIL_DEBUG = True
    return s


class Ctx:
    def __init__(self, tier, seed):
        self.tier = tier
        self.seed = seed
        self.thorough = tier == "thorough"
        self.alt = False          # second pass of a check with procfs mounted elsewhere (vf/child.py)
        self.ncpu = int(os.environ.get("VF_JOBS", "0") or 0) or (os.cpu_count() or 4)
        self._pool = None

    def pool(self):
        if self._pool is None:
            ctx = multiprocessing.get_context("fork")
            self._pool = ctx.Pool(self.ncpu)
        return self._pool

    def pmap(self, fn, items, chunk=None):
        items = list(items)
        if not items:
            return []
        if self.ncpu <= 1 or len(items) < 4:
            return [fn(x) for x in items]
        if chunk is None:
            chunk = max(1, len(items) // (self.ncpu * 8))
        return self.pool().map(fn, items, chunk)

    def pmap_fresh(self, fn, items):
        """like pmap, but every item runs in a process forked from this (pristine) one for that item alone: whatever the code
        under test leaves behind in the interpreter is seen by the later cases of the same item and by nothing else, so a
        result depends on its item only (and replays from it)"""
        items = list(items)
        if not items:
            return []
        ctx = multiprocessing.get_context("fork")
        with ctx.Pool(max(1, min(self.ncpu, len(items))), maxtasksperchild=1) as pool:
            return pool.map(fn, items, 1)

    def pimap_ordered(self, fn, items, chunk=None):
        """ordered and lazy: results are consumed as they arrive instead of being held all at once"""
        items = list(items)
        if self.ncpu <= 1 or len(items) < 4:
            for x in items:
                yield fn(x)
            return
        if chunk is None:
            chunk = max(1, min(256, len(items) // (self.ncpu * 8)))
        yield from self.pool().imap(fn, items, chunk)

    def pimap(self, fn, items, chunk=1):
        """unordered, lazy"""
        items = list(items)
        if self.ncpu <= 1 or len(items) < 2:
            for x in items:
                yield fn(x)
            return
        yield from self.pool().imap_unordered(fn, items, chunk)

    def close(self):
        if self._pool is not None:
            self._pool.terminate()
            self._pool.join()
            self._pool = None


def freeze(v):
    """JSON-able, canonical rendering of psutil return values."""
    if isinstance(v, enum.Enum):
        return "%s.%s" % (type(v).__name__, v.name)
    if isinstance(v, tuple) and hasattr(v, "_fields"):
        return {"_nt": type(v).__name__, **{f: freeze(getattr(v, f)) for f in v._fields}}
    if isinstance(v, (list, tuple)):
        return [freeze(x) for x in v]
    if isinstance(v, (set, frozenset)):
        return sorted((freeze(x) for x in v), key=repr)
    if isinstance(v, dict):
        return {str(k): freeze(x) for k, x in v.items()}
    if isinstance(v, bytes):
        return v.decode("latin-1")
    if isinstance(v, (int, float, str, bool)) or v is None:
        return v
    return repr(v)


def outcome(fn, *a, **k):
    """('ok', value) or ('exc', class name, {pid,name,msg,errno})"""
    try:
        return ("ok", fn(*a, **k))
    except BaseException as e:  # noqa: BLE001
        if isinstance(e, (KeyboardInterrupt, SystemExit, MemoryError)) or type(e).__name__ == "Hang":
            raise          # (a wall-clock allowance running out is the case's verdict, not an answer of the call that happened to be running)
        info = {}
        for attr in ("pid", "name", "ppid", "seconds", "errno"):
            if hasattr(e, attr):
                try:
                    info[attr] = freeze(getattr(e, attr))
                except Exception:  # noqa: BLE001
                    pass
        info["str"] = str(e)[:200]
        tb = traceback.extract_tb(e.__traceback__)
        if tb:
            info["where"] = "%s:%d" % (os.path.basename(tb[-1].filename), tb[-1].lineno)
        return ("exc", type(e).__name__, info)


def sample(lst, n=5):
    """first, last and evenly spaced members (deterministic)."""
    lst = list(lst)
    if len(lst) <= n:
        return lst
    step = (len(lst) - 1) / (n - 1)
    return [lst[int(round(i * step))] for i in range(n)]


def _canon_val(v, depth):
    if v is None or isinstance(v, (bool, int, str, bytes)):
        return v if not isinstance(v, (str, bytes)) or len(v) <= 80 else v[:80]
    if isinstance(v, float):
        return round(v, 6)
    if depth <= 0:
        return "<%s>" % type(v).__name__
    if isinstance(v, dict):
        return sorted((str(getattr(k, "__name__", k)), _canon_val(x, depth - 1)) for k, x in v.items())
    if isinstance(v, (list, tuple)):
        return [_canon_val(x, depth - 1) for x in v]
    if isinstance(v, (set, frozenset)):
        return sorted(map(repr, (_canon_val(x, depth - 1) for x in v)))
    if hasattr(v, "_fields"):
        return [type(v).__name__] + [_canon_val(x, depth - 1) for x in v]
    return "<%s>" % type(v).__name__


def residue(obj, known=(), depth=3):
    """Canonical dump of every attribute of `obj` that is NOT named in `known` (attributes the caller's state key treats
    by hand) and does not start with `_vf_` (the harness's own tags).  An explorer's state key must separate states with
    different futures whichever attribute the code under test keeps its memory in: anything the hand-written key does
    not know about is kept concretely, so a change that introduces new per-object state cannot be merged away."""
    names = set(getattr(obj, "__dict__", {}))
    for klass in type(obj).__mro__:
        names.update(s for s in getattr(klass, "__slots__", ()) if hasattr(obj, s))
    out = []
    for nm in sorted(names):
        if nm in known or nm.startswith("_vf_"):
            continue
        out.append((nm, _canon_val(getattr(obj, nm), depth)))
    return out


def module_functions(modules):
    """every function object reachable from the modules' globals and their classes, wrappers included (each once)"""
    import types
    seen, out = set(), []
    for m in modules:
        cands = []
        for v in list(vars(m).values()):
            if isinstance(v, types.FunctionType):
                cands.append(v)
            elif isinstance(v, type) and v.__module__ == m.__name__:
                for a in list(vars(v).values()):
                    a = getattr(a, "__func__", a)
                    a = getattr(a, "fget", a) if isinstance(a, property) else a
                    if isinstance(a, types.FunctionType):
                        cands.append(a)
        for f in cands:
            while f is not None and id(f) not in seen:
                seen.add(id(f))
                out.append(f)
                f = getattr(f, "__wrapped__", None)
                if not isinstance(f, types.FunctionType):
                    break
    return out


class ModuleResidue:
    """Module-level state that differs from what it was when the execution started (scalars and plain containers of the
    given modules, except the names the caller handles by hand)."""
    _SC = (type(None), bool, int, float)
    _memo = {}

    def __new__(cls, modules, known=()):
        # the base is "psutil right after reset_psutil()", which is the same every time: build it once per process
        key = (tuple(m.__name__ for m in modules), tuple(sorted(known)))
        inst = cls._memo.get(key)
        if inst is None:
            inst = cls._memo[key] = object.__new__(cls)
            inst._built = False
        return inst

    def __init__(self, modules, known=()):
        if self._built:
            return
        self._built = True
        self.mods = modules
        self.known = set(known)
        self.names = {}
        self.items = []           # (module name, globals dict, key, raw base value | canonical base, is_container)
        for m in modules:
            g = vars(m)
            self.names[m.__name__] = set(g)
            for k, v in g.items():
                if k in self.known or k.startswith("__"):
                    continue
                if isinstance(v, self._SC):
                    self.items.append((m.__name__, g, k, v, False))
                elif isinstance(v, (dict, list, set)):
                    # (large tables -- __all__, status maps -- are constants: only their length is watched)
                    self.items.append((m.__name__, g, k, (_canon_val(v, 2) if len(v) <= 16 else None, len(v)), True))
        # data kept as attributes of function objects (flags on decorators' wrappers ...)
        self.fns = module_functions(modules)
        self.fbase = [self._fattrs(f) for f in self.fns]
        # fast path: (function, number of attributes, raw scalar attributes) as they were
        self.fquick = [(f, len(f.__dict__), {k: v for k, v in f.__dict__.items() if isinstance(v, self._SC + (str,))})
                       for f in self.fns]
        # ... and in closure cells (a decorator's private cache)
        self.cells = []
        for f in self.fns:
            for i, cell in enumerate(f.__closure__ or ()):
                try:
                    v = cell.cell_contents
                except ValueError:
                    continue
                if isinstance(v, (dict, list, set)):
                    self.cells.append((f, i, cell, _canon_val(v, 2)))

    @staticmethod
    def _fattrs(f):
        return sorted((k, _canon_val(v, 2)) for k, v in f.__dict__.items()
                      if k != "__wrapped__" and (v is None or isinstance(v, (bool, int, float, str, dict, list, set))))

    def diff(self):
        out = []
        for mn, g, k, b, container in self.items:
            v = g.get(k, "<absent>")
            if container:
                try:
                    n = len(v)
                except TypeError:
                    n = -1
                if n != b[1]:
                    out.append((mn, k, _canon_val(v, 2)))
                elif b[0] is not None:
                    c = _canon_val(v, 2)
                    if c != b[0]:
                        out.append((mn, k, c))
            elif v is not b and (type(v) is not type(b) or v != b):
                out.append((mn, k, _canon_val(v, 2)))
        for m in self.mods:
            g = vars(m)
            if len(g) != len(self.names[m.__name__]):
                for k in g:
                    if k not in self.names[m.__name__] and k not in self.known and isinstance(g[k], self._SC + (dict, list, set)):
                        out.append((m.__name__, k, _canon_val(g[k], 2)))
        for f, i, cell, b in self.cells:
            v = cell.cell_contents
            if not v and not b:
                continue
            c = _canon_val(v, 2)
            if c != b:
                out.append(("cell", getattr(f, "__qualname__", str(f)), i, c))
        for (f, n, sc), b in zip(self.fquick, self.fbase):
            d = f.__dict__
            if not d and not n:
                continue
            if len(d) == n and not b:
                continue          # only callables hang on it, as before
            if len(d) == n and all(d.get(k, d) is v or d.get(k, d) == v for k, v in sc.items()) and len(sc) == len(b):
                continue          # same attributes, same scalars, and there were no container attributes
            c = self._fattrs(f)
            if c != b:
                out.append(("fn", getattr(f, "__qualname__", str(f)), c))
        return sorted(out, key=repr)


CASE_SECONDS = 120


def guarded(fn, *a, pair=False):
    """Run one oracle evaluation `fn(*a)` -> list of (cause, msg).  If reading psutil's answer makes the ORACLE stumble
    (it indexes / unpacks / takes attributes of a value that has not the documented shape) that is reported as a violation
    of its own cause instead of crashing the run (which the runner would report as a machinery failure, exit 2).
    On the unchanged tree no oracle stumbles, so this can only fire for a tree whose answers changed shape."""
    import traceback
    try:
        with deadline(CASE_SECONDS):
            return fn(*a)
    except Hang as e:
        bad = [("does-not-terminate", "%s (case %r)" % (e, a[0] if a else None))]
        return (bad, "hang") if pair else bad
    except (AttributeError, TypeError, KeyError, IndexError, ValueError, AssertionError) as e:
        tb = traceback.extract_tb(e.__traceback__)
        where = "%s:%d" % (os.path.basename(tb[-1].filename), tb[-1].lineno)
        bad = [("answer-not-of-documented-shape:%s" % type(e).__name__,
                "the oracle could not read psutil's answer: %s: %s at %s (case %r)" % (type(e).__name__, e, where, a[0] if a else None))]
        return (bad, "shape") if pair else bad


def add_histories(viols, cases, n, enc=list):
    """Cases of one chunk run one after the other in ONE worker interpreter (as calls of a long-lived program do).  A
    violation that depends on what earlier cases left behind inside psutil does not replay from its own case alone: the
    first witnesses of every cause also carry the cases that preceded them in their worker (`alt_case`), which the runner
    uses (shortest suffix first) when the single case does not reproduce."""
    per_cause = {}
    for v in viols:
        i = v.pop("_idx", None)
        if i is None:
            continue
        k = per_cause.get(v["cause"], 0)
        if k >= 2:
            continue
        per_cause[v["cause"]] = k + 1
        start = i // n * n
        if i > start:
            v["alt_case"] = {"history": [enc(c) for c in cases[start:i + 1]]}
    return viols


def history_of(case):
    """-> list of encoded cases to run in order (a plain case is a history of one)"""
    if isinstance(case, dict) and "history" in case:
        return list(case["history"])
    return [case]


class LongLived:
    """One psutil.Process object per (world, pid) kept for the life of the interpreter: the checks that create a fresh object
    for every case also put the same case to an object that has already answered all the earlier cases of its chunk -- what
    an object remembers from earlier calls must not change later answers (unless the statement says the answer is cached)."""
    objs = {}
    on = False

    repoint = False

    @classmethod
    def get(cls, psutil, world, pid):
        if cls.repoint:
            # the object is created, THEN psutil.PROCFS_PATH is pointed somewhere else (nothing mounted there): an object keeps
            # reading the procfs it was created on
            o = psutil.Process(pid)
            psutil.PROCFS_PATH = "/.procfs-path-repointed-after-creation"
            cls._restore = (psutil, world.procfs)
            return o
        if not cls.on:
            return psutil.Process(pid)
        key = (id(world), pid)
        o = cls.objs.get(key)
        if o is None or o[0] is not world:
            o = cls.objs[key] = (world, psutil.Process(pid))
        return o[1]

    @classmethod
    def both(cls, fn, case, st, skip=lambda case: False, repoint=False):
        """fn(case, st) with a fresh object, then (unless skip(case)) with the long-lived one"""
        cls.on = False
        bad = fn(case, st)
        if repoint and not skip(case):
            cls.repoint, cls._restore = True, None
            try:
                bad = bad + [("after-PROCFS_PATH-was-repointed:" + c, m) for c, m in fn(case, st)]
            finally:
                cls.repoint = False
                if cls._restore:
                    cls._restore[0].PROCFS_PATH = cls._restore[1]
        if not skip(case):
            cls.on = True
            try:
                bad = bad + [("on-a-long-lived-object:" + c, m) for c, m in fn(case, st)]
            finally:
                cls.on = False
        return bad


class Hang(Exception):
    """the code under test did not come back within the wall-clock allowance of one case"""


class deadline:
    """with deadline(s): ...  -- raises Hang in the (main thread of the) current process after s seconds of wall time.
    A case that does not terminate is a finding (reported as such), never a stuck check."""

    def __init__(self, seconds):
        self.s = seconds

    def _fire(self, signum, frame):
        raise Hang("no result after %d s" % self.s)

    def __enter__(self):
        import signal
        import threading
        self.active = threading.current_thread() is threading.main_thread()
        if self.active:
            self.old = signal.signal(signal.SIGALRM, self._fire)
            signal.setitimer(signal.ITIMER_REAL, self.s, 5)      # (and again every 5 s, should the code under test swallow it)
        return self

    def __exit__(self, *a):
        import signal
        if self.active:
            signal.setitimer(signal.ITIMER_REAL, 0)
            signal.signal(signal.SIGALRM, self.old)
        return False
