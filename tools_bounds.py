#!/usr/bin/env python3
"""Prints the 'measured bounds' table of DESIGN.md §9 from evidence/*.json (quick) and evidence_thorough/*.json."""
import json, os
HERE = os.path.dirname(os.path.abspath(__file__))


def summ(p):
    if not os.path.exists(p):
        return "—"
    e = json.load(open(p))
    c = e["coverage"]
    bits = []
    if "states" in c:
        bits.append("%s states / %s transitions" % (f"{c['states']:,}".replace(",", " "), f"{c['transitions']:,}".replace(",", " ")))
    if "evaluations" in c:
        bits.append("%s evaluations (%s distinct)" % (f"{c['evaluations']:,}".replace(",", " "), f"{c.get('distinct_nontrivial', 0):,}".replace(",", " ")))
    sch = c.get("schedules") or {}
    if sch.get("executions"):
        bits.append("%s schedules (≤ %s pre-emptions)" % (f"{sch['executions']:,}".replace(",", " "), sch.get("preemption_bound")))
    alt = c.get("alt_procfs_mount")
    if alt:
        n = alt.get("transitions") or alt.get("evaluations")
        bits.append("2nd configuration: %s" % (f"{n:,}".replace(",", " ") if n else "yes"))
    bits.append("%d s" % round(e["wall_s"]))
    return ", ".join(bits)


print("| id | quick | thorough |\n|----|-------|----------|")
for i in range(1, 21):
    pid = "C%02d" % i
    print("| %s | %s | %s |" % (pid, summ(os.path.join(HERE, "evidence", pid + ".json")), summ(os.path.join(HERE, "evidence_thorough", pid + ".json"))))
